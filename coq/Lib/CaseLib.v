(* CaseLib: helpers for the harness-written case files (not part of any theorem).
   Long integer lists are passed as one big (hexadecimal) integer literal and unpacked here in time
   linear in the number of bits: Coq elaborates a 1500-element list literal in tens of seconds, a
   100-kbit integer literal in milliseconds. *)
From Coq Require Import ZArith List.
Import ListNotations.
Open Scope Z_scope.

Fixpoint pos_bits (p : positive) : list bool :=
  match p with xH => [true] | xO q => false :: pos_bits q | xI q => true :: pos_bits q end.

Definition z_bits (z : Z) : list bool := match z with Zpos p => pos_bits p | _ => [] end.

Fixpoint take_bits (w : nat) (bits : list bool) : Z * list bool :=
  match w with
  | O => (0, bits)
  | S k => match bits with
           | [] => (0, [])
           | b :: r => let (v, rest) := take_bits k r in ((if b then 1 else 0) + 2 * v, rest)
           end
  end.

Fixpoint unpack_bits (w : nat) (bias : Z) (n : nat) (bits : list bool) : list Z :=
  match n with
  | O => []
  | S k => let (v, rest) := take_bits w bits in (v - bias) :: unpack_bits w bias k rest
  end.

(* element i = ((big >> (w*i)) & (2^w - 1)) - bias *)
Definition unpack (w bias n big : Z) : list Z := unpack_bits (Z.to_nat w) bias (Z.to_nat n) (z_bits big).

Definition unpack_nat (w n big : Z) : list nat := map Z.to_nat (unpack w 0 n big).

Example unpack_ex : unpack 4 8 3 0x1F9 = [1; 7; -7].
Proof. reflexivity. Qed.
