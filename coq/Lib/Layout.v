(* Layout: semantics of a packed record layout (numpy structured dtype without padding),
   cells, the writer-from-spec, the reader-from-layout, and the generic round-trip theorem. *)
From Coq Require Import String ZArith List Lia Bool.
From PV Require Import Bytes.
Import ListNotations.
Open Scope Z_scope.

Inductive kind := KU | KI | KS | KF.   (* unsigned int, signed int, byte string, IEEE float kept as raw bytes *)

Definition kind_eqb (a b : kind) : bool :=
  match a, b with KU, KU | KI, KI | KS, KS | KF, KF => true | _, _ => false end.

(* A leaf array: elements k = 0..count-1 live at off + k*stride, each `width` bytes. *)
Record leaf := mkLeaf { lname : string; loff : Z; lwidth : Z; lkind : kind; lbe : bool;
                        lcount : Z; lstride : Z }.

(* A scalar cell: w bytes at offset o, signed?, big-endian? *)
Record cell := mkCell { coffz : Z; cw : nat; csigned : bool; cbe : bool }.
Definition coff (c : cell) : nat := Z.to_nat (coffz c).

Definition cell_eqb (a b : cell) : bool :=
  Z.eqb (coffz a) (coffz b) && Nat.eqb (cw a) (cw b) && Bool.eqb (csigned a) (csigned b)
  && Bool.eqb (cbe a) (cbe b).

Lemma cell_eqb_eq a b : cell_eqb a b = true -> a = b.
Proof.
  destruct a, b; unfold cell_eqb; simpl; intros H.
  repeat (apply andb_prop in H; destruct H as [H ?]).
  apply Z.eqb_eq in H. apply Nat.eqb_eq in H2. apply eqb_prop in H1. apply eqb_prop in H0.
  subst. reflexivity.
Qed.

(* Cells of a leaf: byte strings and floats are sequences of one-byte unsigned cells. *)
Fixpoint seqZ (start : Z) (n : nat) : list Z :=
  match n with O => [] | S n' => start :: seqZ (start + 1) n' end.

Definition elem_cells (l : leaf) (k : Z) : list cell :=
  let o := loff l + k * lstride l in
  match lkind l with
  | KU => [mkCell o (Z.to_nat (lwidth l)) false (lbe l || (lwidth l =? 1))]
  | KI => [mkCell o (Z.to_nat (lwidth l)) true (lbe l || (lwidth l =? 1))]
  | KS | KF => map (fun j => mkCell (o + j) 1 false true) (seqZ 0 (Z.to_nat (lwidth l)))
  end.

Definition leaf_cells (l : leaf) : list cell :=
  flat_map (elem_cells l) (seqZ 0 (Z.to_nat (lcount l))).

Definition layout_cells (ls : list leaf) : list cell := flat_map leaf_cells ls.

(* ---------- reading and writing cells in a record (list of bytes) ---------- *)
Definition read_cell (r : list Z) (c : cell) : Z := cdec (csigned c) (cbe c) (slice (coff c) (cw c) r).
Definition write_cell (c : cell) (v : Z) (r : list Z) : list Z :=
  splice (coff c) (cenc (csigned c) (cbe c) (cw c) v) r.

Fixpoint write_cells (cs : list cell) (vs : list Z) (r : list Z) : list Z :=
  match cs, vs with
  | c :: cs', v :: vs' => write_cells cs' vs' (write_cell c v r)
  | _, _ => r
  end.

(* the checks are computed in Z (binary), the semantics uses nat positions *)
Definition cell_in (size : nat) (c : cell) : bool :=
  (0 <? cw c)%nat && (0 <=? coffz c) && (coffz c + Z.of_nat (cw c) <=? Z.of_nat size).
Definition cells_disj (a b : cell) : bool :=
  (0 <=? coffz a) && (0 <=? coffz b) &&
  ((coffz a + Z.of_nat (cw a) <=? coffz b) || (coffz b + Z.of_nat (cw b) <=? coffz a)).

Lemma cell_in_spec size c : cell_in size c = true -> (0 < cw c)%nat /\ (coff c + cw c <= size)%nat.
Proof.
  unfold cell_in, coff. intros H. apply andb_prop in H. destruct H as [H H3].
  apply andb_prop in H. destruct H as [H1 H2].
  apply Nat.ltb_lt in H1. apply Z.leb_le in H2. apply Z.leb_le in H3. split; lia.
Qed.

Lemma cells_disj_spec a b : cells_disj a b = true ->
  (coff a + cw a <= coff b)%nat \/ (coff b + cw b <= coff a)%nat.
Proof.
  unfold cells_disj, coff. intros H. apply andb_prop in H. destruct H as [H H3].
  apply andb_prop in H. destruct H as [H1 H2]. apply Z.leb_le in H1. apply Z.leb_le in H2.
  apply orb_prop in H3. destruct H3 as [H3|H3]; apply Z.leb_le in H3; [left|right]; lia.
Qed.

Fixpoint pairwise_disj (cs : list cell) : bool :=
  match cs with
  | [] => true
  | c :: r => forallb (cells_disj c) r && pairwise_disj r
  end.

Definition cells_wf (size : nat) (cs : list cell) : bool :=
  forallb (cell_in size) cs && pairwise_disj cs.

Definition vals_ok (cs : list cell) (vs : list Z) : Prop :=
  Forall2 (fun c v => in_range (csigned c) (cw c) v) cs vs.

Lemma write_cell_length c v r : (coff c + cw c <= length r)%nat -> length (write_cell c v r) = length r.
Proof. intros H. unfold write_cell. apply splice_length. rewrite cenc_length. assumption. Qed.

Lemma write_cells_length cs : forall vs r, forallb (cell_in (length r)) cs = true ->
  length (write_cells cs vs r) = length r.
Proof.
  induction cs as [|c cs IH]; intros vs r H; [reflexivity|].
  destruct vs as [|v vs]; [reflexivity|]. cbn [write_cells].
  cbn [forallb] in H. apply andb_prop in H. destruct H as [Hc Hcs].
  apply cell_in_spec in Hc. destruct Hc as [_ Hc].
  rewrite IH; rewrite write_cell_length by assumption; auto.
Qed.

Lemma read_write_same c v r : (0 < cw c)%nat -> (coff c + cw c <= length r)%nat ->
  in_range (csigned c) (cw c) v -> read_cell (write_cell c v r) c = v.
Proof.
  intros Hw Hb Hr. unfold read_cell, write_cell.
  pose proof (slice_splice_same (coff c) (cenc (csigned c) (cbe c) (cw c) v) r) as Hs.
  rewrite cenc_length in Hs. rewrite Hs by assumption. apply cdec_cenc; assumption.
Qed.

Lemma read_write_other c d v r : (coff d + cw d <= length r)%nat -> cells_disj c d = true ->
  read_cell (write_cell d v r) c = read_cell r c.
Proof.
  intros Hb Hd. unfold read_cell, write_cell. f_equal.
  apply slice_splice_other; rewrite cenc_length; [assumption|].
  apply cells_disj_spec in Hd. lia.
Qed.

Lemma read_write_cells_other c cs : forall vs r,
  forallb (cell_in (length r)) cs = true -> forallb (cells_disj c) cs = true ->
  read_cell (write_cells cs vs r) c = read_cell r c.
Proof.
  induction cs as [|d cs IH]; intros vs r Hin Hd; [reflexivity|].
  destruct vs as [|v vs]; [reflexivity|]. cbn [write_cells].
  cbn [forallb] in *. apply andb_prop in Hin. destruct Hin as [Hdin Hin].
  apply andb_prop in Hd. destruct Hd as [Hd1 Hd].
  apply cell_in_spec in Hdin. destruct Hdin as [_ Hdin].
  rewrite IH; [|rewrite write_cell_length by assumption; assumption|assumption].
  apply read_write_other; assumption.
Qed.

(* The generic round trip: writing all cells then reading all cells gives back the values. *)
Theorem read_write_cells cs : forall vs r,
  cells_wf (length r) cs = true -> vals_ok cs vs ->
  map (read_cell (write_cells cs vs r)) cs = vs.
Proof.
  induction cs as [|c cs IH]; intros vs r Hwf Hv.
  - inversion Hv. reflexivity.
  - inversion Hv as [|? v ? vs' Hr Hv']; subst. cbn [write_cells map].
    unfold cells_wf in Hwf. cbn [forallb pairwise_disj] in Hwf.
    apply andb_prop in Hwf. destruct Hwf as [Hin Hpd].
    apply andb_prop in Hin. destruct Hin as [Hc Hin].
    apply andb_prop in Hpd. destruct Hpd as [Hd Hpd].
    apply cell_in_spec in Hc. destruct Hc as [Hw Hb].
    f_equal.
    + rewrite read_write_cells_other;
        [|rewrite write_cell_length by assumption; assumption|assumption].
      apply read_write_same; assumption.
    + apply IH; [|assumption]. rewrite write_cell_length by assumption.
      unfold cells_wf. rewrite Hin, Hpd. reflexivity.
Qed.

(* Cells that are not written keep their old content. *)
Theorem read_unwritten c cs vs r :
  forallb (cell_in (length r)) cs = true -> forallb (cells_disj c) cs = true ->
  read_cell (write_cells cs vs r) c = read_cell r c.
Proof. apply read_write_cells_other. Qed.

(* ---------- spec vs generated layout ---------- *)
(* A spec leaf agrees with a generated layout if a generated leaf with the same name has the same
   offset, width, kind, byte order (for multi-byte integers), count and stride. *)
Definition leaf_agrees (s g : leaf) : bool :=
  String.eqb (lname s) (lname g) && (loff s =? loff g) && (lwidth s =? lwidth g)
  && kind_eqb (lkind s) (lkind g) && (lcount s =? lcount g)
  && ((lcount s =? 1) || (lstride s =? lstride g))
  && (match lkind s with KU | KI => (lwidth s =? 1) || Bool.eqb (lbe s) (lbe g) | _ => true end).

Definition layout_agrees (spec gen : list leaf) : bool :=
  forallb (fun s => existsb (leaf_agrees s) gen) spec.

(* Cell-level consequence used by the round trip: every cell of the spec is a cell of the generated
   layout (same offset, width, signedness, byte order), so the reader decodes it identically. *)
Definition cells_subset (spec gen : list cell) : bool :=
  forallb (fun s => existsb (cell_eqb s) gen) spec.

Lemma cells_subset_in spec gen c : cells_subset spec gen = true -> In c spec -> In c gen.
Proof.
  unfold cells_subset. intros H Hin. rewrite forallb_forall in H. specialize (H c Hin).
  apply existsb_exists in H. destruct H as [g [Hg He]]. apply cell_eqb_eq in He. subst. assumption.
Qed.

(* ---------- files: header region, n records, trailing partial record ---------- *)
(* The reader model: number of complete records and record i of the data region. *)
Definition n_records (size : nat) (data : list Z) : nat := (length data / size)%nat.
Definition record_at (size : nat) (data : list Z) (i : nat) : list Z := slice (i * size) size data.

(* The writer from the spec: each record is the blank record with all spec cells written. *)
Definition write_record (size : nat) (cs : list cell) (vs : list Z) : list Z :=
  write_cells cs vs (repeat 0 size).

Lemma write_record_length size cs vs : forallb (cell_in size) cs = true ->
  length (write_record size cs vs) = size.
Proof.
  intros H. unfold write_record. rewrite write_cells_length; rewrite repeat_length; auto.
Qed.

Theorem file_roundtrip (size : nat) (cs : list cell) (recs : list (list Z)) (tail : list Z) :
  (0 < size)%nat -> cells_wf size cs = true ->
  Forall (vals_ok cs) recs -> (length tail < size)%nat ->
  let data := concat (map (write_record size cs) recs) ++ tail in
  n_records size data = length recs /\
  forall i vs, nth_error recs i = Some vs ->
    map (read_cell (record_at size data i)) cs = vs.
Proof.
  intros Hs Hwf Hv Ht data.
  assert (Hin : forallb (cell_in size) cs = true).
  { unfold cells_wf in Hwf. apply andb_prop in Hwf. tauto. }
  assert (Hlen : Forall (fun x => length x = size) (map (write_record size cs) recs)).
  { apply Forall_forall. intros x Hx. apply in_map_iff in Hx. destruct Hx as [vs [Hx _]]. subst.
    apply write_record_length; assumption. }
  split.
  - unfold n_records, data. rewrite app_length, (concat_length_chunks size) by assumption.
    rewrite map_length. rewrite Nat.div_add_l by lia. rewrite Nat.div_small by lia. lia.
  - intros i vs Hi. unfold record_at, data.
    rewrite (slice_concat_chunk size _ tail i (write_record size cs vs)); [|assumption|].
    + unfold write_record. apply read_write_cells.
      * rewrite repeat_length. assumption.
      * rewrite Forall_forall in Hv. apply Hv. eapply nth_error_In; eassumption.
    + rewrite nth_error_map, Hi. reflexivity.
Qed.

(* shifting a cell list (a sub-layout placed at a byte offset inside a larger region) *)
Definition shift_cells (d : nat) (cs : list cell) : list cell :=
  map (fun c => mkCell (coffz c + Z.of_nat d) (cw c) (csigned c) (cbe c)) cs.
