(* Median: numpy.median on integer lists in doubled units, merge sort instance, the majority lemma. *)
From Coq Require Import ZArith List Lia Bool Arith Sorting.Mergesort Sorting.Sorted Sorting.Permutation Orders.
Import ListNotations.
Open Scope Z_scope.

Module ZOrder <: TotalLeBool.
  Definition t := Z.
  Definition leb := Z.leb.
  Theorem leb_total : forall a1 a2, is_true (leb a1 a2) \/ is_true (leb a2 a1).
  Proof. intros a b. unfold leb, is_true. destruct (Z.leb_spec a b); [left|right]; auto. apply Z.leb_le. lia. Qed.
End ZOrder.
Module ZSort := Sort ZOrder.

Definition sortZ (l : list Z) : list Z := ZSort.sort l.

(* twice the median (an integer): odd length -> 2 * middle; even length -> sum of the two middle elements.
   The empty list gives 0 (numpy gives nan; callers never use it on empty lists). *)
Definition median2 (l : list Z) : Z :=
  let s := sortZ l in
  let n := length s in
  if Nat.even n then nth (n / 2 - 1) s 0 + nth (n / 2) s 0 else 2 * nth (n / 2) s 0.

Lemma sortZ_perm l : Permutation l (sortZ l).
Proof. apply ZSort.Permuted_sort. Qed.

Lemma sortZ_length l : length (sortZ l) = length l.
Proof. symmetry. apply Permutation_length. apply sortZ_perm. Qed.

Lemma sortZ_strongly l : StronglySorted Z.le (sortZ l).
Proof.
  assert (H : StronglySorted (fun x y => is_true (Z.leb x y)) (sortZ l)).
  { apply ZSort.StronglySorted_sort. intros x y z Hxy Hyz. unfold is_true in *.
    apply Z.leb_le in Hxy. apply Z.leb_le in Hyz. apply Z.leb_le. lia. }
  induction H as [|a s Hs IH Ha]; constructor; auto.
  eapply Forall_impl; [|exact Ha]. intros x Hx. apply Z.leb_le. exact Hx.
Qed.

Lemma strongly_nth_le s : StronglySorted Z.le s -> forall i j, (i <= j < length s)%nat -> nth i s 0 <= nth j s 0.
Proof.
  induction 1 as [|a s Hs IH Ha]; intros i j Hij; [simpl in Hij; lia|].
  destruct i as [|i], j as [|j]; simpl in *; try lia.
  - rewrite Forall_forall in Ha. apply Ha. apply nth_In. lia.
  - apply IH. lia.
Qed.

Lemma count_occ_le_length (l : list Z) c : (count_occ Z.eq_dec l c <= length l)%nat.
Proof. induction l as [|x l IH]; simpl; [lia|]. destruct (Z.eq_dec x c); lia. Qed.

Lemma count_occ_none (l : list Z) c : (forall x, In x l -> x <> c) -> count_occ Z.eq_dec l c = 0%nat.
Proof. intros H. apply count_occ_not_In. intros Hin. apply (H c Hin). reflexivity. Qed.

Lemma In_firstn_nth (s : list Z) m x : In x (firstn m s) -> exists i, (i < m)%nat /\ (i < length s)%nat /\ nth i s 0 = x.
Proof.
  revert m. induction s as [|a s IH]; intros m H.
  - rewrite firstn_nil in H. contradiction.
  - destruct m as [|m]; [contradiction|]. simpl in H. destruct H as [H|H].
    + exists 0%nat. simpl. split; [lia|]. split; [lia|assumption].
    + destruct (IH m H) as [i [H1 [H2 H3]]]. exists (S i). simpl. split; [lia|]. split; [lia|assumption].
Qed.

Lemma In_skipn_nth (s : list Z) m x : In x (skipn m s) -> exists i, (m <= i < length s)%nat /\ nth i s 0 = x.
Proof.
  revert m. induction s as [|a s IH]; intros m H.
  - rewrite skipn_nil in H. contradiction.
  - destruct m as [|m].
    + cbn [skipn] in H. apply In_nth with (d := 0) in H. destruct H as [i [H1 H2]]. exists i. split; [lia|assumption].
    + simpl in H. destruct (IH m H) as [i [H1 H2]]. exists (S i). simpl. split; [lia|assumption].
Qed.

(* In a sorted list, if more than half of the elements equal c, then every "middle" position holds c. *)
Lemma sorted_majority_nth s c m :
  StronglySorted Z.le s -> (2 * count_occ Z.eq_dec s c > length s)%nat ->
  (m < length s)%nat -> (2 * m + 2 >= length s)%nat -> (2 * m <= length s)%nat ->
  nth m s 0 = c.
Proof.
  intros Hs Hmaj Hm Hlo Hhi.
  destruct (Z.lt_trichotomy (nth m s 0) c) as [Hlt|[Heq|Hgt]]; [|assumption|]; exfalso.
  - (* positions 0..m hold values < c *)
    assert (Hc : count_occ Z.eq_dec s c = count_occ Z.eq_dec (skipn (S m) s) c).
    { rewrite <- (firstn_skipn (S m) s) at 1. rewrite count_occ_app.
      rewrite count_occ_none; [reflexivity|].
      intros x Hx. apply In_firstn_nth in Hx. destruct Hx as [i [H1 [H2 H3]]].
      pose proof (strongly_nth_le s Hs i m ltac:(lia)). lia. }
    pose proof (count_occ_le_length (skipn (S m) s) c) as Hle. rewrite skipn_length in Hle. lia.
  - (* positions m.. hold values > c *)
    assert (Hc : count_occ Z.eq_dec s c = count_occ Z.eq_dec (firstn m s) c).
    { rewrite <- (firstn_skipn m s) at 1. rewrite count_occ_app.
      rewrite (count_occ_none (skipn m s)); [lia|].
      intros x Hx. apply In_skipn_nth in Hx. destruct Hx as [i [H1 H3]].
      pose proof (strongly_nth_le s Hs m i ltac:(lia)). lia. }
    pose proof (count_occ_le_length (firstn m s) c) as Hle. rewrite firstn_length in Hle. lia.
Qed.

Lemma count_occ_perm (l l' : list Z) c : Permutation l l' -> count_occ Z.eq_dec l c = count_occ Z.eq_dec l' c.
Proof.
  induction 1; simpl; auto.
  - destruct (Z.eq_dec x c); auto.
  - destruct (Z.eq_dec y c), (Z.eq_dec x c); auto.
  - congruence.
Qed.

Theorem median2_majority l c : (2 * count_occ Z.eq_dec l c > length l)%nat -> median2 l = 2 * c.
Proof.
  intros Hmaj. unfold median2.
  pose proof (sortZ_strongly l) as Hs. pose proof (sortZ_length l) as Hlen.
  rewrite (count_occ_perm l (sortZ l) c (sortZ_perm l)) in Hmaj. rewrite <- Hlen in Hmaj.
  set (s := sortZ l) in *. set (n := length s) in *.
  assert (Hn : (0 < n)%nat). { pose proof (count_occ_le_length s c). lia. }
  destruct (Nat.even n) eqn:He.
  - apply Nat.even_spec in He. destruct He as [k Hk].
    assert (Hd : (n / 2 = k)%nat) by (rewrite Hk, Nat.mul_comm; apply Nat.div_mul; lia).
    rewrite Hd.
    rewrite (sorted_majority_nth s c (k - 1)) by (try assumption; fold n; lia).
    rewrite (sorted_majority_nth s c k) by (try assumption; fold n; lia). lia.
  - assert (Ho : Nat.odd n = true) by (rewrite <- Nat.negb_even, He; reflexivity).
    apply Nat.odd_spec in Ho. destruct Ho as [k Hk].
    assert (Hd : (n / 2 = k)%nat).
    { rewrite Hk. symmetry. apply Nat.div_unique with (r := 1%nat); lia. }
    rewrite Hd. rewrite (sorted_majority_nth s c k) by (try assumption; fold n; lia). reflexivity.
Qed.

Lemma count_occ_repeat c n : count_occ Z.eq_dec (repeat c n) c = n.
Proof. induction n; simpl; auto. destruct (Z.eq_dec c c); congruence. Qed.

Corollary median2_const c n : (0 < n)%nat -> median2 (repeat c n) = 2 * c.
Proof. intros H. apply median2_majority. rewrite count_occ_repeat, repeat_length. lia. Qed.

(* ---------- threshold form: a strict majority below / not below c decides the side of the median ---------- *)
Definition count_lt (c : Z) (l : list Z) : nat := length (filter (fun x => x <? c) l).

Lemma count_lt_perm c l l' : Permutation l l' -> count_lt c l = count_lt c l'.
Proof.
  unfold count_lt. induction 1; simpl; auto.
  - destruct (x <? c); simpl; auto.
  - destruct (y <? c), (x <? c); simpl; auto.
  - congruence.
Qed.

Lemma count_lt_app c l1 l2 : count_lt c (l1 ++ l2) = (count_lt c l1 + count_lt c l2)%nat.
Proof. unfold count_lt. rewrite filter_app, app_length. reflexivity. Qed.

Lemma count_lt_le_length c l : (count_lt c l <= length l)%nat.
Proof. unfold count_lt. induction l as [|x l IH]; simpl; [lia|]. destruct (x <? c); simpl; lia. Qed.

Lemma count_lt_none c l : (forall x, In x l -> c <= x) -> count_lt c l = 0%nat.
Proof.
  unfold count_lt. induction l as [|x l IH]; intros H; [reflexivity|]. simpl.
  destruct (Z.ltb_spec x c); [specialize (H x (or_introl eq_refl)); lia|]. apply IH. intros y Hy. apply H. right. assumption.
Qed.

Lemma count_lt_all c l : (forall x, In x l -> x < c) -> count_lt c l = length l.
Proof.
  unfold count_lt. induction l as [|x l IH]; intros H; [reflexivity|]. simpl.
  destruct (Z.ltb_spec x c); [simpl; f_equal; apply IH; intros y Hy; apply H; right; assumption|].
  specialize (H x (or_introl eq_refl)). lia.
Qed.

(* upper middle element *)
Lemma sorted_upper_middle_lt s c : StronglySorted Z.le s -> (2 * count_lt c s > length s)%nat ->
  nth (length s / 2) s 0 < c.
Proof.
  intros Hs Hmaj. set (m := (length s / 2)%nat).
  assert (Hn : (0 < length s)%nat) by (pose proof (count_lt_le_length c s); lia).
  assert (Hm : (m < length s)%nat) by (apply Nat.div_lt; lia).
  destruct (Z_lt_le_dec (nth m s 0) c) as [|Hge]; [assumption|exfalso].
  assert (Hc : count_lt c s = count_lt c (firstn m s)).
  { rewrite <- (firstn_skipn m s) at 1. rewrite count_lt_app.
    rewrite (count_lt_none c (skipn m s)); [lia|].
    intros x Hx. apply In_skipn_nth in Hx. destruct Hx as [i [H1 H2]].
    pose proof (strongly_nth_le s Hs m i ltac:(lia)). lia. }
  pose proof (count_lt_le_length c (firstn m s)) as Hle. rewrite firstn_length in Hle.
  assert (2 * m <= length s)%nat by (unfold m; pose proof (Nat.div_mod (length s) 2 ltac:(lia)); lia). lia.
Qed.

Theorem median2_lt l c : (2 * count_lt c l > length l)%nat -> median2 l < 2 * c.
Proof.
  intros Hmaj. unfold median2.
  pose proof (sortZ_strongly l) as Hs. pose proof (sortZ_length l) as Hlen.
  rewrite (count_lt_perm c l (sortZ l) (sortZ_perm l)) in Hmaj. rewrite <- Hlen in Hmaj.
  set (s := sortZ l) in *. set (n := length s) in *.
  pose proof (sorted_upper_middle_lt s c Hs Hmaj) as Hup. fold n in Hup.
  assert (Hn : (0 < n)%nat) by (pose proof (count_lt_le_length c s); unfold n; lia).
  destruct (Nat.even n) eqn:He; [|lia].
  assert (Hlow : nth (n / 2 - 1) s 0 <= nth (n / 2) s 0).
  { apply strongly_nth_le; [assumption|]. split; [lia|]. apply Nat.div_lt; lia. }
  lia.
Qed.

(* lower middle element *)
Lemma sorted_lower_middle_ge s c : StronglySorted Z.le s -> (2 * (length s - count_lt c s) > length s)%nat ->
  c <= nth ((length s - 1) / 2) s 0.
Proof.
  intros Hs Hmaj. set (m := ((length s - 1) / 2)%nat).
  assert (Hn : (0 < length s)%nat) by lia.
  assert (Hm : (m < length s)%nat).
  { unfold m. assert ((length s - 1) / 2 <= length s - 1)%nat by (apply Nat.div_le_upper_bound; lia). lia. }
  destruct (Z_lt_le_dec (nth m s 0) c) as [Hlt|]; [exfalso|assumption].
  (* positions 0..m hold values < c: at least m+1 of them *)
  assert (Hc : (S m <= count_lt c s)%nat).
  { rewrite <- (firstn_skipn (S m) s). rewrite count_lt_app.
    rewrite (count_lt_all c (firstn (S m) s)).
    - rewrite firstn_length. lia.
    - intros x Hx. apply In_firstn_nth in Hx. destruct Hx as [i [H1 [H2 H3]]].
      pose proof (strongly_nth_le s Hs i m ltac:(lia)). lia. }
  assert (length s <= 2 * S m)%nat.
  { unfold m. pose proof (Nat.div_mod (length s - 1) 2 ltac:(lia)). pose proof (Nat.mod_upper_bound (length s - 1) 2 ltac:(lia)). lia. }
  lia.
Qed.

Theorem median2_ge l c : (2 * (length l - count_lt c l) > length l)%nat -> 2 * c <= median2 l.
Proof.
  intros Hmaj. unfold median2.
  pose proof (sortZ_strongly l) as Hs. pose proof (sortZ_length l) as Hlen.
  rewrite (count_lt_perm c l (sortZ l) (sortZ_perm l)) in Hmaj. rewrite <- Hlen in Hmaj.
  set (s := sortZ l) in *. set (n := length s) in *.
  pose proof (sorted_lower_middle_ge s c Hs Hmaj) as Hlo. fold n in Hlo.
  assert (Hn : (0 < n)%nat) by lia.
  destruct (Nat.even n) eqn:He.
  - apply Nat.even_spec in He. destruct He as [k Hk].
    assert (E1 : ((n - 1) / 2 = k - 1)%nat).
    { rewrite Hk. symmetry. apply Nat.div_unique with (r := 1%nat); lia. }
    assert (E2 : (n / 2 = k)%nat) by (rewrite Hk, Nat.mul_comm; apply Nat.div_mul; lia).
    rewrite E1 in Hlo. rewrite E2.
    assert (nth (k - 1) s 0 <= nth k s 0) by (apply strongly_nth_le; [assumption|fold n; lia]). lia.
  - assert (Ho : Nat.odd n = true) by (rewrite <- Nat.negb_even, He; reflexivity).
    apply Nat.odd_spec in Ho. destruct Ho as [k Hk].
    assert (E1 : ((n - 1) / 2 = k)%nat) by (rewrite Hk; replace (2 * k + 1 - 1)%nat with (k * 2)%nat by lia; apply Nat.div_mul; lia).
    assert (E2 : (n / 2 = k)%nat) by (rewrite Hk; symmetry; apply Nat.div_unique with (r := 1%nat); lia).
    rewrite E1 in Hlo. rewrite E2. lia.
Qed.
