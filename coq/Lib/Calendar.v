(* Calendar: proleptic Gregorian day numbers relative to 1970-01-01 (numpy datetime64 semantics). *)
From Coq Require Import ZArith Lia Bool.
Open Scope Z_scope.
Ltac Zify.zify_post_hook ::= Z.to_euclidean_division_equations.

Definition is_leap (y : Z) : bool :=
  ((y mod 4 =? 0) && negb (y mod 100 =? 0)) || (y mod 400 =? 0).

Definition days_in_year (y : Z) : Z := if is_leap y then 366 else 365.

(* number of leap years in [1, y) *)
Definition leaps_before (y : Z) : Z := (y - 1) / 4 - (y - 1) / 100 + (y - 1) / 400.

(* days from 1970-01-01 to y-01-01 (negative before 1970) *)
Definition days_before_year (y : Z) : Z := 365 * (y - 1970) + leaps_before y - leaps_before 1970.

Lemma days_before_1970 : days_before_year 1970 = 0.
Proof. reflexivity. Qed.

Lemma days_before_year_succ y : days_before_year (y + 1) = days_before_year y + days_in_year y.
Proof.
  unfold days_before_year, leaps_before, days_in_year, is_leap.
  replace (y + 1 - 1) with y by lia.
  destruct (Z.eqb_spec (y mod 4) 0), (Z.eqb_spec (y mod 100) 0), (Z.eqb_spec (y mod 400) 0); cbn [andb orb negb]; lia.
Qed.

(* the instant "1 January of the year + (day-1) days + ms milliseconds" in ms since 1970-01-01 00:00 UTC *)
Definition instant_ms (year day ms : Z) : Z := (days_before_year year + (day - 1)) * 86400000 + ms.

Example instant_2000_02_29 : instant_ms 2000 60 0 = 951782400000.
Proof. reflexivity. Qed.
Example instant_1999_12_31 : instant_ms 1999 365 86399999 = 946684799999.
Proof. reflexivity. Qed.
