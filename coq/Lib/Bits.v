(* Bits: masks built from powers of two, 10-bit samples in 32-bit words. *)
From Coq Require Import ZArith Lia Bool.
Open Scope Z_scope.

Lemma land_pow2_eqb q a : 0 <= a -> (Z.land q (2 ^ a) =? 0) = negb (Z.testbit q a).
Proof.
  intros Ha. destruct (Z.testbit q a) eqn:Hb; simpl.
  - apply Z.eqb_neq. intros H.
    assert (Ht : Z.testbit (Z.land q (2 ^ a)) a = true).
    { rewrite Z.land_spec, Hb, Z.pow2_bits_true by lia. reflexivity. }
    rewrite H, Z.bits_0 in Ht. discriminate.
  - apply Z.eqb_eq. apply Z.bits_inj'. intros n Hn.
    rewrite Z.land_spec, Z.bits_0, Z.pow2_bits_eqb by lia.
    destruct (Z.eqb_spec a n) as [->|]; [rewrite Hb|]; auto using andb_false_r.
Qed.

Lemma land_lor_eqb q x y : (Z.land q (Z.lor x y) =? 0) = (Z.land q x =? 0) && (Z.land q y =? 0).
Proof.
  rewrite Z.land_lor_distr_r.
  destruct (Z.eqb_spec (Z.land q x) 0) as [Hx|Hx], (Z.eqb_spec (Z.land q y) 0) as [Hy|Hy]; simpl.
  - apply Z.eqb_eq. apply Z.lor_eq_0_iff; auto.
  - apply Z.eqb_neq. intros H. apply Z.lor_eq_0_iff in H. tauto.
  - apply Z.eqb_neq. intros H. apply Z.lor_eq_0_iff in H. tauto.
  - apply Z.eqb_neq. intros H. apply Z.lor_eq_0_iff in H. tauto.
Qed.

(* test of a mask made of one, two or three single bits *)
Definition anybit (m q : Z) : bool := negb (Z.land q m =? 0).

Lemma anybit1 q a : 0 <= a -> anybit (2 ^ a) q = Z.testbit q a.
Proof. intros. unfold anybit. rewrite land_pow2_eqb by lia. apply negb_involutive. Qed.

Lemma anybit_lor q x y : anybit (Z.lor x y) q = anybit x q || anybit y q.
Proof. unfold anybit. rewrite land_lor_eqb. apply negb_andb. Qed.

(* the bits of q outside a mask do not matter *)
Lemma anybit_only_mask m q q' : Z.land q m = Z.land q' m -> anybit m q = anybit m q'.
Proof. unfold anybit. intros ->. reflexivity. Qed.

(* ---------- 10-bit samples ---------- *)
Definition sample_of_word (w : Z) (slot : Z) : Z := Z.land (Z.shiftr w (20 - 10 * slot)) 1023.

Lemma land_1023 x : Z.land x 1023 = x mod 1024.
Proof. change 1023 with (Z.ones 10). rewrite Z.land_ones by lia. reflexivity. Qed.

Lemma sample_of_word_spec w slot : 0 <= slot <= 2 ->
  sample_of_word w slot = (w / 2 ^ (20 - 10 * slot)) mod 1024.
Proof. intros H. unfold sample_of_word. rewrite land_1023, Z.shiftr_div_pow2 by lia. reflexivity. Qed.

Lemma sample_range w slot : 0 <= sample_of_word w slot < 1024.
Proof. unfold sample_of_word. rewrite land_1023. apply Z.mod_pos_bound. lia. Qed.

(* the two top bits of the word are ignored *)
Lemma sample_top_bits_ignored w slot : 0 <= slot <= 2 ->
  sample_of_word w slot = sample_of_word (w mod 2 ^ 30) slot.
Proof.
  intros H. rewrite !sample_of_word_spec by lia.
  assert (Hs : slot = 0 \/ slot = 1 \/ slot = 2) by lia.
  destruct Hs as [Hs|[Hs|Hs]]; subst slot; simpl Z.sub; simpl Z.mul.
  - change (2 ^ 30) with (2 ^ 20 * 1024). rewrite Z.rem_mul_r by lia.
    rewrite (Z.mul_comm (2 ^ 20)), Z.div_add by lia.
    rewrite (Z.div_small (w mod 2 ^ 20)) by (apply Z.mod_pos_bound; lia). rewrite Z.add_0_l, Z.mod_mod by lia.
    reflexivity.
  - change (2 ^ 30) with (2 ^ 10 * 2 ^ 20). rewrite Z.rem_mul_r by lia.
    rewrite (Z.mul_comm (2 ^ 10)), Z.div_add by lia.
    rewrite (Z.div_small (w mod 2 ^ 10)) by (apply Z.mod_pos_bound; lia). rewrite Z.add_0_l.
    change (2 ^ 20) with (1024 * 1024). rewrite Z.rem_mul_r by lia.
    rewrite (Z.mul_comm 1024 ((w / 2 ^ 10 / 1024) mod 1024)), Z_mod_plus_full, Z.mod_mod by lia. reflexivity.
  - change (2 ^ 0) with 1. rewrite !Z.div_1_r. change (2 ^ 30) with (1024 * 2 ^ 20).
    rewrite Z.rem_mul_r by lia. rewrite (Z.mul_comm 1024), Z_mod_plus_full, Z.mod_mod by lia. reflexivity.
Qed.
