(* Bytes: big/little-endian integer codecs over lists of bytes (Z in [0,256)), slices, frame lemmas. *)
From Coq Require Import ZArith List Lia Bool.
Import ListNotations.
Open Scope Z_scope.

Definition byte_ok (b : Z) : Prop := 0 <= b < 256.
Definition bytes_ok (l : list Z) : Prop := Forall byte_ok l.

(* ---------- unsigned big-endian ---------- *)
Fixpoint be_dec_acc (acc : Z) (l : list Z) : Z :=
  match l with [] => acc | b :: r => be_dec_acc (acc * 256 + b) r end.
Definition be_dec (l : list Z) : Z := be_dec_acc 0 l.

Fixpoint be_enc (w : nat) (v : Z) : list Z :=
  match w with
  | O => []
  | S w' => be_enc w' (v / 256) ++ [v mod 256]
  end.

Lemma be_enc_length w v : length (be_enc w v) = w.
Proof. revert v; induction w as [|w IH]; simpl; intros; auto. rewrite app_length, IH. simpl. lia. Qed.

Lemma be_enc_ok w v : bytes_ok (be_enc w v).
Proof.
  revert v; induction w as [|w IH]; simpl; intros; [constructor|].
  apply Forall_app. split; [apply IH|]. constructor; [|constructor].
  unfold byte_ok. apply Z.mod_pos_bound. lia.
Qed.

Lemma be_dec_acc_app a l1 l2 : be_dec_acc a (l1 ++ l2) = be_dec_acc (be_dec_acc a l1) l2.
Proof. revert a; induction l1; simpl; intros; auto. Qed.

Lemma be_dec_acc_enc w : forall a v, 0 <= v < 256 ^ Z.of_nat w ->
  be_dec_acc a (be_enc w v) = a * 256 ^ Z.of_nat w + v.
Proof.
  induction w as [|w IH]; intros a v Hv.
  - simpl in *. lia.
  - cbn [be_enc]. rewrite be_dec_acc_app. cbn [be_dec_acc].
    assert (Hp : 256 ^ Z.of_nat (S w) = 256 * 256 ^ Z.of_nat w).
    { rewrite Nat2Z.inj_succ, Z.pow_succ_r by lia. reflexivity. }
    rewrite Hp in *.
    assert (Hpos : 0 < 256 ^ Z.of_nat w) by (apply Z.pow_pos_nonneg; lia).
    rewrite IH.
    + pose proof (Z.div_mod v 256 ltac:(lia)). lia.
    + split. apply Z.div_pos; lia. apply Z.div_lt_upper_bound; lia.
Qed.

Lemma be_dec_enc w v : 0 <= v < 256 ^ Z.of_nat w -> be_dec (be_enc w v) = v.
Proof. intros H. unfold be_dec. rewrite be_dec_acc_enc by assumption. lia. Qed.

Lemma be_dec_acc_bound : forall l a, bytes_ok l -> 0 <= a ->
  a * 256 ^ Z.of_nat (length l) <= be_dec_acc a l < (a + 1) * 256 ^ Z.of_nat (length l).
Proof.
  induction l as [|b l IH]; intros a Hl Ha.
  - simpl. lia.
  - inversion Hl as [|? ? Hb Hl']; subst. cbn [be_dec_acc length].
    rewrite Nat2Z.inj_succ, Z.pow_succ_r by lia.
    unfold byte_ok in Hb.
    specialize (IH (a * 256 + b) Hl' ltac:(lia)).
    assert (0 < 256 ^ Z.of_nat (length l)) by (apply Z.pow_pos_nonneg; lia).
    nia.
Qed.

Lemma be_dec_bound l : bytes_ok l -> 0 <= be_dec l < 256 ^ Z.of_nat (length l).
Proof. intros H. pose proof (be_dec_acc_bound l 0 H ltac:(lia)). unfold be_dec. lia. Qed.

(* ---------- generic scalar cell codec: endianness and signedness ---------- *)
Definition udec (be : bool) (l : list Z) : Z := if be then be_dec l else be_dec (rev l).
Definition uenc (be : bool) (w : nat) (v : Z) : list Z := if be then be_enc w v else rev (be_enc w v).

Definition sdec (be : bool) (l : list Z) : Z :=
  let u := udec be l in
  let m := 256 ^ Z.of_nat (length l) in
  if u <? m / 2 then u else u - m.
Definition senc (be : bool) (w : nat) (v : Z) : list Z := uenc be w (v mod 256 ^ Z.of_nat w).

Definition cdec (signed be : bool) (l : list Z) : Z := if signed then sdec be l else udec be l.
Definition cenc (signed be : bool) (w : nat) (v : Z) : list Z := if signed then senc be w v else uenc be w v.

(* value range of a w-byte cell *)
Definition in_range (signed : bool) (w : nat) (v : Z) : Prop :=
  if signed then - (256 ^ Z.of_nat w / 2) <= v < 256 ^ Z.of_nat w / 2
  else 0 <= v < 256 ^ Z.of_nat w.

Lemma uenc_length be w v : length (uenc be w v) = w.
Proof. unfold uenc. destruct be; rewrite ?rev_length; apply be_enc_length. Qed.

Lemma cenc_length s be w v : length (cenc s be w v) = w.
Proof. unfold cenc, senc. destruct s; apply uenc_length. Qed.

Lemma udec_uenc be w v : 0 <= v < 256 ^ Z.of_nat w -> udec be (uenc be w v) = v.
Proof.
  intros H. unfold udec, uenc. destruct be.
  - apply be_dec_enc; assumption.
  - rewrite rev_involutive. apply be_dec_enc; assumption.
Qed.

Lemma pow256_even w : (0 < w)%nat -> 256 ^ Z.of_nat w = 2 * (256 ^ Z.of_nat w / 2).
Proof.
  intros Hw. destruct w as [|w]; [lia|].
  rewrite Nat2Z.inj_succ, Z.pow_succ_r by lia.
  replace (256 * 256 ^ Z.of_nat w) with ((128 * 256 ^ Z.of_nat w) * 2) by lia.
  rewrite Z.div_mul by lia. lia.
Qed.

Lemma cdec_cenc s be w v : (0 < w)%nat -> in_range s w v -> cdec s be (cenc s be w v) = v.
Proof.
  intros Hw Hr. unfold cdec, cenc, in_range in *. destruct s.
  - unfold sdec, senc. rewrite uenc_length.
    assert (Hpos : 0 < 256 ^ Z.of_nat w) by (apply Z.pow_pos_nonneg; lia).
    pose proof (pow256_even w Hw) as He.
    set (m := 256 ^ Z.of_nat w) in *. set (h := m / 2) in *.
    rewrite udec_uenc by (apply Z.mod_pos_bound; lia).
    destruct (Z.ltb_spec (v mod m) h) as [Hlt|Hge].
    + destruct (Z_lt_le_dec v 0) as [Hn|Hp].
      * exfalso. assert (v mod m = v + m).
        { symmetry. apply Z.mod_unique with (q := -1); lia. } lia.
      * apply Z.mod_small. lia.
    + destruct (Z_lt_le_dec v 0) as [Hn|Hp].
      * assert (v mod m = v + m).
        { symmetry. apply Z.mod_unique with (q := -1); lia. } lia.
      * exfalso. rewrite Z.mod_small in Hge by lia. lia.
  - apply udec_uenc; assumption.
Qed.

Lemma cenc_ok s be w v : bytes_ok (cenc s be w v).
Proof.
  unfold cenc, senc, uenc. destruct s, be; try apply be_enc_ok;
  unfold bytes_ok; apply Forall_rev; apply be_enc_ok.
Qed.

(* ---------- slices ---------- *)
Definition slice {A} (off len : nat) (f : list A) : list A := firstn len (skipn off f).

Definition splice {A} (off : nat) (bs f : list A) : list A :=
  firstn off f ++ bs ++ skipn (off + length bs) f.

Lemma splice_length {A} off (bs f : list A) :
  (off + length bs <= length f)%nat -> length (splice off bs f) = length f.
Proof.
  intros H. unfold splice. rewrite !app_length, firstn_length, skipn_length. lia.
Qed.

Lemma slice_splice_same {A} off (bs f : list A) :
  (off + length bs <= length f)%nat -> slice off (length bs) (splice off bs f) = bs.
Proof.
  intros H. unfold slice, splice.
  rewrite skipn_app, firstn_length, Nat.min_l by lia.
  rewrite (skipn_all2 (firstn off f)) by (rewrite firstn_length; lia).
  rewrite Nat.sub_diag. simpl.
  rewrite firstn_app, Nat.sub_diag, firstn_all. simpl. apply app_nil_r.
Qed.

Lemma nth_error_splice_out {A} off (bs f : list A) i :
  (off + length bs <= length f)%nat -> (i < off \/ off + length bs <= i)%nat ->
  nth_error (splice off bs f) i = nth_error f i.
Proof.
  intros Hb Hi. unfold splice. destruct Hi as [Hi|Hi].
  - rewrite nth_error_app1 by (rewrite firstn_length; lia).
    revert f i Hb Hi. induction off as [|off IH]; intros f i Hb Hi; [lia|].
    destruct f as [|x f]; [simpl in *; lia|]. destruct i; simpl; auto.
    apply IH; simpl in *; lia.
  - rewrite nth_error_app2 by (rewrite firstn_length; lia).
    rewrite firstn_length, Nat.min_l by lia.
    rewrite nth_error_app2 by lia.
    rewrite <- (firstn_skipn (off + length bs) f) at 2.
    rewrite nth_error_app2 by (rewrite firstn_length; lia).
    rewrite firstn_length, Nat.min_l by lia. f_equal. lia.
Qed.

Lemma slice_ext {A} off len (f g : list A) :
  (forall i, (off <= i < off + len)%nat -> nth_error f i = nth_error g i) ->
  slice off len f = slice off len g.
Proof.
  unfold slice. revert off f g. induction len as [|len IH]; intros off f g H.
  - reflexivity.
  - assert (H0 := H off ltac:(lia)).
    assert (Hs : forall (l : list A), skipn off l = match nth_error l off with
                                        | Some x => x :: skipn (S off) l | None => [] end).
    { clear. induction off as [|off IHo]; intros l.
      - destruct l; reflexivity.
      - destruct l as [|y l]; [reflexivity|]. cbn [nth_error skipn]. rewrite (IHo l).
        destruct (nth_error l off); reflexivity. }
    rewrite (Hs f), (Hs g), H0. destruct (nth_error g off); [|reflexivity].
    cbn [firstn]. f_equal. apply (IH (S off)). intros i Hi. apply H. lia.
Qed.

Lemma slice_splice_other {A} off (bs f : list A) o len :
  (off + length bs <= length f)%nat -> (o + len <= off \/ off + length bs <= o)%nat ->
  slice o len (splice off bs f) = slice o len f.
Proof.
  intros Hb Hd. apply slice_ext. intros i Hi. apply nth_error_splice_out; [assumption|lia].
Qed.

Lemma slice_length {A} off len (f : list A) : (off + len <= length f)%nat -> length (slice off len f) = len.
Proof. intros H. unfold slice. rewrite firstn_length, skipn_length. lia. Qed.

(* ---------- chunks: record i of a concatenation of equal-length records ---------- *)
Lemma slice_concat_chunk {A} (size : nat) (recs : list (list A)) (tail : list A) i r :
  Forall (fun x => length x = size) recs -> nth_error recs i = Some r ->
  slice (i * size) size (concat recs ++ tail) = r.
Proof.
  revert i. induction recs as [|x recs IH]; intros i Hall Hn.
  - destruct i; discriminate.
  - inversion Hall as [|? ? Hx Hrest]; subst. destruct i as [|i]; simpl in Hn.
    + inversion Hn; subst. unfold slice. simpl. rewrite <- app_assoc.
      rewrite firstn_app, Nat.sub_diag, firstn_all. simpl. apply app_nil_r.
    + unfold slice in *. simpl concat. rewrite <- app_assoc.
      replace (S i * length x)%nat with (length x + i * length x)%nat by lia.
      assert (Hsk : forall (y r0 : list A) k, skipn (length y + k) (y ++ r0) = skipn k r0).
      { clear. induction y as [|a y IHy]; intros; simpl; auto. }
      rewrite Hsk. apply IH; assumption.
Qed.

Lemma concat_length_chunks {A} (size : nat) (recs : list (list A)) :
  Forall (fun x => length x = size) recs -> length (concat recs) = (length recs * size)%nat.
Proof.
  induction 1 as [|x l Hx _ IH]; simpl; [reflexivity|]. rewrite app_length, IH, Hx. reflexivity.
Qed.
