(* NumSig: a numeric signature so that models containing transcendental functions are written once and
   instantiated (a) with Coq's reals for the theorems and (b) with primitive floats for the correspondence. *)
From Coq Require Import ZArith QArith.

Record NumSig := mkNS {
  T : Type;
  ofQ : Q -> T;
  add : T -> T -> T; sub : T -> T -> T; mul : T -> T -> T; div : T -> T -> T;
  expT : T -> T; lnT : T -> T;
  ltb : T -> T -> bool          (* strictly less; false if unordered (NaN) *)
}.
