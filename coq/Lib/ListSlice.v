(* ListSlice: numpy basic slicing start:stop:step on lists, strided assignment, nth helpers. *)
From Coq Require Import ZArith List Lia Arith Bool.
Open Scope nat_scope.
Import ListNotations.

(* indices start, start+step, ... < stop  (step > 0), as numpy's a[start:stop:step] for in-range bounds *)
Fixpoint slice_indices_fuel (fuel start stop step : nat) : list nat :=
  match fuel with
  | O => []
  | S f => if start <? stop then start :: slice_indices_fuel f (start + step) stop step else []
  end.
Definition slice_indices (start stop step : nat) : list nat := slice_indices_fuel stop start stop step.

Definition pyslice {A} (d : A) (start stop step : nat) (l : list A) : list A :=
  map (fun i => nth i l d) (slice_indices start (Nat.min stop (length l)) step).

(* dst[start::step] = src   (numpy requires len(src) = number of selected positions; the model simply
   assigns as many as there are source elements) *)
Fixpoint assign_strided_from {A} (k start step : nat) (src dst : list A) (d : A) : list A :=
  match dst with
  | [] => []
  | x :: r =>
      (if (start <=? k) && ((k - start) mod step =? 0) && ((k - start) / step <? length src)
       then nth ((k - start) / step) src d else x)
      :: assign_strided_from (S k) start step src r d
  end.
Definition assign_strided {A} (start step : nat) (src dst : list A) (d : A) : list A :=
  assign_strided_from 0 start step src dst d.

Lemma assign_strided_from_length {A} k start step (src dst : list A) d :
  length (assign_strided_from k start step src dst d) = length dst.
Proof. revert k; induction dst as [|x r IH]; intros; simpl; auto. Qed.

Lemma assign_strided_length {A} start step (src dst : list A) d :
  length (assign_strided start step src dst d) = length dst.
Proof. apply assign_strided_from_length. Qed.

Lemma nth_assign_strided_from {A} (src : list A) d start step : forall dst k i, i < length dst ->
  nth i (assign_strided_from k start step src dst d) d =
  if (start <=? k + i) && ((k + i - start) mod step =? 0) && ((k + i - start) / step <? length src)
  then nth ((k + i - start) / step) src d else nth i dst d.
Proof.
  induction dst as [|x r IH]; intros k i Hi; [simpl in Hi; lia|].
  destruct i as [|i]; cbn [assign_strided_from nth].
  - rewrite Nat.add_0_r. reflexivity.
  - rewrite IH by (simpl in Hi; lia). replace (S k + i) with (k + S i) by lia. reflexivity.
Qed.

Lemma nth_assign_strided {A} (src dst : list A) d start step i : i < length dst ->
  nth i (assign_strided start step src dst d) d =
  if (start <=? i) && ((i - start) mod step =? 0) && ((i - start) / step <? length src)
  then nth ((i - start) / step) src d else nth i dst d.
Proof. intros H. unfold assign_strided. rewrite nth_assign_strided_from by assumption. reflexivity. Qed.
