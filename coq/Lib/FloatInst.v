(* FloatInst: primitive-float instance of NumSig, used ONLY by the correspondence check (never by a theorem).
   exp and ln are computed by argument scaling + series to about 1e-13 relative accuracy; the comparison with the
   implementation uses a 1e-9 relative tolerance, so libm-exactness is not needed. *)
From Coq Require Import ZArith QArith PrimFloat Uint63 List.
From PV Require Import NumSig.
Import ListNotations.
Open Scope float_scope.

Definition fof_pos63 (z : Z) : float := of_uint63 (Uint63.of_Z z).        (* 0 <= z < 2^63 *)

Fixpoint fpow2 (n : nat) (acc : float) (up : bool) : float :=
  match n with O => acc | S k => fpow2 k (if up then acc * 2 else acc * 0.5) up end.
Definition fldexp (f : float) (e : Z) : float :=
  if (0 <=? e)%Z then fpow2 (Z.to_nat e) f true else fpow2 (Z.to_nat (- e)) f false.

(* float of a rational with arbitrary size numerator/denominator (about 61 significant bits before rounding) *)
Definition fofQ (q : Q) : float :=
  let n := Qnum q in let d := Zpos (Qden q) in
  if (n =? 0)%Z then 0 else
  let a := Z.abs n in
  let k := (Z.log2 a - Z.log2 d)%Z in
  let s := (61 - k)%Z in
  let m := if (0 <=? s)%Z then (a * 2 ^ s / d)%Z else (a / (d * 2 ^ (- s)))%Z in
  let f := fldexp (fof_pos63 m) (- s) in
  if (n <? 0)%Z then - f else f.

(* exp x = (exp (x / 256)) ^ 256, Taylor series of degree 14 on the small argument *)
Fixpoint exp_series (n : nat) (r term acc i : float) : float :=
  match n with O => acc | S k => let term' := term * r / i in exp_series k r term' (acc + term') (i + 1) end.
Fixpoint fsquare_n (n : nat) (x : float) : float := match n with O => x | S k => fsquare_n k (x * x) end.
Definition fexp (x : float) : float := fsquare_n 8 (exp_series 14 (x / 256) 1 1 1).

(* ln y = 1024 * ln (y ^ (1/1024)), atanh series on the root which is close to 1 *)
Fixpoint fsqrt_n (n : nat) (x : float) : float := match n with O => x | S k => fsqrt_n k (PrimFloat.sqrt x) end.
Fixpoint atanh_series (n : nat) (u2 pow acc k : float) : float :=
  match n with O => acc | S m => let pow' := pow * u2 in atanh_series m u2 pow' (acc + pow' / k) (k + 2) end.
Definition fln (y : float) : float :=
  if y <=? 0 then nan else
  let near1 := (0.5 <? y) && (y <? 2) in
  let r := if near1 then y else fsqrt_n 10 y in
  let u := (r - 1) / (r + 1) in
  (if near1 then 1 else 1024) * (2 * (u + u * atanh_series 20 (u * u) 1 0 3)).

Definition FloatSig : NumSig :=
  mkNS float fofQ PrimFloat.add PrimFloat.sub PrimFloat.mul PrimFloat.div fexp fln PrimFloat.ltb.

(* helpers for comparisons in the case files *)
Definition fclose (tol a b : float) : bool :=
  (abs (a - b) <=? tol * (1 + abs b)).
Definition is_nanf (x : float) : bool := negb (x =? x).
