From Coq Require Import ZArith List Bool Arith Lia.
From PV Require Import Median Calendar M_Times.
Import ListNotations.
Open Scope Z_scope.
Ltac Zify.zify_post_hook ::= Z.to_euclidean_division_equations.

(* disjoint lor is addition *)
Lemma lor_shift_add a b : 0 <= b < 2 ^ 16 -> Z.lor (Z.shiftl a 16) b = a * 65536 + b.
Proof.
  intros Hb. rewrite Z.shiftl_mul_pow2 by lia. change (2 ^ 16) with 65536 in *.
  rewrite <- Z.lxor_lor.
  - symmetry. apply Z.add_nocarry_lxor.
    apply Z.bits_inj'. intros n Hn. rewrite Z.land_spec, Z.bits_0.
    destruct (Z.lt_ge_cases n 16) as [Hlt|Hge].
    + replace 65536 with (2 ^ 16) by reflexivity. rewrite Z.mul_pow2_bits_low by lia. reflexivity.
    + rewrite (Z.bits_above_log2 b n); [apply andb_false_r|lia|].
      destruct (Z.eq_dec b 0) as [->|Hnz]; [simpl; lia|].
      apply Z.log2_lt_pow2; [lia|]. apply Z.lt_le_trans with (2 ^ 16); [simpl; lia|].
      apply Z.pow_le_mono_r; lia.
  - apply Z.bits_inj'. intros n Hn. rewrite Z.land_spec, Z.bits_0.
    destruct (Z.lt_ge_cases n 16) as [Hlt|Hge].
    + replace 65536 with (2 ^ 16) by reflexivity. rewrite Z.mul_pow2_bits_low by lia. reflexivity.
    + rewrite (Z.bits_above_log2 b n); [apply andb_false_r|lia|].
      destruct (Z.eq_dec b 0) as [->|Hnz]; [simpl; lia|].
      apply Z.log2_lt_pow2; [lia|]. apply Z.lt_le_trans with (2 ^ 16); [simpl; lia|].
      apply Z.pow_le_mono_r; lia.
Qed.

(* POD time code: 7-bit year with pivot, 9-bit day, 27-bit millisecond, for all 16-bit words *)
Lemma pod_decode_spec w0 w1 w2 : 0 <= w0 < 65536 -> 0 <= w1 < 65536 -> 0 <= w2 < 65536 ->
  pod_decode w0 w1 w2 =
  ((if 75 <? w0 / 512 then w0 / 512 + 1900 else w0 / 512 + 2000), w0 mod 512, (w1 mod 2048) * 65536 + w2).
Proof.
  intros H0 H1 H2. unfold pod_decode.
  rewrite Z.shiftr_div_pow2 by lia. change (2 ^ 9) with 512.
  change 511 with (Z.ones 9). rewrite Z.land_ones by lia. change (2 ^ 9) with 512.
  change 2047 with (Z.ones 11). rewrite Z.land_ones by lia. change (2 ^ 11) with 2048.
  rewrite lor_shift_add by (change (2 ^ 16) with 65536; lia). reflexivity.
Qed.

Lemma pod_decode_ranges w0 w1 w2 : 0 <= w0 < 65536 -> 0 <= w1 < 65536 -> 0 <= w2 < 65536 ->
  let '(y, d, ms) := pod_decode w0 w1 w2 in 1976 <= y <= 2075 /\ 0 <= d <= 511 /\ 0 <= ms < 2 ^ 27.
Proof.
  intros H0 H1 H2. rewrite pod_decode_spec by assumption.
  destruct (Z.ltb_spec 75 (w0 / 512)); change (2 ^ 27) with 134217728; lia.
Qed.

(* the instant denoted by (year, day, ms) *)
Lemma to_ms_spec y j ms : 0 <= ms -> to_ms y j (U * ms) = (days_before_year y + (j - 1)) * 86400000 + ms.
Proof.
  intros H. unfold to_ms, instant_ms, U. rewrite (Z.mul_comm 24 ms), Z.quot_mul by lia. lia.
Qed.

(* ---------- stage 2 ---------- *)
Definition tn_of (tp : tparams) (nums : list Z) : list Z := map (fun n => (n - 1) * period_u tp) nums.
Definition offs_of (tp : tparams) (nums times : list Z) : list Z := map2 (fun t x => U * t - x) times (tn_of tp nums).
Definition near_of (tp : tparams) (th : thresh) (nums times : list Z) (h : Z) : list Z :=
  filter (fun o => Z.abs (o - U * h) <=? U * max_diff_t0 th) (offs_of tp nums times).

Lemma medianU_majority l c : (2 * count_occ Z.eq_dec l c > length l)%nat -> medianU l = c.
Proof. intros H. unfold medianU. rewrite (median2_majority l c H). rewrite Z.mul_comm, Z.div_mul by lia. reflexivity. Qed.

Lemma map2_nth {A B C} (f : A -> B -> C) (a : list A) (b : list B) da db dc i :
  (i < length a)%nat -> (i < length b)%nat -> nth i (map2 f a b) dc = f (nth i a da) (nth i b db).
Proof.
  unfold map2. revert b i. induction a as [|x a IH]; intros b i Ha Hb; [simpl in Ha; lia|].
  destruct b as [|y b]; [simpl in Hb; lia|]. destruct i; simpl; [reflexivity|]. apply IH; simpl in *; lia.
Qed.

Lemma map2_length {A B C} (f : A -> B -> C) (a : list A) (b : list B) : length a = length b -> length (map2 f a b) = length a.
Proof. intros H. unfold map2. rewrite map_length, combine_length. lia. Qed.

(* If the lines whose offset from the line-number time equals c are the majority of the lines near the header
   (and the near lines are not too few), stage 2 succeeds with t0 = c: every line deviating more than the
   threshold from its ideal time n-based time + c is replaced by that ideal time, all other lines are unchanged. *)
Theorem stage2_majority tp th nums times h c :
  monotone nums = true -> length times = length nums ->
  let near := near_of tp th nums times h in
  (2 * count_occ Z.eq_dec near c > length near)%nat ->
  (min_frac_num th * Z.of_nat (length nums) <= Z.of_nat (length near) * min_frac_den th) ->
  exists out, stage2 tp th nums times (Some h) = S2_ok out /\ length out = length nums /\
  forall i, (i < length nums)%nat ->
    let t := nth i times 0 in let ideal := (nth i nums 0 - 1) * period_u tp + c in
    nth i out 0 = if U * max_diff_ideal th <? Z.abs (U * t - ideal) then Z.quot ideal U else t.
Proof.
  intros Hmono Hlen near Hmaj Hfrac. unfold stage2. rewrite Hmono. cbn [negb].
  fold (tn_of tp nums). fold (offs_of tp nums times). fold (near_of tp th nums times h). fold near.
  destruct (Z.ltb_spec (Z.of_nat (length near) * min_frac_den th) (min_frac_num th * Z.of_nat (length nums))) as [Hlt|Hge]; [lia|].
  rewrite (medianU_majority near c Hmaj).
  eexists. split; [reflexivity|]. split.
  - rewrite map2_length; unfold tn_of; rewrite ?map_length; lia.
  - intros i Hi. cbv zeta. rewrite (map2_nth _ times (tn_of tp nums) 0 0 0) by (unfold tn_of; rewrite ?map_length; lia).
    assert (Htn : nth i (tn_of tp nums) 0 = (nth i nums 0 - 1) * period_u tp).
    { unfold tn_of. rewrite (nth_indep _ 0 ((fun n => (n - 1) * period_u tp) 0)) by (rewrite map_length; lia).
      apply (map_nth (fun n => (n - 1) * period_u tp)). }
    rewrite !Htn. reflexivity.
Qed.

(* Consequence in the vocabulary of the property: if the true times are exactly periodic in the line numbers
   (U * truth_i = (n_i - 1) * period + c) then after stage 2 every returned time is within the threshold of the truth,
   and lines that carried the truth are unchanged. *)
Corollary stage2_repairs tp th nums times truth h c :
  monotone nums = true -> length times = length nums -> length truth = length nums ->
  0 <= max_diff_ideal th ->
  (forall i, (i < length nums)%nat -> U * nth i truth 0 = (nth i nums 0 - 1) * period_u tp + c) ->
  let near := near_of tp th nums times h in
  (2 * count_occ Z.eq_dec near c > length near)%nat ->
  (min_frac_num th * Z.of_nat (length nums) <= Z.of_nat (length near) * min_frac_den th) ->
  exists out, stage2 tp th nums times (Some h) = S2_ok out /\ length out = length nums /\
  forall i, (i < length nums)%nat ->
    Z.abs (nth i out 0 - nth i truth 0) <= max_diff_ideal th /\
    (nth i times 0 = nth i truth 0 -> nth i out 0 = nth i truth 0).
Proof.
  intros Hmono Hl1 Hl2 Hpos Htruth near Hmaj Hfrac.
  destruct (stage2_majority tp th nums times h c Hmono Hl1 Hmaj Hfrac) as [out [Hout [Hlen Hnth]]].
  exists out. split; [assumption|]. split; [assumption|].
  intros i Hi. specialize (Hnth i Hi). cbv zeta in Hnth. specialize (Htruth i Hi).
  rewrite <- Htruth in Hnth. unfold U in *.
  rewrite (Z.mul_comm 24 (nth i truth 0)), Z.quot_mul in Hnth by lia.
  destruct (Z.ltb_spec (24 * max_diff_ideal th) (Z.abs (24 * nth i times 0 - nth i truth 0 * 24))) as [Hgt|Hle];
    rewrite Hnth; split; try lia.
Qed.

(* ---------- stage 1 is the identity on quiet input ---------- *)
Lemma first_index_none f l : Forall (fun x => f x = false) l -> first_index f l = None.
Proof.
  unfold first_index. generalize 0%nat. induction l as [|x l IH]; intros n H; [reflexivity|].
  inversion H; subst. rewrite H2. apply IH. assumption.
Qed.

Lemma ediff_length l : length (ediff l) = length l.
Proof.
  destruct l as [|x r]; [reflexivity|]. cbn [ediff length]. f_equal.
  rewrite map_length, combine_length. cbn [length]. lia.
Qed.

Lemma nth_ediff l i : (i < length l)%nat ->
  nth i (ediff l) 0 = match i with O => 0 | S k => nth (S k) l 0 - nth k l 0 end.
Proof.
  destruct l as [|x r]; intros H; [simpl in H; lia|]. destruct i as [|k]; [reflexivity|].
  cbn [ediff nth]. simpl in H.
  revert x k H. induction r as [|y r IH]; intros x k H; [simpl in H; lia|].
  destruct k; [reflexivity|]. cbn [combine map nth]. apply IH. simpl in *. lia.
Qed.

Lemma map_combine4_id (f : Z * Z * Z * Z -> Z) : forall (m dm wj lt : list Z),
  length dm = length m -> length wj = length m -> length lt = length m ->
  (forall i, (i < length m)%nat -> f (nth i dm 0, nth i wj 0, nth i lt 0, nth i m 0) = nth i m 0) ->
  map f (combine (combine (combine dm wj) lt) m) = m.
Proof.
  induction m as [|x m IH]; intros dm wj lt H1 H2 H3 H.
  - destruct dm, wj, lt; simpl in *; try lia; reflexivity.
  - destruct dm as [|a dm], wj as [|b wj], lt as [|c lt]; simpl in *; try lia.
    f_equal; [apply (H 0%nat); lia|]. apply IH; try lia. intros i Hi. apply (H (S i)). lia.
Qed.

Lemma map2_snd_id (f : Z -> Z -> Z) : forall (a b : list Z), length a = length b ->
  (forall i, (i < length b)%nat -> f (nth i a 0) (nth i b 0) = nth i b 0) -> map2 f a b = b.
Proof.
  unfold map2. induction a as [|x a IH]; intros b Hl H; destruct b as [|y b]; simpl in *; try lia; [reflexivity|].
  f_equal; [apply (H 0%nat); lia|]. apply IH; [lia|]. intros i Hi. apply (H (S i)). lia.
Qed.

(* the quiet-input predicate, line by line *)
Definition wrap_u (d : Z) : Z := ((d / U) mod 4294967296) * U.

Definition quiet (tp : tparams) (nums years jdays msecs : list Z) : Prop :=
  length years = length nums /\ length jdays = length nums /\ length msecs = length nums /\
  Forall (fun j => 1 <= j <= 366) jdays /\
  Forall (fun ms => 1 <= ms) msecs /\
  Forall (fun y => 1978 <= y <= now_year tp) years /\
  (forall k, (S k < length nums)%nat -> nth k jdays 0 <= nth (S k) jdays 0) /\
  (forall k, (S k < length nums)%nat ->
     let d := wrap_u (U * nth (S k) msecs 0 - U * nth k msecs 0) in
     let dj := 2 * nth (S k) jdays 0 - 2 * nth k jdays 0 in
     ((d <? -1000 * U) || (1000 * U <? d)) && negb (dj =? 2) = true ->
     U * nth 0%nat msecs 0 + (nth (S k) nums 0 - nth 0%nat nums 0) * period_u tp = U * nth (S k) msecs 0).

Theorem stage1_quiet tp nums years jdays msecs : quiet tp nums years jdays msecs ->
  stage1 tp nums years jdays msecs = (years, jdays, map (fun x => U * x) msecs).
Proof.
  intros [Hly [Hlj [Hlm [Hj [Hm [Hy [Hmono Hrep]]]]]]]. unfold stage1. cbv zeta.
  (* jday in range *)
  assert (Ej : map (fun j => if (j <? 1) || (366 <? j) then median2 jdays else 2 * j) jdays = map (fun j => 2 * j) jdays).
  { apply map_ext_in. intros j Hin. rewrite Forall_forall in Hj. specialize (Hj j Hin).
    destruct (Z.ltb_spec j 1), (Z.ltb_spec 366 j); try lia. reflexivity. }
  rewrite Ej. set (j2 := map (fun j => 2 * j) jdays).
  assert (Lj2 : length j2 = length nums) by (unfold j2; rewrite map_length; assumption).
  assert (Nj2 : forall i, (i < length nums)%nat -> nth i j2 0 = 2 * nth i jdays 0).
  { intros i Hi. unfold j2. change 0 with ((fun j => 2 * j) 0) at 1. apply (map_nth (fun j => 2 * j)). }
  (* jday never decreases *)
  assert (Ew : map2 (fun d j => if d <? 0 then list_max j2 else j) (ediff j2) j2 = j2).
  { apply map2_snd_id; [apply ediff_length|]. intros i Hi. rewrite nth_ediff by assumption.
    destruct i as [|k]; [reflexivity|]. rewrite Lj2 in Hi. rewrite !Nj2 by lia.
    specialize (Hmono k Hi). destruct (Z.ltb_spec (2 * nth (S k) jdays 0 - 2 * nth k jdays 0) 0); [lia|reflexivity]. }
  rewrite Ew.
  (* no zero millisecond *)
  rewrite (first_index_none (fun x => x <? 1) msecs)
    by (eapply Forall_impl; [|exact Hm]; intros x Hx; apply Z.ltb_ge; exact Hx).
  unfold msec_diffs. set (m := map (fun x => U * x) msecs).
  assert (Lm : length m = length nums) by (unfold m; rewrite map_length; assumption).
  assert (Nm : forall i, nth i m 0 = U * nth i msecs 0).
  { intros i. unfold m. change 0 with ((fun x => U * x) 0) at 1. apply (map_nth (fun x => U * x)). }
  set (lt := lineno_u tp nums).
  assert (Llt : length lt = length nums) by (unfold lt, lineno_u; rewrite map_length; reflexivity).
  assert (Nlt : forall i, (i < length nums)%nat -> nth i lt 0 = (nth i nums 0 - nth 0%nat nums 0) * period_u tp).
  { intros i Hi. unfold lt, lineno_u.
    rewrite (nth_indep _ 0 ((fun n => (n - hd 0 nums) * period_u tp) 0)) by (rewrite map_length; lia).
    rewrite (map_nth (fun n => (n - hd 0 nums) * period_u tp)). destruct nums; reflexivity. }
  (* the replacement leaves every line unchanged *)
  assert (Em : map (fun q : Z * Z * Z * Z => let '(d, dj, l, x) := q in
                 if ((d <? -1000 * U) || (1000 * U <? d)) && negb (dj =? 2) then hd 0 m + l else x)
               (combine (combine (combine (map (fun d => ((d / U) mod 4294967296) * U) (ediff m)) (ediff j2)) lt) m) = m).
  { apply map_combine4_id; rewrite ?map_length, ?ediff_length; try lia.
    intros i Hi. rewrite Lm in Hi.
    destruct i as [|k].
    - rewrite (nth_indep _ 0 ((fun d => ((d / U) mod 4294967296) * U) 0)) by (rewrite map_length, ediff_length; lia).
      rewrite (map_nth (fun d => ((d / U) mod 4294967296) * U)).
      rewrite !nth_ediff by lia. cbn [Z.div]. reflexivity.
    - rewrite (nth_indep _ 0 ((fun d => ((d / U) mod 4294967296) * U) 0)) by (rewrite map_length, ediff_length; lia).
      rewrite (map_nth (fun d => ((d / U) mod 4294967296) * U)).
      rewrite !nth_ediff by lia. rewrite !Nm, !Nj2 by lia. rewrite Nlt by lia.
      specialize (Hrep k Hi). cbv zeta in Hrep. unfold wrap_u in Hrep.
      destruct (((_ <? _) || (_ <? _)) && negb (_ =? 2)) eqn:E; [|reflexivity].
      rewrite <- (Hrep eq_refl). destruct m as [|m0 mr] eqn:Em0; [simpl in Lm; lia|].
      cbn [hd]. specialize (Nm 0%nat). cbn [nth] in Nm. rewrite Nm. reflexivity. }
  rewrite Em.
  (* all years valid *)
  rewrite (first_index_none _ years).
  2:{ eapply Forall_impl; [|exact Hy]. intros y [H1 H2]. cbv beta.
      destruct (Z.ltb_spec y 1978), (Z.ltb_spec (now_year tp) y); try lia; try reflexivity. }
  f_equal. f_equal. unfold j2. rewrite map_map. rewrite <- (map_id jdays) at 2. apply map_ext.
  intros j. rewrite Z.mul_comm. apply Z.quot_mul. lia.
Qed.

(* ---------- composition: a quiet, exactly periodic pass with a consistent header is returned unchanged ---------- *)
Definition recorded (years jdays msecs : list Z) : list Z :=
  map (fun q => let '(y, j, m) := q in to_ms y j (U * m)) (combine (combine years jdays) msecs).

Lemma stage1_times_quiet tp nums years jdays msecs : quiet tp nums years jdays msecs ->
  stage1_times tp nums years jdays msecs = recorded years jdays msecs.
Proof.
  intros Hq. unfold stage1_times. rewrite (stage1_quiet _ _ _ _ _ Hq). unfold recorded.
  destruct Hq as [Hly [Hlj [Hlm _]]].
  clear -Hly Hlj Hlm. revert years jdays nums Hly Hlj Hlm.
  induction msecs as [|m ms IH]; intros ys js ns H1 H2 H3.
  - destruct ys, js; reflexivity.
  - destruct ys as [|y ys], js as [|j js], ns as [|n ns]; simpl in *; try lia; try reflexivity.
    f_equal. apply (IH ys js ns); lia.
Qed.

Lemma count_occ_all (l : list Z) c : Forall (fun x => x = c) l -> count_occ Z.eq_dec l c = length l.
Proof. induction 1; simpl; auto. destruct (Z.eq_dec x c); [lia|contradiction]. Qed.

Lemma filter_all {A} (f : A -> bool) l : Forall (fun x => f x = true) l -> filter f l = l.
Proof. induction 1; simpl; auto. rewrite H. f_equal. assumption. Qed.

Theorem clean_identity tp th nums years jdays msecs h c :
  quiet tp nums years jdays msecs -> monotone nums = true -> nums <> [] ->
  0 <= max_diff_ideal th -> 0 < min_frac_den th -> min_frac_num th <= min_frac_den th ->
  let rec := recorded years jdays msecs in
  (forall i, (i < length nums)%nat -> U * nth i rec 0 = (nth i nums 0 - 1) * period_u tp + c) ->
  Z.abs (c - U * h) <= U * max_diff_t0 th ->
  get_times tp th nums years jdays msecs (Some h) = rec.
Proof.
  intros Hq Hmono Hne Hpos Hden Hfrac rec Hper Hhead. unfold get_times.
  rewrite (stage1_times_quiet _ _ _ _ _ Hq). fold rec.
  assert (Lrec : length rec = length nums).
  { unfold rec, recorded. rewrite map_length, !combine_length.
    destruct Hq as [H1 [H2 [H3 _]]]. lia. }
  assert (Hoffs : Forall (fun o => o = c) (offs_of tp nums rec)).
  { apply Forall_forall. intros o Hin. apply (In_nth _ _ 0) in Hin. destruct Hin as [i [Hi Ho]].
    unfold offs_of in *. rewrite map2_length in Hi by (unfold tn_of; rewrite map_length; lia).
    rewrite (map2_nth _ rec (tn_of tp nums) 0 0 0) in Ho by (unfold tn_of; rewrite ?map_length; lia).
    assert (Htn : nth i (tn_of tp nums) 0 = (nth i nums 0 - 1) * period_u tp).
    { unfold tn_of. rewrite (nth_indep _ 0 ((fun n => (n - 1) * period_u tp) 0)) by (rewrite map_length; lia).
      apply (map_nth (fun n => (n - 1) * period_u tp)). }
    rewrite Htn in Ho. specialize (Hper i ltac:(lia)). lia. }
  assert (Hnear : near_of tp th nums rec h = offs_of tp nums rec).
  { unfold near_of. apply filter_all. eapply Forall_impl; [|exact Hoffs]. intros o ->. apply Z.leb_le. assumption. }
  assert (Lo : length (offs_of tp nums rec) = length nums).
  { unfold offs_of. rewrite map2_length; unfold tn_of; rewrite ?map_length; lia. }
  assert (Hn0 : (0 < length nums)%nat) by (destruct nums; [congruence|simpl; lia]).
  destruct (stage2_repairs tp th nums rec rec h c Hmono Lrec Lrec Hpos Hper) as [out [Hout [Lout Hnth]]].
  - rewrite Hnear, (count_occ_all _ c Hoffs). lia.
  - rewrite Hnear, Lo. nia.
  - rewrite Hout. apply (nth_ext _ _ 0 0); [lia|]. intros i Hi.
    apply (proj2 (Hnth i ltac:(lia))). reflexivity.
Qed.

(* ---------- witnesses ---------- *)
(* a quiet pass exists: GAC, first line 7, a 10-line gap, header = nominal time of line 1 *)
Definition ex_tp := mkTP 12000 2026.
Definition ex_th := mkTh 360000 1 100 10000.
Definition ex_nums := [7; 8; 9; 20; 21]%Z.
Definition ex_years := [2001; 2001; 2001; 2001; 2001]%Z.
Definition ex_jdays := [35; 35; 35; 35; 35]%Z.
Definition ex_msecs := [36000123; 36000623; 36001123; 36006623; 36007123]%Z.

Lemma ex_quiet : quiet ex_tp ex_nums ex_years ex_jdays ex_msecs.
Proof.
  unfold quiet. repeat split; try reflexivity.
  - repeat constructor; lia.
  - repeat constructor; lia.
  - repeat constructor; simpl; lia.
  - intros k Hk. simpl in Hk. do 4 (destruct k as [|k]; [simpl; lia|]). lia.
  - intros k Hk. simpl in Hk. do 4 (destruct k as [|k]; [vm_compute; intros; try discriminate; reflexivity|]). lia.
Qed.

Lemma ex_identity : get_times ex_tp ex_th ex_nums ex_years ex_jdays ex_msecs (Some 981280797123)
                    = recorded ex_years ex_jdays ex_msecs.
Proof. vm_compute. reflexivity. Qed.

(* The full-strength statement is false of the faithful model: a clean 300-line GAC pass whose second line is
   recorded at exactly 00:00:00.000 comes back with every later line one day late (the lines before midnight
   are fewer than 1 % of the pass, so stage 2 refuses and stage 1's extrapolation stands). *)
Fixpoint zrange (start : Z) (n : nat) : list Z := match n with O => [] | S k => start :: zrange (start + 1) k end.
Definition w_nums := zrange 1 300.
Definition w_rec_ms := map (fun n => 992563199500 + (n - 1) * 500) w_nums.          (* 2001-06-14 23:59:59.500 + ... *)
Definition w_years := map (fun _ => 2001) w_nums.
Definition w_jdays := map (fun t => 165 + (t - 992476800000) / 86400000) w_rec_ms.   (* day of year *)
Definition w_msecs := map (fun t => t mod 86400000) w_rec_ms.

Lemma clean_identity_refuted :
  recorded w_years w_jdays w_msecs = w_rec_ms /\
  monotone w_nums = true /\
  nth 1%nat w_msecs 1 = 0 /\
  nth 10%nat (get_times ex_tp ex_th w_nums w_years w_jdays w_msecs (Some 992563199500)) 0
    = nth 10%nat w_rec_ms 0 + 86400000.
Proof. vm_compute. repeat split. Qed.
