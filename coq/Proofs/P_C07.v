From Coq Require Import String ZArith List Bool Lia.
From PV Require Import Bits M_Flags Gen_Flags.
Import ListNotations.
Open Scope Z_scope.

(* The generated flag tables carry the format's bit positions. *)
Lemma klm_default_flags : default_flags klm_flags = Z.lor (Z.lor (2 ^ 31) (2 ^ 28)) (2 ^ 27).
Proof. reflexivity. Qed.
Lemma pod_default_flags : default_flags pod_flags = Z.lor (Z.lor (2 ^ 31) (2 ^ 27)) (2 ^ 26).
Proof. reflexivity. Qed.

Lemma mask_bits_klm q : line_mask klm_flags q = Z.testbit q 31 || Z.testbit q 28 || Z.testbit q 27.
Proof.
  unfold line_mask, corrupt_mask. rewrite klm_default_flags, !anybit_lor, !anybit1 by lia. reflexivity.
Qed.

Lemma mask_bits_pod q : line_mask pod_flags q = Z.testbit q 31 || Z.testbit q 27 || Z.testbit q 26.
Proof.
  unfold line_mask, corrupt_mask. rewrite pod_default_flags, !anybit_lor, !anybit1 by lia. reflexivity.
Qed.

Lemma tb q a : 0 <= a -> corrupt_mask (2 ^ a) q = Z.testbit q a.
Proof. intros. unfold corrupt_mask. apply anybit1; lia. Qed.

Lemma tb2 q a b : 0 <= a -> 0 <= b -> corrupt_mask (Z.lor (2 ^ a) (2 ^ b)) q = Z.testbit q a || Z.testbit q b.
Proof. intros. unfold corrupt_mask. rewrite anybit_lor, !anybit1 by lia. reflexivity. Qed.

Lemma summary_klm n q : qual_row klm_flags n q =
  [ n; b2z (Z.testbit q 31); b2z (Z.testbit q 28); b2z (Z.testbit q 27);
    b2z (Z.testbit q 7 || Z.testbit q 6); b2z (Z.testbit q 5 || Z.testbit q 4);
    b2z (Z.testbit q 3 || Z.testbit q 2) ].
Proof.
  unfold qual_row.
  change (flag klm_flags "FATAL_FLAG") with (2 ^ 31).
  change (flag klm_flags "CALIBRATION") with (2 ^ 28).
  change (flag klm_flags "NO_EARTH_LOCATION") with (2 ^ 27).
  change (flag klm_flags "CH_3_CONTAMINATION") with (Z.lor (2 ^ 7) (2 ^ 6)).
  change (flag klm_flags "CH_4_CONTAMINATION") with (Z.lor (2 ^ 5) (2 ^ 4)).
  change (flag klm_flags "CH_5_CONTAMINATION") with (Z.lor (2 ^ 3) (2 ^ 2)).
  rewrite !tb, !tb2 by lia. reflexivity.
Qed.

Lemma summary_pod n q : qual_row pod_flags n q =
  [ n; b2z (Z.testbit q 31); b2z (Z.testbit q 27); b2z (Z.testbit q 26);
    b2z (Z.testbit q 18); b2z (Z.testbit q 17); b2z (Z.testbit q 16) ].
Proof.
  unfold qual_row.
  change (flag pod_flags "FATAL_FLAG") with (2 ^ 31).
  change (flag pod_flags "CALIBRATION") with (2 ^ 27).
  change (flag pod_flags "NO_EARTH_LOCATION") with (2 ^ 26).
  change (flag pod_flags "CH_3_CONTAMINATION") with (2 ^ 18).
  change (flag pod_flags "CH_4_CONTAMINATION") with (2 ^ 17).
  change (flag pod_flags "CH_5_CONTAMINATION") with (2 ^ 16).
  rewrite !tb by lia. reflexivity.
Qed.

(* blanking *)
Lemma blank_row_spec {A} (m : bool) (row : list (option A)) :
  (m = true -> Forall (fun x => x = None) (blank_row m row)) /\ (m = false -> blank_row m row = row).
Proof.
  split; intros ->; simpl; [|reflexivity].
  induction row; simpl; constructor; auto.
Qed.

Lemma products_blanked A Other (F : Other -> list (list (option A))) tbl q o :
  (line_mask tbl q = true ->
     Forall (fun row => Forall (fun x => x = None) row) (line_products A Other F tbl q o)) /\
  (line_mask tbl q = false -> line_products A Other F tbl q o = F o).
Proof.
  unfold line_products. split; intros H; rewrite H.
  - apply Forall_forall. intros row Hin. apply in_map_iff in Hin. destruct Hin as [r [<- _]].
    apply (proj1 (blank_row_spec true r) eq_refl).
  - simpl. induction (F o); simpl; [reflexivity|]. f_equal. assumption.
Qed.

Lemma other_bits_inert A Other (F : Other -> list (list (option A))) tbl q q' o :
  Z.land q (default_flags tbl) = Z.land q' (default_flags tbl) ->
  line_products A Other F tbl q o = line_products A Other F tbl q' o.
Proof.
  intros H. unfold line_products, line_mask, corrupt_mask. rewrite (anybit_only_mask _ q q' H). reflexivity.
Qed.

(* agreement on the three mask bits is the same as agreement of the masked words *)
Lemma same_mask_bits_klm q q' :
  Z.testbit q 31 = Z.testbit q' 31 -> Z.testbit q 28 = Z.testbit q' 28 -> Z.testbit q 27 = Z.testbit q' 27 ->
  Z.land q (default_flags klm_flags) = Z.land q' (default_flags klm_flags).
Proof.
  intros H1 H2 H3. rewrite klm_default_flags. apply Z.bits_inj'. intros n Hn.
  rewrite !Z.land_spec, !Z.lor_spec, !Z.pow2_bits_eqb by lia.
  destruct (Z.eqb_spec 31 n) as [<-|]; [rewrite H1; reflexivity|].
  destruct (Z.eqb_spec 28 n) as [<-|]; [rewrite H2; reflexivity|].
  destruct (Z.eqb_spec 27 n) as [<-|]; [rewrite H3; reflexivity|].
  simpl. rewrite !andb_false_r. reflexivity.
Qed.

Lemma same_mask_bits_pod q q' :
  Z.testbit q 31 = Z.testbit q' 31 -> Z.testbit q 27 = Z.testbit q' 27 -> Z.testbit q 26 = Z.testbit q' 26 ->
  Z.land q (default_flags pod_flags) = Z.land q' (default_flags pod_flags).
Proof.
  intros H1 H2 H3. rewrite pod_default_flags. apply Z.bits_inj'. intros n Hn.
  rewrite !Z.land_spec, !Z.lor_spec, !Z.pow2_bits_eqb by lia.
  destruct (Z.eqb_spec 31 n) as [<-|]; [rewrite H1; reflexivity|].
  destruct (Z.eqb_spec 27 n) as [<-|]; [rewrite H2; reflexivity|].
  destruct (Z.eqb_spec 26 n) as [<-|]; [rewrite H3; reflexivity|].
  simpl. rewrite !andb_false_r. reflexivity.
Qed.
