From Coq Require Import ZArith QArith Qround List Bool Lia.
From PV Require Import M_Drift.
Import ListNotations.
Open Scope Z_scope.

(* ---------------- min / max of a list ---------------- *)
Lemma fold_min_le : forall l a, fold_left Z.min l a <= a.
Proof. induction l as [|y r IH]; intros a; cbn [fold_left]; [lia|]. specialize (IH (Z.min a y)). lia. Qed.
Lemma fold_min_le_in : forall l a x, In x l -> fold_left Z.min l a <= x.
Proof.
  induction l as [|y r IH]; intros a x Hin; [destruct Hin|]. cbn [fold_left].
  destruct Hin as [->|Hin]; [pose proof (fold_min_le r (Z.min a x)); lia | apply IH; exact Hin].
Qed.
Lemma fold_max_ge : forall l a, a <= fold_left Z.max l a.
Proof. induction l as [|y r IH]; intros a; cbn [fold_left]; [lia|]. specialize (IH (Z.max a y)). lia. Qed.
Lemma fold_max_ge_in : forall l a x, In x l -> x <= fold_left Z.max l a.
Proof.
  induction l as [|y r IH]; intros a x Hin; [destruct Hin|]. cbn [fold_left].
  destruct Hin as [->|Hin]; [pose proof (fold_max_ge r (Z.max a x)); lia | apply IH; exact Hin].
Qed.
Lemma lmin_le : forall l x, In x l -> lmin l <= x.
Proof.
  intros [|a r] x Hin; [destruct Hin|]. unfold lmin. destruct Hin as [->|Hin]; [apply fold_min_le | apply fold_min_le_in; exact Hin].
Qed.
Lemma lmax_ge : forall l x, In x l -> x <= lmax l.
Proof.
  intros [|a r] x Hin; [destruct Hin|]. unfold lmax. destruct Hin as [->|Hin]; [apply fold_max_ge | apply fold_max_ge_in; exact Hin].
Qed.

(* ---------------- last_index ---------------- *)
Lemma last_index_notin : forall l x k acc, ~ In x l -> last_index x l k acc = acc.
Proof.
  induction l as [|y r IH]; intros x k acc Hn; [reflexivity|]. cbn [last_index].
  rewrite IH by (intros H; apply Hn; right; exact H).
  destruct (Z.eqb_spec y x) as [E|E]; [exfalso; apply Hn; left; exact E | reflexivity].
Qed.

Lemma last_index_in : forall l x k acc, In x l ->
  exists i, last_index x l k acc = Some i /\ (k <= i)%nat /\ nth (i - k) l 0 = x /\ (i - k < length l)%nat.
Proof.
  induction l as [|y r IH]; intros x k acc Hin; [destruct Hin|]. cbn [last_index].
  destruct (in_dec Z.eq_dec x r) as [Hr|Hr].
  - destruct (IH x (S k) (if y =? x then Some k else acc) Hr) as [i [H1 [H2 [H3 H4]]]].
    exists i. split; [exact H1|]. split; [lia|].
    replace (i - k)%nat with (S (i - S k)) by lia. cbn [nth length]. split; [exact H3 | lia].
  - rewrite last_index_notin by exact Hr.
    destruct Hin as [E|Hin]; [|contradiction]. subst y. rewrite Z.eqb_refl.
    exists k. split; [reflexivity|]. split; [lia|]. replace (k - k)%nat with 0%nat by lia. cbn [nth length]. split; [reflexivity | lia].
Qed.

Lemma memz_in : forall x l, memz x l = true <-> In x l.
Proof.
  intros x l. unfold memz. rewrite existsb_exists. split.
  - intros [y [Hy E]]. apply Z.eqb_eq in E. subst y. exact Hy.
  - intros H. exists x. split; [exact H | apply Z.eqb_refl].
Qed.

Lemma zrange_in : forall a n x, In x (zrange a n) <-> a <= x < a + Z.of_nat n.
Proof.
  intros a n x. unfold zrange. rewrite in_map_iff. split.
  - intros [k [E Hk]]. apply in_seq in Hk. lia.
  - intros H. exists (Z.to_nat (x - a)). split; [lia|]. apply in_seq. lia.
Qed.

(* ---------------- floor and weight ---------------- *)
Section DriftProofs.
  Variable rate_us step_us plus : Z.
  Variable tab : list (Z * Q).
  Notation shifted := (shifted rate_us tab).
  Notation fl := (fl rate_us tab).
  Notation wt := (wt rate_us tab).
  Notation min_line := (min_line rate_us tab).
  Notation max_line := (max_line rate_us plus tab).
  Notation num_lines := (num_lines rate_us plus tab).
  Notation missed := (missed rate_us plus tab).
  Notation grid_row := (grid_row rate_us plus tab).
  Notation src_line := (src_line rate_us plus tab).
  Notation row_lo := (row_lo rate_us tab).
  Notation row_hi := (row_hi rate_us tab).

  (* the interpolation weight lies in [0,1) and floor + weight is the fractional line number n - err/rate *)
  Lemma fractional_line : forall l, (inject_Z (fl l) + wt l == shifted l)%Q /\ (0 <= wt l)%Q /\ (wt l < 1)%Q.
  Proof.
    intros l. unfold M_Drift.wt, M_Drift.fl.
    pose proof (Qfloor_le (shifted l)) as H1. pose proof (Qlt_floor (shifted l)) as H2.
    rewrite inject_Z_plus in H2. change (inject_Z 1) with 1%Q in H2.
    split; [ring|]. split.
    - unfold Qminus. apply (proj1 (Qle_minus_iff _ _)). exact H1.
    - apply (proj2 (Qlt_minus_iff _ _)).
      setoid_replace (1 + - (shifted l - inject_Z (Qfloor (shifted l))))%Q
        with (inject_Z (Qfloor (shifted l)) + 1 + - shifted l)%Q by ring.
      apply (proj1 (Qlt_minus_iff _ _)). exact H2.
  Qed.

  Lemma in_nums : forall ls l, In l ls -> In (fst l) (nums ls).
  Proof. intros ls l H. unfold nums. apply in_map. exact H. Qed.
  Lemma in_floors : forall ls l, In l ls -> In (fl l) (floors rate_us tab ls).
  Proof. intros ls l H. unfold floors. apply in_map. exact H. Qed.

  (* every row of the complete grid is filled: by the file's record (the last one carrying that number) or by a recomputed line *)
  Lemma grid_total : forall ls r, 0 <= r < num_lines ls ->
    exists s, grid_row ls r = Some s /\ src_line ls s = r + min_line ls.
  Proof.
    intros ls r Hr. unfold M_Drift.grid_row, M_Drift.grid_row_with.
    set (line := r + min_line ls).
    destruct (in_dec Z.eq_dec line (missed ls)) as [Hm|Hm].
    - destruct (last_index_in (missed ls) line 0 None Hm) as [j [H1 [_ [H3 _]]]].
      rewrite H1. exists (OrbitRow j). split; [reflexivity|]. cbn [M_Drift.src_line]. rewrite Nat.sub_0_r in H3. exact H3.
    - rewrite last_index_notin by exact Hm.
      assert (Hn : In line (nums ls)).
      { destruct (memz line (nums ls)) eqn:E; [apply memz_in; exact E|]. exfalso. apply Hm.
        unfold M_Drift.missed. apply filter_In. split.
        - apply zrange_in. unfold line. lia.
        - rewrite E. reflexivity. }
      destruct (last_index_in (nums ls) line 0 None Hn) as [k [H1 [_ [H3 _]]]].
      rewrite H1. exists (FileRow k). split; [reflexivity|]. cbn [M_Drift.src_line]. rewrite Nat.sub_0_r in H3. exact H3.
  Qed.

  (* both interpolation partners of every line lie inside the grid (no negative index, no index past the end) *)
  Lemma partners_in_grid : forall ls l, 1 <= plus -> In l ls ->
    0 <= row_lo ls l /\ row_hi ls l < num_lines ls.
  Proof.
    intros ls l Hp Hin. unfold M_Drift.row_lo, M_Drift.row_hi, M_Drift.num_lines, M_Drift.min_line, M_Drift.max_line.
    pose proof (lmin_le _ _ (in_floors ls l Hin)) as H1. pose proof (lmax_ge _ _ (in_floors ls l Hin)) as H2.
    lia.
  Qed.

  Theorem grid_safe : forall ls l, 1 <= plus -> In l ls ->
    0 <= row_lo ls l /\ row_hi ls l < num_lines ls /\
    exists s0 s1, grid_row ls (row_lo ls l) = Some s0 /\ grid_row ls (row_hi ls l) = Some s1 /\
                  src_line ls s0 = fl l /\ src_line ls s1 = fl l + 1.
  Proof.
    intros ls l Hp Hin. destruct (partners_in_grid ls l Hp Hin) as [H0 H1].
    split; [exact H0|]. split; [exact H1|].
    assert (Hlo : 0 <= row_lo ls l < num_lines ls) by (unfold M_Drift.row_hi, M_Drift.row_lo in *; lia).
    assert (Hhi : 0 <= row_hi ls l < num_lines ls) by (unfold M_Drift.row_hi, M_Drift.row_lo in *; lia).
    destruct (grid_total ls _ Hlo) as [s0 [G0 L0]]. destruct (grid_total ls _ Hhi) as [s1 [G1 L1]].
    exists s0, s1. split; [exact G0|]. split; [exact G1|].
    unfold M_Drift.row_lo in L0. unfold M_Drift.row_hi in L1. split; lia.
  Qed.

  (* which lines are recomputed: exactly the numbers of the grid's range that no record carries *)
  Lemma missed_spec : forall ls m, In m (missed ls) <-> (min_line ls <= m <= max_line ls /\ ~ In m (nums ls)).
  Proof.
    intros ls m. unfold M_Drift.missed. rewrite filter_In, zrange_in. unfold M_Drift.num_lines.
    destruct (memz m (nums ls)) eqn:E.
    - apply memz_in in E. split; [intros [_ H]; discriminate | intros [_ H]; contradiction].
    - assert (~ In m (nums ls)) by (intros H; apply memz_in in H; congruence).
      split; [intros [H1 _]; split; [lia | assumption] | intros [H1 _]; split; [lia | reflexivity]].
  Qed.

  (* a recomputed row never overwrites a record of the file, and every record's row holds a record with its number *)
  Lemma file_rows_kept : forall ls l, In l ls ->
    exists k, grid_row ls (fst l - min_line ls) = Some (FileRow k) /\ nth k (nums ls) 0 = fst l.
  Proof.
    intros ls l Hin. unfold M_Drift.grid_row, M_Drift.grid_row_with. replace (fst l - min_line ls + min_line ls) with (fst l) by lia.
    assert (Hm : ~ In (fst l) (missed ls)) by (intros H; apply missed_spec in H; destruct H as [_ H]; apply H; apply in_nums; exact Hin).
    rewrite last_index_notin by exact Hm.
    destruct (last_index_in (nums ls) (fst l) 0 None (in_nums ls l Hin)) as [k [H1 [_ [H3 _]]]].
    rewrite H1. exists k. rewrite Nat.sub_0_r in H3. split; [reflexivity | exact H3].
  Qed.
End DriftProofs.

(* ---------------- np.interp ---------------- *)
Lemma last_cons : forall (A : Type) (r : list A) (a d : A), last (a :: r) d = last r a.
Proof. induction r as [|b r IH]; intros a d; [reflexivity|]. change (last (a :: b :: r) d) with (last (b :: r) d). rewrite !IH. reflexivity. Qed.

Lemma interp_left : forall x0 f0 r x, x <= x0 -> interp ((x0, f0) :: r) x = f0.
Proof. intros x0 f0 r x H. cbn [interp]. destruct (Z.leb_spec x x0); [reflexivity | lia]. Qed.

Lemma interp_from_right : forall r x0 f0 x, Forall (fun p => fst p <= x) r -> interp_from x0 f0 r x = snd (last r (x0, f0)).
Proof.
  induction r as [|[x1 f1] r IH]; intros x0 f0 x H; cbn [interp_from]; [reflexivity|].
  inversion H as [|p q Hp Hq]; subst. cbn [fst] in Hp. destruct (Z.ltb_spec x x1); [lia|].
  rewrite IH by exact Hq. rewrite last_cons. reflexivity.
Qed.

Lemma sorted_le_last : forall r x0 f0, sortedb ((x0, f0) :: r) = true ->
  x0 <= fst (last r (x0, f0)) /\ Forall (fun p => fst p <= fst (last r (x0, f0))) r.
Proof.
  induction r as [|[x1 f1] r IH]; intros x0 f0 H.
  - cbn. split; [lia | constructor].
  - change (sortedb ((x0, f0) :: (x1, f1) :: r)) with ((x0 <=? x1) && sortedb ((x1, f1) :: r)) in H.
    apply andb_true_iff in H. destruct H as [H1 H2]. apply Z.leb_le in H1.
    destruct (IH x1 f1 H2) as [A B]. rewrite last_cons. split; [lia|]. constructor; [exact A | exact B].
Qed.

(* constant beyond the table's ends *)
Theorem interp_right : forall x0 f0 r x, sortedb ((x0, f0) :: r) = true -> x0 < x -> fst (last r (x0, f0)) <= x ->
  interp ((x0, f0) :: r) x = snd (last r (x0, f0)).
Proof.
  intros x0 f0 r x Hs H0 Hl. cbn [interp]. destruct (Z.leb_spec x x0); [lia|].
  apply interp_from_right. destruct (sorted_le_last r x0 f0 Hs) as [_ B].
  eapply Forall_impl; [|exact B]. intros p Hp. cbn beta in Hp. lia.
Qed.

Lemma interp_from_between : forall pre x0 f0 xa fa xb fb post x,
  Forall (fun p => fst p <= x) pre -> xa <= x < xb ->
  interp_from x0 f0 (pre ++ (xa, fa) :: (xb, fb) :: post) x = lin xa fa xb fb x.
Proof.
  induction pre as [|[x1 f1] pre IH]; intros x0 f0 xa fa xb fb post x HF Hx.
  - cbn [app interp_from]. destruct (Z.ltb_spec x xa); [lia|]. destruct (Z.ltb_spec x xb); [reflexivity | lia].
  - inversion HF as [|p q Hp Hq]; subst. cbn [fst] in Hp. cbn [app interp_from]. destruct (Z.ltb_spec x x1); [lia|].
    apply IH; assumption.
Qed.

(* linear between two neighbouring entries *)
Theorem interp_between : forall pre xa fa xb fb post x,
  Forall (fun p => fst p <= x) pre -> fst (hd (xa, fa) pre) < x -> xa <= x < xb ->
  interp (pre ++ (xa, fa) :: (xb, fb) :: post) x = lin xa fa xb fb x.
Proof.
  intros [|[x1 f1] pre] xa fa xb fb post x HF Hh Hx; cbn [hd fst] in Hh.
  - cbn [app interp]. destruct (Z.leb_spec x xa); [lia|]. cbn [interp_from]. destruct (Z.ltb_spec x xb); [reflexivity | lia].
  - cbn [app interp]. destruct (Z.leb_spec x x1); [lia|]. inversion HF; subst. apply interp_from_between; assumption.
Qed.

Lemma lin_at_left : forall x0 f0 x1 f1, (lin x0 f0 x1 f1 x0 == f0)%Q.
Proof. intros. unfold lin. rewrite Z.sub_diag. change (inject_Z 0) with 0%Q. ring. Qed.

Lemma lin_at_right : forall x0 f0 x1 f1, x0 < x1 -> (lin x0 f0 x1 f1 x1 == f1)%Q.
Proof.
  intros x0 f0 x1 f1 H. unfold lin.
  assert (D : ~ (inject_Z (x1 - x0) == 0)%Q).
  { intros E. unfold Qeq in E. cbn in E. lia. }
  field. exact D.
Qed.

Lemma lin_zero : forall x0 f0 x1 f1 x, (f0 == 0)%Q -> (f1 == 0)%Q -> (lin x0 f0 x1 f1 x == 0)%Q.
Proof. intros x0 f0 x1 f1 x H0 H1. unfold lin. rewrite H0, H1. unfold Qdiv. ring. Qed.

Lemma interp_from_zero : forall r x0 f0 x, (f0 == 0)%Q -> Forall (fun p => (snd p == 0)%Q) r -> (interp_from x0 f0 r x == 0)%Q.
Proof.
  induction r as [|[x1 f1] r IH]; intros x0 f0 x H0 HF; cbn [interp_from]; [exact H0|].
  inversion HF as [|p q Hp Hq]; subst. cbn [snd] in Hp.
  destruct (x <? x1); [apply lin_zero; assumption | apply IH; assumption].
Qed.

Theorem interp_zero : forall tab x, Forall (fun p => (snd p == 0)%Q) tab -> (interp tab x == 0)%Q.
Proof.
  intros [|[x0 f0] r] x HF; [reflexivity|]. inversion HF as [|p q Hp Hq]; subst. cbn [snd] in Hp. cbn [interp].
  destruct (x <=? x0); [exact Hp | apply interp_from_zero; assumption].
Qed.

(* ---------------- zero error: the correction is the identity ---------------- *)
Lemma Qtrunc_zero : forall q, (q == 0)%Q -> Qtrunc q = 0.
Proof.
  intros [n d] H. unfold Qeq in H. cbn in H. unfold Qtrunc. cbn [Qnum Qden].
  assert (n = 0) by lia. subst n. apply Z.quot_0_l. lia.
Qed.

Section ZeroError.
  Variable rate_us step_us plus : Z.
  Variable tab : list (Z * Q).

  Lemma zero_line : forall l, (offset tab (snd l) == 0)%Q ->
    fl rate_us tab l = fst l /\ (wt rate_us tab l == 0)%Q /\ new_time tab (snd l) = snd l.
  Proof.
    intros l H.
    assert (S : (shifted rate_us tab l == inject_Z (fst l))%Q).
    { unfold shifted. rewrite H. unfold Qdiv. ring. }
    assert (F : fl rate_us tab l = fst l).
    { unfold fl. rewrite S. apply Qfloor_Z. }
    split; [exact F|]. split.
    - unfold wt. fold (fl rate_us tab l). rewrite F, S. ring.
    - unfold new_time, shift_ms. rewrite Qtrunc_zero; [lia|]. rewrite H. ring.
  Qed.

  Lemma nums_nth : forall ls i l, nth_error ls i = Some l -> nth i (nums ls) 0 = fst l /\ (i < length (nums ls))%nat.
  Proof.
    intros ls i l H. unfold nums. split.
    - change 0 with (fst (0, 0)) at 1. rewrite (map_nth fst ls (0, 0) i). apply nth_error_nth with (d := (0, 0)) in H. rewrite H. reflexivity.
    - rewrite map_length. apply nth_error_Some. congruence.
  Qed.

  (* with distinct line numbers the row of record i holds record i *)
  Lemma own_row : forall ls i l, NoDup (nums ls) -> nth_error ls i = Some l ->
    grid_row rate_us plus tab ls (fst l - min_line rate_us tab ls) = Some (FileRow i).
  Proof.
    intros ls i l ND Hi.
    assert (Hin : In l ls) by (eapply nth_error_In; exact Hi).
    unfold grid_row, grid_row_with. replace (fst l - min_line rate_us tab ls + min_line rate_us tab ls) with (fst l) by lia.
    assert (Hm : ~ In (fst l) (missed rate_us plus tab ls)).
    { intros H. apply missed_spec in H. destruct H as [_ H]. apply H. apply in_nums. exact Hin. }
    rewrite last_index_notin by exact Hm.
    destruct (last_index_in (nums ls) (fst l) 0 None (in_nums ls l Hin)) as [k [H1 [_ [H3 H4]]]].
    rewrite H1. rewrite Nat.sub_0_r in H3, H4. destruct (nums_nth ls i l Hi) as [N1 N2].
    assert (k = i).
    { apply (proj1 (NoDup_nth (nums ls) 0) ND); [exact H4 | exact N2 | congruence]. }
    subst k. reflexivity.
  Qed.

  Section Positions.
    Variable Pos : Type.
    Variable file_pos : nat -> Pos.
    Variable orbit : Z -> Pos.
    Variable slerp : Pos -> Pos -> Q -> Pos.
    Variable nan_row : Pos.
    Hypothesis slerp_at_0 : forall p q t, (t == 0)%Q -> slerp p q t = p.

    Theorem zero_error_identity : forall ls i l, NoDup (nums ls) -> nth_error ls i = Some l ->
      (offset tab (snd l) == 0)%Q ->
      new_time tab (snd l) = snd l /\
      adjusted rate_us step_us plus tab Pos file_pos orbit slerp nan_row ls l = file_pos i.
    Proof.
      intros ls i l ND Hi H0. destruct (zero_line l H0) as [F [W T]]. split; [exact T|].
      unfold adjusted. rewrite slerp_at_0 by exact W. unfold row_lo. rewrite F.
      rewrite (own_row ls i l ND Hi). reflexivity.
    Qed.
  End Positions.
End ZeroError.

(* ---------------- the interpolated error never leaves the range of the table's values ---------------- *)
Lemma lin_between : forall x0 f0 x1 f1 x (lo hi : Q), x0 <= x -> x <= x1 -> x0 < x1 ->
  (lo <= f0)%Q -> (f0 <= hi)%Q -> (lo <= f1)%Q -> (f1 <= hi)%Q ->
  (lo <= lin x0 f0 x1 f1 x)%Q /\ (lin x0 f0 x1 f1 x <= hi)%Q.
Proof.
  intros x0 f0 x1 f1 x lo hi H0 H1 H01 L0 U0 L1 U1.
  set (t := (inject_Z (x - x0) / inject_Z (x1 - x0))%Q).
  assert (D : (0 < inject_Z (x1 - x0))%Q) by (change 0%Q with (inject_Z 0); rewrite <- Zlt_Qlt; lia).
  assert (T0 : (0 <= t)%Q).
  { unfold t. apply Qle_shift_div_l; [exact D|]. rewrite Qmult_0_l. change 0%Q with (inject_Z 0). rewrite <- Zle_Qle. lia. }
  assert (T1 : (t <= 1)%Q).
  { unfold t. apply Qle_shift_div_r; [exact D|]. rewrite Qmult_1_l. rewrite <- Zle_Qle. lia. }
  assert (E : (lin x0 f0 x1 f1 x == (1 - t) * f0 + t * f1)%Q).
  { unfold lin, t. field. intros Z0. rewrite Z0 in D. apply (Qlt_irrefl 0). exact D. }
  rewrite E.
  assert (A : (0 <= 1 - t)%Q) by (unfold Qminus; rewrite <- Qle_minus_iff; exact T1).
  assert (M : forall c a b : Q, (0 <= c)%Q -> (a <= b)%Q -> (c * a <= c * b)%Q).
  { intros c a b Hc Hab. rewrite (Qmult_comm c a), (Qmult_comm c b). apply Qmult_le_compat_r; assumption. }
  split.
  - setoid_replace lo with ((1 - t) * lo + t * lo)%Q by ring.
    apply Qplus_le_compat; apply M; assumption.
  - setoid_replace hi with ((1 - t) * hi + t * hi)%Q by ring.
    apply Qplus_le_compat; apply M; assumption.
Qed.

Lemma interp_from_bounded : forall r x0 f0 x (lo hi : Q), x0 <= x -> (lo <= f0)%Q -> (f0 <= hi)%Q ->
  Forall (fun p => (lo <= snd p)%Q /\ (snd p <= hi)%Q) r ->
  (lo <= interp_from x0 f0 r x)%Q /\ (interp_from x0 f0 r x <= hi)%Q.
Proof.
  induction r as [|[x1 f1] r IH]; intros x0 f0 x lo hi H0 L0 U0 HF; cbn [interp_from]; [split; assumption|].
  inversion HF as [|p q [Lp Up] Hq]; subst. cbn [snd] in Lp, Up.
  destruct (Z.ltb_spec x x1) as [Hlt|Hge].
  - apply lin_between; try assumption; lia.
  - apply IH; assumption.
Qed.

(* for ANY table (chronological or not): the interpolated clock error lies between the smallest and the largest tabulated error *)
Theorem interp_bounded : forall tab x (lo hi : Q), tab <> nil ->
  Forall (fun p => (lo <= snd p)%Q /\ (snd p <= hi)%Q) tab ->
  (lo <= interp tab x)%Q /\ (interp tab x <= hi)%Q.
Proof.
  intros [|[x0 f0] r] x lo hi Hne HF; [congruence|].
  inversion HF as [|p q [Lp Up] Hq]; subst. cbn [snd] in Lp, Up. cbn [interp].
  destruct (Z.leb_spec x x0); [split; assumption|].
  apply interp_from_bounded; try assumption. lia.
Qed.

(* when no line of the interpolation range is absent the orbit is never consulted: every grid row is a record of the file *)
Lemma nothing_missing rate_us plus tab ls r s :
  missed rate_us plus tab ls = [] -> grid_row rate_us plus tab ls r = Some s -> exists k, s = FileRow k.
Proof.
  intros Hm H. unfold grid_row, grid_row_with in H. rewrite Hm in H. cbn [last_index] in H.
  destruct (last_index (r + min_line rate_us tab ls) (nums ls) 0 None) as [k|]; [|discriminate].
  injection H as <-. exists k. reflexivity.
Qed.
