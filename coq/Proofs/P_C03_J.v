(* C03 -- consistent passes whose recorded milliseconds are ROUNDED nominal times (LAC: period 1000/6 ms) are
   preserved: stage 2 leaves a pass alone when every line is within a band J of an exactly periodic time. *)
From Coq Require Import ZArith List Bool Arith Lia.
From PV Require Import Median Calendar M_Times P_C03.
Import ListNotations.
Open Scope Z_scope.

Lemma medianU_between l lo hi : l <> [] -> Forall (fun x => lo <= x <= hi) l -> lo <= medianU l <= hi.
Proof.
  intros Hne HF. unfold medianU.
  assert (Hlen : (0 < length l)%nat) by (destruct l; [congruence | cbn; lia]).
  assert (G : 2 * lo <= median2 l).
  { apply median2_ge. rewrite count_lt_none; [lia|]. intros x Hx. rewrite Forall_forall in HF. specialize (HF x Hx). lia. }
  assert (L : median2 l < 2 * (hi + 1)).
  { apply median2_lt. rewrite count_lt_all; [lia|]. intros x Hx. rewrite Forall_forall in HF. specialize (HF x Hx). lia. }
  split.
  - apply Z.div_le_lower_bound; lia.
  - apply Z.lt_succ_r. apply Z.div_lt_upper_bound; lia.
Qed.

Lemma map2_keep_left (times tn : list Z) (f : Z -> Z -> Z) :
  length times = length tn -> (forall i, (i < length times)%nat -> f (nth i times 0) (nth i tn 0) = nth i times 0) ->
  map2 f times tn = times.
Proof.
  intros Hl H. apply (nth_ext _ _ 0 0); [apply map2_length; exact Hl|].
  intros i Hi. rewrite map2_length in Hi by exact Hl.
  rewrite (map2_nth f times tn 0 0 0) by lia. apply H. exact Hi.
Qed.

Theorem stage2_band tp th nums times h c J :
  monotone nums = true -> length times = length nums -> nums <> [] ->
  0 <= J -> 2 * J <= U * max_diff_ideal th -> Z.abs (c - U * h) + J <= U * max_diff_t0 th ->
  0 < min_frac_den th -> min_frac_num th <= min_frac_den th ->
  (forall i, (i < length nums)%nat -> Z.abs (U * nth i times 0 - ((nth i nums 0 - 1) * period_u tp + c)) <= J) ->
  stage2 tp th nums times (Some h) = S2_ok times.
Proof.
  intros Hmono Hlen Hne HJ HJ2 Hhead Hden Hfrac Hband. unfold stage2. rewrite Hmono. cbn [negb].
  fold (tn_of tp nums). fold (offs_of tp nums times).
  assert (Ltn : length (tn_of tp nums) = length nums) by (unfold tn_of; apply map_length).
  assert (Lo : length (offs_of tp nums times) = length nums).
  { unfold offs_of. rewrite map2_length; lia. }
  assert (Htn : forall i, (i < length nums)%nat -> nth i (tn_of tp nums) 0 = (nth i nums 0 - 1) * period_u tp).
  { intros i Hi. unfold tn_of. rewrite (nth_indep _ 0 ((fun n => (n - 1) * period_u tp) 0)) by (rewrite map_length; lia).
    apply (map_nth (fun n => (n - 1) * period_u tp)). }
  assert (Hoffs : Forall (fun o => c - J <= o <= c + J) (offs_of tp nums times)).
  { apply Forall_forall. intros o Hin. apply (In_nth _ _ 0) in Hin. destruct Hin as [i [Hi Ho]]. rewrite Lo in Hi.
    unfold offs_of in Ho. rewrite (map2_nth _ times (tn_of tp nums) 0 0 0) in Ho by lia.
    rewrite (Htn i Hi) in Ho. specialize (Hband i Hi). lia. }
  assert (Hnear : filter (fun o => Z.abs (o - U * h) <=? U * max_diff_t0 th) (offs_of tp nums times) = offs_of tp nums times).
  { apply filter_all. eapply Forall_impl; [|exact Hoffs]. intros o Ho. cbn beta in Ho. apply Z.leb_le. lia. }
  rewrite Hnear, Lo.
  assert (Hn0 : (0 < length nums)%nat) by (destruct nums; [congruence | cbn; lia]).
  destruct (Z.ltb_spec (Z.of_nat (length nums) * min_frac_den th) (min_frac_num th * Z.of_nat (length nums))) as [Hlt|Hge]; [nia|].
  assert (Hne' : offs_of tp nums times <> []) by (intros E; rewrite E in Lo; cbn in Lo; lia).
  pose proof (medianU_between _ _ _ Hne' Hoffs) as Hmed.
  f_equal. apply map2_keep_left; [lia|].
  intros i Hi. rewrite Hlen in Hi. rewrite (Htn i Hi). specialize (Hband i Hi).
  destruct (Z.ltb_spec (U * max_diff_ideal th) (Z.abs (U * nth i times 0 - ((nth i nums 0 - 1) * period_u tp + medianU (offs_of tp nums times)))));
    [lia | reflexivity].
Qed.

(* the composition for rounded recorded times *)
Theorem clean_identity_band tp th nums years jdays msecs h c J :
  quiet tp nums years jdays msecs -> monotone nums = true -> nums <> [] ->
  0 <= J -> 2 * J <= U * max_diff_ideal th -> Z.abs (c - U * h) + J <= U * max_diff_t0 th ->
  0 < min_frac_den th -> min_frac_num th <= min_frac_den th ->
  let rec := recorded years jdays msecs in
  (forall i, (i < length nums)%nat -> Z.abs (U * nth i rec 0 - ((nth i nums 0 - 1) * period_u tp + c)) <= J) ->
  get_times tp th nums years jdays msecs (Some h) = rec.
Proof.
  intros Hq Hmono Hne HJ HJ2 Hhead Hden Hfrac rec Hband. unfold get_times.
  rewrite (stage1_times_quiet _ _ _ _ _ Hq). fold rec.
  assert (Lrec : length rec = length nums).
  { unfold rec, recorded. rewrite map_length, !combine_length. destruct Hq as [H1 [H2 [H3 _]]]. lia. }
  rewrite (stage2_band tp th nums rec h c J Hmono Lrec Hne HJ HJ2 Hhead Hden Hfrac Hband). reflexivity.
Qed.

(* non-vacuity: a 7-line LAC pass (period 1000/6 ms = 4000 u) from 2001-02-04 10:00:00.123 whose recorded milliseconds are
   the nominal times rounded to whole milliseconds *)
Definition lac_tp := mkTP 4000 2026.
Definition lac_nums := [3; 4; 5; 6; 7; 8; 9]%Z.
Definition lac_years := [2001; 2001; 2001; 2001; 2001; 2001; 2001]%Z.
Definition lac_jdays := [35; 35; 35; 35; 35; 35; 35]%Z.
Definition lac_msecs := [36000123; 36000290; 36000456; 36000623; 36000790; 36000956; 36001123]%Z.

Lemma lac_quiet : quiet lac_tp lac_nums lac_years lac_jdays lac_msecs.
Proof.
  unfold quiet. repeat split; try reflexivity.
  - repeat constructor; lia.
  - repeat constructor; lia.
  - repeat constructor; simpl; lia.
  - intros k Hk. simpl in Hk. do 6 (destruct k as [|k]; [simpl; lia|]). lia.
  - intros k Hk. simpl in Hk. do 6 (destruct k as [|k]; [vm_compute; intros; try discriminate; reflexivity|]). lia.
Qed.

Lemma lac_band : forall i, (i < length lac_nums)%nat ->
  Z.abs (U * nth i (recorded lac_years lac_jdays lac_msecs) 0 - ((nth i lac_nums 0 - 1) * period_u lac_tp + (U * 981280800123 - 2 * 4000))) <= 12.
Proof. intros i Hi. cbn in Hi. do 7 (destruct i as [|i]; [vm_compute; intros H; discriminate H|]). lia. Qed.
