From Coq Require Import ZArith QArith List Bool Arith Lia ZifyNat ZifyBool.
From PV Require Import Bits ListSlice M_Counts.
Import ListNotations.
Open Scope nat_scope.
Ltac Zify.zify_post_hook ::= Z.to_euclidean_division_equations.

Lemma nth_firstn_lt {A} (l : list A) d : forall n i, i < n -> nth i (firstn n l) d = nth i l d.
Proof.
  induction l as [|x l IH]; intros n i H.
  - rewrite firstn_nil. reflexivity.
  - destruct n; [lia|]. destruct i; simpl; auto. apply IH. lia.
Qed.

Lemma sample0 j : sample_of_word 0 j = 0%Z.
Proof. unfold sample_of_word. rewrite Z.shiftr_0_l. reflexivity. Qed.

Lemma nth_samples words j i : nth i (map (fun w => sample_of_word w j) words) 0%Z = sample_of_word (nth i words 0%Z) j.
Proof. rewrite <- (sample0 j) at 1. apply (map_nth (fun w => sample_of_word w j)). Qed.

Lemma mod3_cases k : k mod 3 = 0 \/ k mod 3 = 1 \/ k mod 3 = 2.
Proof. pose proof (Nat.mod_upper_bound k 3). lia. Qed.

Lemma slot_no k b : b < 3 -> k mod 3 <> b -> (b <=? k) && ((k - b) mod 3 =? 0) = false.
Proof.
  intros Hb Hne. destruct (Nat.leb_spec b k) as [E|E]; [|reflexivity]. rewrite andb_true_l.
  apply Nat.eqb_neq. destruct (mod3_cases k) as [H|[H|H]];
    (assert (b = 0 \/ b = 1 \/ b = 2) as [Hb'|[Hb'|Hb']] by lia); subst b; lia.
Qed.

Lemma slot_yes k b : k mod 3 = b -> (b <=? k) = true /\ (k - b) mod 3 = 0 /\ (k - b) / 3 = k / 3.
Proof.
  intros H. assert (b <= k) by lia. repeat split; [apply Nat.leb_le; assumption| |]; lia.
Qed.

Lemma ceil3 N : (N + 2) / 3 = N / 3 + (if N mod 3 =? 0 then 0 else 1).
Proof. destruct (Nat.eqb_spec (N mod 3) 0); lia. Qed.

Lemma slot_bound N k : k < N ->
  k / 3 < (if k mod 3 =? 0 then (if N mod 3 =? 0 then N / 3 else N / 3 + 1)
           else if k mod 3 =? 1 then (if N mod 3 =? 2 then N / 3 + 1 else N / 3) else N / 3).
Proof.
  intros H.
  destruct (Nat.eqb_spec (k mod 3) 0); destruct (Nat.eqb_spec (k mod 3) 1);
  destruct (Nat.eqb_spec (N mod 3) 0); destruct (Nat.eqb_spec (N mod 3) 2); lia.
Qed.

(* the central fact: after the three strided assignments, position k holds stream sample k *)
Lemma unpack_n_spec N words k : k < N -> (N + 2) / 3 <= length words ->
  nth k (unpack_n N words) 0%Z = stream_sample words k.
Proof.
  intros Hk Hlen. unfold unpack_n, stream_sample. cbv zeta.
  rewrite ceil3 in Hlen. pose proof (slot_bound N k Hk) as Hb.
  rewrite nth_assign_strided by (rewrite !assign_strided_length, repeat_length; exact Hk).
  rewrite nth_assign_strided by (rewrite !assign_strided_length, repeat_length; exact Hk).
  rewrite nth_assign_strided by (rewrite repeat_length; exact Hk).
  rewrite !firstn_length, !map_length.
  destruct (mod3_cases k) as [H0|[H1|H2]].
  - rewrite (slot_no k 2), (slot_no k 1) by lia. rewrite ?andb_false_l.
    destruct (slot_yes k 0 H0) as [E1 [E2 E3]]. rewrite ?Nat.sub_0_r in *. rewrite ?E1, E2. change (0 =? 0) with true. rewrite ?andb_true_l.
    rewrite H0 in Hb. cbn [Nat.eqb] in Hb.
    assert (Hq : k / 3 <? Nat.min (if N mod 3 =? 0 then N / 3 else N / 3 + 1) (length words) = true).
    { apply Nat.ltb_lt. destruct (Nat.eqb_spec (N mod 3) 0); lia. }
    rewrite Hq. rewrite nth_firstn_lt by (destruct (N mod 3 =? 0); lia).
    rewrite ?H0. apply nth_samples.
  - rewrite (slot_no k 2) by lia. rewrite ?andb_false_l.
    destruct (slot_yes k 1 H1) as [E1 [E2 E3]]. rewrite E1, E2, E3. change (0 =? 0) with true. rewrite ?andb_true_l.
    rewrite H1 in Hb. cbn [Nat.eqb] in Hb.
    assert (Hq : k / 3 <? Nat.min (if N mod 3 =? 2 then N / 3 + 1 else N / 3) (length words) = true).
    { apply Nat.ltb_lt. destruct (Nat.eqb_spec (N mod 3) 2); destruct (Nat.eqb_spec (N mod 3) 0); lia. }
    rewrite Hq. rewrite nth_firstn_lt by (destruct (N mod 3 =? 2); lia).
    rewrite H1. apply nth_samples.
  - destruct (slot_yes k 2 H2) as [E1 [E2 E3]]. rewrite E1, E2, E3. change (0 =? 0) with true. rewrite ?andb_true_l.
    rewrite H2 in Hb. cbn [Nat.eqb] in Hb.
    assert (Hq : k / 3 <? Nat.min (N / 3) (length words) = true).
    { apply Nat.ltb_lt. destruct (Nat.eqb_spec (N mod 3) 0); lia. }
    rewrite Hq. rewrite nth_firstn_lt by lia.
    rewrite H2. apply nth_samples.
Qed.

Lemma counts_spec W words p c : p < W -> c < 5 -> (5 * W + 2) / 3 <= length words ->
  count_at W words p c = stream_sample words (5 * p + c).
Proof. intros Hp Hc Hl. unfold count_at, unpack_line. apply unpack_n_spec; [lia|assumption]. Qed.

Lemma stream_sample_top_bits words words' k :
  (forall i, Z.modulo (nth i words 0%Z) (2 ^ 30) = Z.modulo (nth i words' 0%Z) (2 ^ 30)) ->
  stream_sample words k = stream_sample words' k.
Proof.
  intros H. unfold stream_sample.
  assert (Hm : (0 <= Z.of_nat (k mod 3) <= 2)%Z) by (pose proof (Nat.mod_upper_bound k 3); lia).
  rewrite (sample_top_bits_ignored (nth (k / 3) words 0%Z)) by assumption.
  rewrite (sample_top_bits_ignored (nth (k / 3) words' 0%Z)) by assumption.
  rewrite H. reflexivity.
Qed.

Lemma stream_sample_local words words' k : nth (k / 3) words 0%Z = nth (k / 3) words' 0%Z ->
  stream_sample words k = stream_sample words' k.
Proof. intros H. unfold stream_sample. rewrite H. reflexivity. Qed.

Lemma stream_sample_bits words k : (k mod 3 = 0 -> stream_sample words k = Z.modulo (Z.div (nth (k / 3) words 0%Z) (2 ^ 20)) 1024)
  /\ (k mod 3 = 1 -> stream_sample words k = Z.modulo (Z.div (nth (k / 3) words 0%Z) (2 ^ 10)) 1024)
  /\ (k mod 3 = 2 -> stream_sample words k = Z.modulo (nth (k / 3) words 0%Z) 1024).
Proof.
  unfold stream_sample. repeat split; intros ->; rewrite sample_of_word_spec by (simpl; lia); simpl.
  - reflexivity.
  - reflexivity.
  - rewrite Z.div_1_r. reflexivity.
Qed.

(* routing *)
Lemma route_spec sw a b c d e :
  route sw [a; b; c; d; e] =
  [a; b; (if (sw =? 1)%Z then c else 0%Z); (if (sw =? 0)%Z then c else 0%Z); d; e].
Proof. reflexivity. Qed.

Lemma ch3_switch_range bf : (0 <= ch3_switch bf <= 3)%Z.
Proof.
  unfold ch3_switch.
  assert (H : Z.land bf 3 = (bf mod 4)%Z).
  { change 3%Z with (Z.ones 2). rewrite Z.land_ones by lia. reflexivity. }
  rewrite H. pose proof (Z.mod_pos_bound bf 4 ltac:(lia)). lia.
Qed.

(* telemetry word sets: the literal slices of the code select the format's frame words (0-based index = word - 1) *)
Lemma pod_prt_words : pod_prt_idx = [17; 18; 19].
Proof. reflexivity. Qed.
Lemma pod_ict_words j : j < 3 -> pod_ict_idx j = map (fun i => 22 + j + 3 * i) (seq 0 10).
Proof. intros H. assert (j = 0 \/ j = 1 \/ j = 2) as [->|[->| ->]] by lia; reflexivity. Qed.
Lemma pod_space_words j : j < 3 -> pod_space_idx j = map (fun i => 52 + (2 + j) + 5 * i) (seq 0 10).
Proof. intros H. assert (j = 0 \/ j = 1 \/ j = 2) as [->|[->| ->]] by lia; reflexivity. Qed.
Lemma klm_ict_words j : j < 3 -> klm_ict_idx j = map (fun i => j + 3 * i) (seq 0 10).
Proof. intros H. assert (j = 0 \/ j = 1 \/ j = 2) as [->|[->| ->]] by lia; reflexivity. Qed.
Lemma klm_space_words j : j < 3 -> klm_space_idx j = map (fun i => (2 + j) + 5 * i) (seq 0 10).
Proof. intros H. assert (j = 0 \/ j = 1 \/ j = 2) as [->|[->| ->]] by lia; reflexivity. Qed.

Lemma pod_tele_sample words k : k < 105 -> 35 <= length words ->
  nth k (pod_decode_tele words) 0%Z = stream_sample words k.
Proof. intros. unfold pod_decode_tele. apply unpack_n_spec; [assumption|]. simpl. assumption. Qed.
