(* C15 -- the executable rational mirror of the folding functions computes the real-valued model *)
From Coq Require Import Reals ZArith QArith Qabs Qround Qreals Lra Lia.
From Flocq Require Import Core.
From PV Require Import M_Angles.
Open Scope R_scope.

Lemma Q2R_inject_Z : forall n : Z, Q2R (inject_Z n) = IZR n.
Proof. intros n. unfold Q2R, inject_Z. cbn. lra. Qed.

Lemma Zfloor_Q2R : forall q : Q, Zfloor (Q2R q) = Qfloor q.
Proof.
  intros q. apply Zfloor_imp. split.
  - rewrite <- Q2R_inject_Z. apply Qle_Rle. apply Qfloor_le.
  - rewrite <- Q2R_inject_Z. apply Qlt_Rlt. apply Qlt_floor.
Qed.

Lemma Q2R_360 : Q2R 360 = 360.
Proof. change 360%Q with (inject_Z 360). rewrite Q2R_inject_Z. reflexivity. Qed.
Lemma Q2R_180 : Q2R 180 = 180.
Proof. change 180%Q with (inject_Z 180). rewrite Q2R_inject_Z. reflexivity. Qed.

Lemma qmod_360 : forall x : Q, Q2R (qmod x 360) = rmod (Q2R x) 360.
Proof.
  intros x. unfold qmod, rmod. rewrite Q2R_minus, Q2R_mult, Q2R_inject_Z, Q2R_360.
  rewrite <- Zfloor_Q2R. rewrite Q2R_div by (intros H; discriminate H). rewrite Q2R_360. reflexivity.
Qed.

Theorem cmodQ_correct : forall x : Q, Q2R (cmodQ x) = cmod (Q2R x).
Proof.
  intros x. unfold cmodQ, cmod. rewrite <- qmod_360.
  destruct (Qlt_le_dec 180 (qmod x 360)) as [H|H]; destruct (Rlt_dec 180 (Q2R (qmod x 360))) as [K|K].
  - rewrite Q2R_minus, Q2R_360. reflexivity.
  - exfalso. apply K. rewrite <- Q2R_180. apply Qlt_Rlt. exact H.
  - exfalso. apply Qle_Rle in H. rewrite Q2R_180 in H. lra.
  - reflexivity.
Qed.

Lemma Q2R_abs : forall q : Q, Q2R (Qabs q) = Rabs (Q2R q).
Proof.
  intros q. destruct (Qlt_le_dec q 0) as [H|H].
  - rewrite Qabs_neg by (apply Qlt_le_weak; exact H). rewrite Q2R_opp.
    apply Qlt_Rlt in H. rewrite RMicromega.Q2R_0 in H. rewrite Rabs_left by exact H. reflexivity.
  - rewrite Qabs_pos by exact H. apply Qle_Rle in H. rewrite RMicromega.Q2R_0 in H. rewrite Rabs_pos_eq by exact H. reflexivity.
Qed.

Theorem relazQ_correct : forall a b : Q, Q2R (relazQ a b) = relaz (Q2R a) (Q2R b).
Proof.
  intros a b. unfold relazQ, relaz. rewrite <- Q2R_minus, <- Q2R_abs, <- qmod_360.
  destruct (Qlt_le_dec 180 (qmod (Qabs (a - b)) 360)) as [H|H]; destruct (Rlt_dec 180 (Q2R (qmod (Qabs (a - b)) 360))) as [K|K].
  - rewrite Q2R_minus, Q2R_360. reflexivity.
  - exfalso. apply K. rewrite <- Q2R_180. apply Qlt_Rlt. exact H.
  - exfalso. apply Qle_Rle in H. rewrite Q2R_180 in H. lra.
  - reflexivity.
Qed.
