From Coq Require Import ZArith List Bool Arith Lia Sorting.Sorted.
From PV Require Import Calendar M_Meta.
Import ListNotations.
Open Scope Z_scope.

(* ---------- midnight scan line ---------- *)
Lemma day_steps_In : forall days k i, In i (day_steps k days) <->
  exists j, i = (k + j)%nat /\ (S j < length days)%nat /\ nth (S j) days 0 - nth j days 0 = 1.
Proof.
  induction days as [|a r IH]; intros k i.
  - simpl. split; [tauto|]. intros [j [_ [H _]]]. simpl in H. lia.
  - destruct r as [|b r'].
    + simpl. split; [tauto|]. intros [j [_ [H _]]]. simpl in H. lia.
    + cbn [day_steps]. specialize (IH (S k) i).
      destruct (Z.eqb_spec (b - a) 1) as [E|E].
      * cbn [In]. rewrite IH. split.
        -- intros [H|[j [H1 [H2 H3]]]].
           ++ exists 0%nat. subst. cbn [nth length]. repeat split; try lia.
           ++ exists (S j). cbn [length nth] in *. repeat split; try lia; try exact H3.
        -- intros [j [H1 [H2 H3]]]. destruct j as [|j].
           ++ left. lia.
           ++ right. exists j. cbn [length nth] in *. repeat split; try lia; try exact H3.
      * rewrite IH. split.
        -- intros [j [H1 [H2 H3]]]. exists (S j). cbn [length nth] in *. repeat split; try lia; try exact H3.
        -- intros [j [H1 [H2 H3]]]. destruct j as [|j].
           ++ cbn [nth] in H3. lia.
           ++ exists j. cbn [length nth] in *. repeat split; try lia; try exact H3.
Qed.

Lemma nth_map_day times j : (j < length times)%nat -> nth j (map day_of times) 0 = day_of (nth j times 0).
Proof.
  intros H. rewrite (nth_indep _ 0 (day_of 0)) by (rewrite map_length; lia). apply (map_nth day_of).
Qed.

(* Some i  <->  i is the one and only index at which the UTC date increases by one day *)
Theorem midnight_spec times i : midnight_scanline times = Some i <->
  ((S i < length times)%nat /\ day_of (nth (S i) times 0) - day_of (nth i times 0) = 1 /\
   forall j, (S j < length times)%nat -> day_of (nth (S j) times 0) - day_of (nth j times 0) = 1 -> j = i).
Proof.
  unfold midnight_scanline.
  assert (Hin : forall x, In x (day_steps 0 (map day_of times)) <->
                 ((S x < length times)%nat /\ day_of (nth (S x) times 0) - day_of (nth x times 0) = 1)).
  { intros x. rewrite day_steps_In. rewrite map_length. split.
    - intros [j [-> [H1 H2]]]. simpl. rewrite !nth_map_day in H2 by lia. auto.
    - intros [H1 H2]. exists x. rewrite !nth_map_day by lia. auto. }
  destruct (day_steps 0 (map day_of times)) as [|x [|y r]] eqn:E.
  - split; [discriminate|]. intros [H1 [H2 _]]. exfalso. apply (proj2 (Hin i)); auto.
  - split.
    + intros H. injection H as <-. destruct (proj1 (Hin x) (or_introl eq_refl)) as [H1 H2].
      repeat split; auto. intros j Hj1 Hj2. destruct (proj2 (Hin j) (conj Hj1 Hj2)) as [->|[]]. reflexivity.
    + intros [H1 [H2 H3]]. destruct (proj2 (Hin i) (conj H1 H2)) as [->|[]]. reflexivity.
  - split; [discriminate|]. intros [H1 [H2 H3]]. exfalso.
    (* two different steps x <> y would both have to equal i *)
    assert (Hx := proj1 (Hin x) (or_introl eq_refl)). assert (Hy := proj1 (Hin y) (or_intror (or_introl eq_refl))).
    assert (x = i) by (apply H3; tauto). assert (y = i) by (apply H3; tauto). subst.
    (* day_steps lists strictly increasing indices: contradiction *)
    assert (Hinc : forall days k, StronglySorted lt (day_steps k days) /\ Forall (fun v => (k <= v)%nat) (day_steps k days)).
    { clear. induction days as [|a r IH]; intros k; [simpl; split; constructor|].
      destruct r as [|b r']; [simpl; split; constructor|]. cbn [day_steps].
      destruct (IH (S k)) as [S1 S2]. destruct (b - a =? 1).
      - split.
        + constructor; [assumption|]. eapply Forall_impl; [|exact S2]. intros v Hv. cbv beta in *. lia.
        + constructor; [lia|]. eapply Forall_impl; [|exact S2]. intros v Hv. cbv beta in *. lia.
      - split; [assumption|]. eapply Forall_impl; [|exact S2]. intros v Hv. cbv beta in *. lia. }
    destruct (Hinc (map day_of times) 0%nat) as [Hs _]. rewrite E in Hs.
    inversion Hs as [|? ? _ Hf]; subst. inversion Hf; subst. lia.
Qed.

(* ---------- missing scan lines ---------- *)
Lemma zrange_In start n x : In x (zrange_from start n) <-> start <= x < start + Z.of_nat n.
Proof.
  revert start. induction n as [|n IH]; intros start; cbn [zrange_from In]; [lia|].
  rewrite IH. lia.
Qed.

Lemma mem_In x l : mem x l = true <-> In x l.
Proof.
  unfold mem. rewrite existsb_exists. split.
  - intros [y [H1 H2]]. apply Z.eqb_eq in H2. subst. assumption.
  - intros H. exists x. split; [assumption|apply Z.eqb_refl].
Qed.

Theorem miss_lines_spec nums x : In x (miss_lines nums) <-> (1 <= x <= last nums 0 /\ ~ In x nums).
Proof.
  unfold miss_lines. rewrite filter_In, zrange_In, negb_true_iff. rewrite <- mem_In.
  destruct (Z_le_gt_dec 0 (last nums 0)) as [Hl|Hl].
  - rewrite Z2Nat.id by lia. destruct (mem x nums); split; intros [H1 H2]; split; try lia; try congruence.
  - replace (Z.to_nat (last nums 0)) with 0%nat by lia. split; intros [H1 H2]; lia.
Qed.

Lemma zrange_sorted start n : StronglySorted Z.lt (zrange_from start n).
Proof.
  revert start. induction n as [|n IH]; intros start; cbn [zrange_from]; constructor; [apply IH|].
  apply Forall_forall. intros x Hx. apply zrange_In in Hx. lia.
Qed.

Lemma filter_sorted (f : Z -> bool) l : StronglySorted Z.lt l -> StronglySorted Z.lt (filter f l).
Proof.
  induction 1 as [|a l Hs IH Ha]; simpl; [constructor|]. destruct (f a); [|assumption].
  constructor; [assumption|]. apply Forall_forall. intros x Hx. apply filter_In in Hx.
  rewrite Forall_forall in Ha. apply Ha. tauto.
Qed.

Theorem miss_lines_sorted nums : StronglySorted Z.lt (miss_lines nums).
Proof. unfold miss_lines. apply filter_sorted. apply zrange_sorted. Qed.

(* ---------- day of year of an instant (finite domain: 1970-01-01 .. 2100-12-31, every day checked) ---------- *)
Definition year_ok (d : Z) : bool :=
  let y := year_of_day d in (days_before_year y <=? d) && (d <? days_before_year (y + 1)).

Lemma year_of_day_ok_all : forallb year_ok (zrange_from 0 (Z.to_nat 47847)) = true.
Proof. vm_cast_no_check (eq_refl true). Qed.

Theorem day_of_year_spec t : 0 <= t < 47847 * 86400000 ->
  let y := year_of_day (day_of t) in
  days_before_year y <= day_of t < days_before_year (y + 1) /\
  day_of_year t = day_of t - days_before_year y + 1 /\ 1 <= day_of_year t <= 366.
Proof.
  intros Ht. cbv zeta. unfold day_of_year.
  assert (Hd : 0 <= day_of t < 47847).
  { unfold day_of. split; [apply Z.div_pos; lia|apply Z.div_lt_upper_bound; lia]. }
  pose proof year_of_day_ok_all as Hall. rewrite forallb_forall in Hall.
  specialize (Hall (day_of t)). unfold year_ok in Hall.
  assert (Hin : In (day_of t) (zrange_from 0 (Z.to_nat 47847))) by (apply zrange_In; lia).
  apply Hall in Hin. apply andb_prop in Hin. destruct Hin as [H1 H2].
  apply Z.leb_le in H1. apply Z.ltb_lt in H2.
  split; [lia|]. split; [reflexivity|].
  rewrite days_before_year_succ in H2. unfold days_in_year in H2. destruct (is_leap _); lia.
Qed.
