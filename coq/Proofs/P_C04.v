From Coq Require Import ZArith QArith Qround Qabs List Bool Lqa Lia.
From PV Require Import Gen_Coeffs M_Solar.
Import ListNotations.
Open Scope Q_scope.

(* ---------- the PATMOS-x formula as a specification ---------- *)
(* R(c) = S_low (c - D) for c <= B, S_low (B - D) + S_high (c - B) otherwise; single gain: S (c - D) *)
Definition spec_radiance (sl sh d : Q) (b : option Q) (c : Q) : Q :=
  match b with
  | None => sl * (c - d)
  | Some b => if Qle_bool c b then (c - d) * sl else (b - d) * sl + (c - b) * sh
  end.
Definition mask_neg (x : Q) : option Q := if Qlt_le_dec x 0 then None else Some x.
Definition apply_corr (corr x : Q) : Q := if Qeq_bool corr 1 then x else x * corr.

Lemma solar_formula_dual rows ch t corr c row b :
  nth_error rows ch = Some row -> single_gain rows = false -> v_switch row = Some b ->
  solar rows ch t corr c =
  mask_neg (apply_corr corr (spec_radiance (slope (round_dec 3 (glow ch * v_s0 row)) (v_s1 row) (v_s2 row) t)
                                           (slope (round_dec 3 (ghigh ch * v_s0 row)) (v_s1 row) (v_s2 row) t)
                                           (v_dark row) (Some b) c)).
Proof. intros H1 H2 H3. unfold solar. rewrite H1, H2, H3. reflexivity. Qed.

Lemma solar_formula_single rows ch t corr c row :
  nth_error rows ch = Some row -> single_gain rows = true ->
  solar rows ch t corr c =
  mask_neg (apply_corr corr (spec_radiance (slope (round_dec 3 (1 * v_s0 row)) (v_s1 row) (v_s2 row) t)
                                           (slope (round_dec 3 (1 * v_s0 row)) (v_s1 row) (v_s2 row) t)
                                           (v_dark row) None c)).
Proof. intros H1 H2. unfold solar. rewrite H1, H2. reflexivity. Qed.

(* ---------- zero at the dark count, continuity at the gain switch ---------- *)
Lemma zero_at_dark sl sh d b : match b with Some b' => d <= b' | None => True end -> spec_radiance sl sh d b d == 0.
Proof.
  intros H. unfold spec_radiance. destruct b as [b|]; [|ring].
  destruct (Qle_bool d b) eqn:E; [ring|]. apply Qle_bool_iff in H. congruence.
Qed.

Lemma continuous_at_switch sl sh d b : (b - d) * sl == (b - d) * sl + (b - b) * sh.
Proof. ring. Qed.

(* ---------- monotone in the count when both slopes are non-negative ---------- *)
Lemma radiance_monotone sl sh d b c c' : 0 <= sl -> 0 <= sh -> c <= c' ->
  spec_radiance sl sh d b c <= spec_radiance sl sh d b c'.
Proof.
  intros Hl Hh Hc. unfold spec_radiance. destruct b as [b|]; [|nra].
  destruct (Qle_bool c b) eqn:E1, (Qle_bool c' b) eqn:E2.
  - nra.
  - apply Qle_bool_iff in E1. assert (b < c') by (destruct (Qlt_le_dec b c'); auto; apply Qle_bool_iff in q; congruence). nra.
  - apply Qle_bool_iff in E2. assert (b < c) by (destruct (Qlt_le_dec b c); auto; apply Qle_bool_iff in q; congruence). lra.
  - nra.
Qed.

Lemma corr_mask_monotone corr x y ox oy : 0 <= corr -> x <= y ->
  mask_neg (apply_corr corr x) = Some ox -> mask_neg (apply_corr corr y) = Some oy -> ox <= oy.
Proof.
  intros Hc Hxy. unfold mask_neg, apply_corr. destruct (Qeq_bool corr 1).
  - destruct (Qlt_le_dec x 0); [discriminate|]. destruct (Qlt_le_dec y 0); [discriminate|].
    intros H1 H2. injection H1 as <-. injection H2 as <-. exact Hxy.
  - destruct (Qlt_le_dec (x * corr) 0); [discriminate|]. destruct (Qlt_le_dec (y * corr) 0); [discriminate|].
    intros H1 H2. injection H1 as <-. injection H2 as <-. apply Qmult_le_compat_r; assumption.
Qed.

(* ---------- the quadratic 100 + s1 t + s2 t^2 is non-negative on [0, 10]: decidable sufficient test ---------- *)
Definition quad_nonneg (s1 s2 : Q) : bool :=
  Qle_bool 0 (100 + s1 * 10 + s2 * 100) &&
  (Qle_bool s2 0 || Qle_bool 0 s1 || Qle_bool (s1 + 20 * s2) 0 || Qle_bool (s1 * s1) (400 * s2)).

Lemma chord s1 s2 t : s2 <= 0 -> 0 <= 100 + s1 * 10 + s2 * 100 -> 0 <= t <= 10 -> 0 <= 100 + s1 * t + s2 * t * t.
Proof.
  intros Hs H10 [Ht0 Ht1].
  assert (E : 10 * (100 + s1 * t + s2 * t * t) == (10 - t) * 100 + t * (100 + s1 * 10 + s2 * 100) + (- s2) * (10 * (t * (10 - t)))) by ring.
  assert (A : 0 <= t * (10 - t)) by (apply Qmult_le_0_compat; lra).
  assert (B : 0 <= (- s2) * (10 * (t * (10 - t)))) by (apply Qmult_le_0_compat; lra).
  assert (C : 0 <= t * (100 + s1 * 10 + s2 * 100)) by (apply Qmult_le_0_compat; lra).
  assert (D : 0 <= (10 - t) * 100) by lra.
  assert (0 <= 10 * (100 + s1 * t + s2 * t * t)) by (rewrite E; lra). lra.
Qed.

Lemma quad_nonneg_sound s1 s2 t : quad_nonneg s1 s2 = true -> 0 <= t <= 10 -> 0 <= 100 + s1 * t + s2 * t * t.
Proof.
  unfold quad_nonneg. intros H Ht. apply andb_prop in H. destruct H as [H10 H].
  apply Qle_bool_iff in H10.
  destruct (Qlt_le_dec 0 s2) as [Hs|Hs]; [|apply chord; assumption].
  destruct Ht as [Ht0 Ht1].
  apply orb_prop in H. destruct H as [H|H]; [apply orb_prop in H; destruct H as [H|H]; [apply orb_prop in H; destruct H as [H|H]|]|];
    apply Qle_bool_iff in H.
  - lra.
  - (* s1 >= 0, s2 > 0 *)
    assert (0 <= s1 * t) by (apply Qmult_le_0_compat; lra).
    assert (0 <= s2 * t * t) by (rewrite <- Qmult_assoc; apply Qmult_le_0_compat; [lra|apply Qmult_le_0_compat; lra]). lra.
  - (* vertex at or beyond 10: q(t) - q(10) = (10 - t) * (-(s1 + s2 (t + 10))) >= 0 *)
    assert (E : (100 + s1 * t + s2 * t * t) - (100 + s1 * 10 + s2 * 100) == (10 - t) * (- (s1 + s2 * (t + 10)))) by ring.
    assert (A : s2 * (t + 10) <= s2 * 20) by (apply Qmult_le_l; lra).
    assert (0 <= (10 - t) * (- (s1 + s2 * (t + 10)))) by (apply Qmult_le_0_compat; lra). lra.
  - (* discriminant: 4 s2 q(t) = (2 s2 t + s1)^2 + (400 s2 - s1^2) *)
    assert (E : 4 * s2 * (100 + s1 * t + s2 * t * t) == (2 * s2 * t + s1) * (2 * s2 * t + s1) + (400 * s2 - s1 * s1)) by ring.
    assert (A : 0 <= (2 * s2 * t + s1) * (2 * s2 * t + s1)).
    { destruct (Qlt_le_dec (2 * s2 * t + s1) 0).
      - setoid_replace ((2 * s2 * t + s1) * (2 * s2 * t + s1)) with ((- (2 * s2 * t + s1)) * (- (2 * s2 * t + s1))) by ring.
        apply Qmult_le_0_compat; lra.
      - apply Qmult_le_0_compat; lra. }
    assert (B : 0 <= 4 * s2 * (100 + s1 * t + s2 * t * t)) by (rewrite E; lra).
    destruct (Qlt_le_dec (100 + s1 * t + s2 * t * t) 0) as [Hneg|]; [|assumption].
    exfalso. assert (4 * s2 * (100 + s1 * t + s2 * t * t) < 0).
    { setoid_replace (4 * s2 * (100 + s1 * t + s2 * t * t)) with (- ((4 * s2) * (- (100 + s1 * t + s2 * t * t)))) by ring.
      assert (0 < (4 * s2) * (- (100 + s1 * t + s2 * t * t))) by (apply Qmult_lt_0_compat; lra). lra. }
    lra.
Qed.

Lemma slope_nonneg a s1 s2 t : 0 <= a -> quad_nonneg s1 s2 = true -> 0 <= t <= 10 -> 0 <= slope a s1 s2 t.
Proof.
  intros Ha Hq Ht. unfold slope. pose proof (quad_nonneg_sound s1 s2 t Hq Ht).
  unfold Qdiv. apply Qmult_le_0_compat; [apply Qmult_le_0_compat; assumption|]. discriminate.
Qed.

(* ---------- the generated coefficient table: every row passes the test (51 rows, decided by computation) ---------- *)
Definition row_ok (single : bool) (ch : nat) (r : vis_row) : bool :=
  Qle_bool 0 (round_dec 3 ((if single then 1 else glow ch) * v_s0 r)) &&
  Qle_bool 0 (round_dec 3 ((if single then 1 else ghigh ch) * v_s0 r)) &&
  quad_nonneg (v_s1 r) (v_s2 r) &&
  match v_switch r with Some b => Qle_bool (v_dark r) b | None => true end.

Definition sc_ok (sc : sc_coeffs) : bool :=
  negb (sc_complete sc) ||
  (let rows := sc_vis sc in
   let single := single_gain rows in
   (length rows =? 3)%nat &&
   forallb (fun p => row_ok single (fst p) (snd p)) (combine [0%nat; 1%nat; 2%nat] rows) &&
   (* date2float: the launch date used is the exact year fraction rounded to 5 decimals *)
   Qeq_bool (sc_launch sc) (date2float (sc_launch_exact sc))).

Lemma all_rows_ok : forallb sc_ok all_coeffs = true.
Proof. vm_compute. reflexivity. Qed.

Lemma row_ok_of_table sc ch row : In sc all_coeffs -> sc_complete sc = true -> nth_error (sc_vis sc) ch = Some row ->
  row_ok (single_gain (sc_vis sc)) ch row = true.
Proof.
  intros Hin Hc Hn. pose proof all_rows_ok as H. rewrite forallb_forall in H. specialize (H sc Hin).
  unfold sc_ok in H. rewrite Hc in H. cbn [negb orb] in H.
  apply andb_prop in H. destruct H as [H _]. apply andb_prop in H. destruct H as [Hl H].
  apply Nat.eqb_eq in Hl. rewrite forallb_forall in H.
  destruct (sc_vis sc) as [|r0 [|r1 [|r2 [|]]]]; simpl in Hl; try lia.
  destruct ch as [|[|[|ch]]]; simpl in Hn.
  - injection Hn as <-. apply (H (0%nat, r0)). simpl. auto.
  - injection Hn as <-. apply (H (1%nat, r1)). simpl. auto.
  - injection Hn as <-. apply (H (2%nat, r2)). simpl. auto.
  - destruct ch; discriminate.
Qed.

(* monotone: for every spacecraft / channel of the table, every t in [0, 10], every corr >= 0 *)
Theorem solar_monotone sc ch t corr c c' x y :
  In sc all_coeffs -> sc_complete sc = true -> 0 <= t <= 10 -> 0 <= corr -> c <= c' ->
  solar (sc_vis sc) ch t corr c = Some x -> solar (sc_vis sc) ch t corr c' = Some y -> x <= y.
Proof.
  intros Hin Hc Ht Hcorr Hcc Hx Hy.
  destruct (nth_error (sc_vis sc) ch) as [row|] eqn:Hn; [|unfold solar in Hx; rewrite Hn in Hx; discriminate].
  pose proof (row_ok_of_table sc ch row Hin Hc Hn) as Hok. unfold row_ok in Hok.
  apply andb_prop in Hok. destruct Hok as [Hok Hdb]. apply andb_prop in Hok. destruct Hok as [Hok Hq].
  apply andb_prop in Hok. destruct Hok as [Hal Hah]. apply Qle_bool_iff in Hal. apply Qle_bool_iff in Hah.
  destruct (single_gain (sc_vis sc)) eqn:Es.
  - rewrite (solar_formula_single _ _ _ _ c row Hn Es) in Hx. rewrite (solar_formula_single _ _ _ _ c' row Hn Es) in Hy.
    eapply corr_mask_monotone; [exact Hcorr| |exact Hx|exact Hy].
    apply radiance_monotone; auto; apply slope_nonneg; auto.
  - destruct (v_switch row) as [b|] eqn:Eb.
    + rewrite (solar_formula_dual _ _ _ _ c row b Hn Es Eb) in Hx. rewrite (solar_formula_dual _ _ _ _ c' row b Hn Es Eb) in Hy.
      eapply corr_mask_monotone; [exact Hcorr| |exact Hx|exact Hy].
      apply radiance_monotone; auto; apply slope_nonneg; auto.
    + unfold solar in Hx. rewrite Hn, Es, Eb in Hx. discriminate.
Qed.

(* zero at the dark count for every dual/single row of the table (before the distance factor, which keeps 0) *)
Theorem solar_zero_at_dark sc ch t corr row :
  In sc all_coeffs -> sc_complete sc = true -> nth_error (sc_vis sc) ch = Some row ->
  (single_gain (sc_vis sc) = true \/ v_switch row <> None) ->
  exists x, solar (sc_vis sc) ch t corr (v_dark row) = Some x /\ x == 0.
Proof.
  intros Hin Hc Hn Hgain.
  pose proof (row_ok_of_table sc ch row Hin Hc Hn) as Hok. unfold row_ok in Hok.
  apply andb_prop in Hok. destruct Hok as [_ Hdb].
  destruct (single_gain (sc_vis sc)) eqn:Es.
  - rewrite (solar_formula_single _ _ _ _ _ row Hn Es).
    assert (Hz := zero_at_dark (slope (round_dec 3 (1 * v_s0 row)) (v_s1 row) (v_s2 row) t)
                   (slope (round_dec 3 (1 * v_s0 row)) (v_s1 row) (v_s2 row) t) (v_dark row) None I).
    unfold mask_neg, apply_corr. destruct (Qeq_bool corr 1); destruct (Qlt_le_dec _ 0) as [Hlt|Hge];
      try (exfalso; rewrite Hz in Hlt; lra); eexists; split; try reflexivity; rewrite Hz; ring.
  - destruct (v_switch row) as [b|] eqn:Eb; [|destruct Hgain as [Hg|Hg]; [discriminate|congruence]].
    rewrite (solar_formula_dual _ _ _ _ _ row b Hn Es Eb).
    apply Qle_bool_iff in Hdb.
    assert (Hz := zero_at_dark (slope (round_dec 3 (glow ch * v_s0 row)) (v_s1 row) (v_s2 row) t)
                   (slope (round_dec 3 (ghigh ch * v_s0 row)) (v_s1 row) (v_s2 row) t) (v_dark row) (Some b) Hdb).
    unfold mask_neg, apply_corr. destruct (Qeq_bool corr 1); destruct (Qlt_le_dec _ 0) as [Hlt|Hge];
      try (exfalso; rewrite Hz in Hlt; lra); eexists; split; try reflexivity; rewrite Hz; ring.
Qed.
