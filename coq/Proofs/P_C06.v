From Coq Require Import ZArith QArith Qabs List Bool Lia.
From PV Require Import M_Geo.
Import ListNotations.
Open Scope Z_scope.

Lemma nth_error_combine : forall (A B : Type) (a : list A) (b : list B) i x y,
  nth_error a i = Some x -> nth_error b i = Some y -> nth_error (combine a b) i = Some (x, y).
Proof.
  induction a as [|a0 a IH]; intros b i x y Ha Hb; destruct i; destruct b as [|b0 b]; cbn in *; try discriminate.
  - congruence.
  - apply IH; assumption.
Qed.

Lemma nth_error_nth_default : forall (A : Type) (l : list A) i x d, nth_error l i = Some x -> nth i l d = x.
Proof. intros. apply nth_error_nth. assumption. Qed.

Section GeoProofs.
  Variable lon_div lat_div lon_lim lat_lim : Q.
  Variable cols : list Z.
  Variable width : Z.
  Variable interp_all : list (list Q * list Q) -> list (list (Q * Q)).
  Notation get_lonlat := (get_lonlat lon_div lat_div lon_lim lat_lim interp_all).
  Notation mask_px := (mask_px lon_lim lat_lim).
  Notation tie_lons := (tie_lons lon_div).
  Notation tie_lats := (tie_lats lat_div).
  Notation from_file := (from_file lon_div lat_div).
  Notation contract := (interp_contract cols width interp_all).

  (* ---- without interpolation: exactly the tie points of each line, masked ---- *)
  Lemma no_interp_rows : forall ls,
    get_lonlat false ls = map (fun l => map (mask_px (flagged l)) (combine (tie_lons l) (tie_lats l))) ls.
  Proof.
    intros ls. unfold M_Geo.get_lonlat, raw, M_Geo.from_file. rewrite map_map. cbn [fst snd].
    induction ls as [|l ls IH]; [reflexivity|]. cbn [map combine fst snd]. f_equal. exact IH.
  Qed.

  Theorem tie_readout : forall ls i l k wlo wla,
    nth_error ls i = Some l -> flagged l = false ->
    nth_error (lon_w l) k = Some wlo -> nth_error (lat_w l) k = Some wla ->
    nth_error (nth i (get_lonlat false ls) []) k =
      Some (keep lon_lim (scale lon_div wlo), keep lat_lim (scale lat_div wla)).
  Proof.
    intros ls i l k wlo wla Hi Hf Hlo Hla. rewrite no_interp_rows.
    rewrite (nth_error_nth_default _ _ i (map (mask_px (flagged l)) (combine (tie_lons l) (tie_lats l))));
      [|rewrite nth_error_map, Hi; reflexivity].
    rewrite nth_error_map.
    rewrite (nth_error_combine _ _ (tie_lons l) (tie_lats l) k (scale lon_div wlo) (scale lat_div wla)).
    - cbn [option_map]. unfold M_Geo.mask_px. rewrite Hf. reflexivity.
    - unfold M_Geo.tie_lons. rewrite nth_error_map, Hlo. reflexivity.
    - unfold M_Geo.tie_lats. rewrite nth_error_map, Hla. reflexivity.
  Qed.

  Theorem no_interp_width : forall ls i l, nth_error ls i = Some l ->
    length (nth i (get_lonlat false ls) []) = Nat.min (length (lon_w l)) (length (lat_w l)).
  Proof.
    intros ls i l Hi. rewrite no_interp_rows.
    rewrite (nth_error_nth_default _ _ i (map (mask_px (flagged l)) (combine (tie_lons l) (tie_lats l))));
      [|rewrite nth_error_map, Hi; reflexivity].
    rewrite map_length, combine_length. unfold M_Geo.tie_lons, M_Geo.tie_lats. rewrite !map_length. reflexivity.
  Qed.

  (* ---- one row per scan line ---- *)
  Theorem one_row_per_line : forall b ls, (b = true -> contract) -> length (get_lonlat b ls) = length ls.
  Proof.
    intros b ls Hc. unfold M_Geo.get_lonlat. rewrite map_length, combine_length.
    destruct b; unfold raw.
    - destruct (Hc eq_refl (from_file ls)) as [L _]. rewrite L. unfold M_Geo.from_file. rewrite map_length. lia.
    - unfold M_Geo.from_file. rewrite !map_length. lia.
  Qed.

  (* ---- with interpolation: full width, and the tie points sit at their columns ---- *)
  Lemma interp_row : forall ls i l, contract -> nth_error ls i = Some l ->
    nth i (get_lonlat true ls) [] = map (mask_px (flagged l)) (nth i (interp_all (from_file ls)) []).
  Proof.
    intros ls i l Hc Hi. unfold M_Geo.get_lonlat, raw.
    destruct (Hc (from_file ls)) as [L _].
    assert (Hr : nth_error (interp_all (from_file ls)) i = Some (nth i (interp_all (from_file ls)) [])).
    { apply nth_error_nth'. rewrite L. unfold M_Geo.from_file. rewrite map_length. apply nth_error_Some. congruence. }
    apply nth_error_nth_default.
    rewrite nth_error_map, (nth_error_combine _ _ _ _ i l _ Hi Hr). reflexivity.
  Qed.

  Theorem interp_width : forall ls i l, contract -> nth_error ls i = Some l ->
    length (nth i (get_lonlat true ls) []) = Z.to_nat width.
  Proof.
    intros ls i l Hc Hi. rewrite (interp_row ls i l Hc Hi), map_length.
    destruct (Hc (from_file ls)) as [_ C].
    apply (C i (tie_lons l) (tie_lats l)). unfold M_Geo.from_file. rewrite nth_error_map, Hi. reflexivity.
  Qed.

  Theorem tie_columns : forall ls i l k c wlo wla, contract ->
    nth_error ls i = Some l -> flagged l = false -> nth_error cols k = Some c -> 0 <= c < width ->
    nth_error (lon_w l) k = Some wlo -> nth_error (lat_w l) k = Some wla ->
    nth_error (nth i (get_lonlat true ls) []) (Z.to_nat c) =
      Some (keep lon_lim (scale lon_div wlo), keep lat_lim (scale lat_div wla)).
  Proof.
    intros ls i l k c wlo wla Hc Hi Hf Hk Hcw Hlo Hla.
    rewrite (interp_row ls i l Hc Hi). rewrite nth_error_map.
    destruct (Hc (from_file ls)) as [_ C].
    assert (Hff : nth_error (from_file ls) i = Some (tie_lons l, tie_lats l)).
    { unfold M_Geo.from_file. rewrite nth_error_map, Hi. reflexivity. }
    destruct (C i _ _ Hff) as [W N].
    assert (Klo : (k < length (tie_lons l))%nat).
    { unfold M_Geo.tie_lons. rewrite map_length. apply nth_error_Some. congruence. }
    assert (Kla : (k < length (tie_lats l))%nat).
    { unfold M_Geo.tie_lats. rewrite map_length. apply nth_error_Some. congruence. }
    specialize (N k c Hk Hcw Klo Kla).
    rewrite (nth_error_nth' _ (0%Q, 0%Q)) by (rewrite W; lia).
    rewrite N. cbn [option_map]. unfold M_Geo.mask_px. rewrite Hf. cbn [fst snd].
    assert (E1 : nth k (tie_lons l) 0%Q = scale lon_div wlo).
    { apply nth_error_nth_default. unfold M_Geo.tie_lons. rewrite nth_error_map, Hlo. reflexivity. }
    assert (E2 : nth k (tie_lats l) 0%Q = scale lat_div wla).
    { apply nth_error_nth_default. unfold M_Geo.tie_lats. rewrite nth_error_map, Hla. reflexivity. }
    rewrite E1, E2. reflexivity.
  Qed.

  (* ---- every returned coordinate is NaN or inside its range; flagged lines are NaN ---- *)
  Lemma keep_range : forall lim v, keep lim v = None \/ (keep lim v = Some v /\ (Qabs v <= lim)%Q).
  Proof. intros lim v. unfold keep. destruct (Qle_bool (Qabs v) lim) eqn:E; [right; split; [reflexivity | apply Qle_bool_iff; exact E] | left; reflexivity]. Qed.

  Theorem in_range : forall b ls row p, In row (get_lonlat b ls) -> In p row ->
    (fst p = None \/ exists v, fst p = Some v /\ (Qabs v <= lon_lim)%Q) /\
    (snd p = None \/ exists v, snd p = Some v /\ (Qabs v <= lat_lim)%Q).
  Proof.
    intros b ls row p Hrow Hp. unfold M_Geo.get_lonlat in Hrow. apply in_map_iff in Hrow.
    destruct Hrow as [[l r] [E _]]. subst row. apply in_map_iff in Hp. destruct Hp as [q [E _]]. subst p.
    cbn [fst snd]. unfold M_Geo.mask_px. destruct (flagged l); cbn [fst snd]; [split; left; reflexivity|].
    split.
    - destruct (keep_range lon_lim (fst q)) as [H|[H1 H2]]; [left; exact H | right; exists (fst q); split; assumption].
    - destruct (keep_range lat_lim (snd q)) as [H|[H1 H2]]; [left; exact H | right; exists (snd q); split; assumption].
  Qed.

  Theorem flagged_rows_nan : forall b ls i l p, (b = true -> contract) -> nth_error ls i = Some l -> flagged l = true ->
    In p (nth i (get_lonlat b ls) []) -> p = (None, None).
  Proof.
    intros b ls i l p Hc Hi Hf Hp. destruct b.
    - rewrite (interp_row ls i l (Hc eq_refl) Hi) in Hp. apply in_map_iff in Hp. destruct Hp as [q [E _]].
      subst p. unfold M_Geo.mask_px. rewrite Hf. reflexivity.
    - rewrite no_interp_rows in Hp.
      rewrite (nth_error_nth_default _ _ i (map (mask_px (flagged l)) (combine (tie_lons l) (tie_lats l)))) in Hp;
        [|rewrite nth_error_map, Hi; reflexivity].
      apply in_map_iff in Hp. destruct Hp as [q [E _]]. subst p. unfold M_Geo.mask_px. rewrite Hf. reflexivity.
  Qed.

  (* an in-range tie point is returned as it is *)
  Lemma keep_in_range : forall lim v, (Qabs v <= lim)%Q -> keep lim v = Some v.
  Proof. intros lim v H. unfold keep. apply Qle_bool_iff in H. rewrite H. reflexivity. Qed.
End GeoProofs.

(* ---------------- the interpolator's contract is satisfiable: a step interpolator (each pixel takes the tie point of
   the last tie column at or before it, the first tie point in front of the first column) meets it ---------------- *)
Section StepInterpolator.
  Variable cols : list Z.
  Variable width : Z.

  Fixpoint last_le (c : Z) (cs : list Z) (k : nat) (acc : nat) : nat :=
    match cs with
    | [] => acc
    | c0 :: r => last_le c r (S k) (if c0 <=? c then k else acc)
    end.

  Definition step_row (lo la : list Q) : list (Q * Q) :=
    map (fun c => let k := last_le (Z.of_nat c) cols 0 0 in (nth k lo 0%Q, nth k la 0%Q)) (seq 0 (Z.to_nat width)).
  Definition step_interp (ties : list (list Q * list Q)) : list (list (Q * Q)) :=
    map (fun p => step_row (fst p) (snd p)) ties.

  (* strictly increasing, non-negative columns *)
  Fixpoint increasing (prev : Z) (cs : list Z) : Prop :=
    match cs with [] => True | c :: r => prev < c /\ increasing c r end.

  Lemma last_le_above : forall cs c k acc prev, increasing prev cs -> c <= prev -> last_le c cs k acc = acc.
  Proof.
    induction cs as [|c0 r IH]; intros c k acc prev Hi Hc; [reflexivity|]. cbn [last_le]. destruct Hi as [H1 H2].
    destruct (Z.leb_spec c0 c); [lia|]. apply (IH c (S k) acc c0 H2). lia.
  Qed.

  Lemma last_le_at : forall cs k0 acc prev k c, increasing prev cs -> nth_error cs k = Some c ->
    last_le c cs k0 acc = (k0 + k)%nat.
  Proof.
    induction cs as [|c0 r IH]; intros k0 acc prev k c Hi Hk; [destruct k; discriminate|]. destruct Hi as [H1 H2].
    destruct k as [|k]; cbn [nth_error] in Hk.
    - injection Hk as ->. cbn [last_le]. rewrite Z.leb_refl. rewrite (last_le_above r c (S k0) k0 c H2) by lia. lia.
    - cbn [last_le]. rewrite (IH (S k0) _ c0 k c H2 Hk). lia.
  Qed.

  Theorem step_interp_contract : increasing (-1) cols -> interp_contract cols width step_interp.
  Proof.
    intros Hinc ties. split; [unfold step_interp; apply map_length|].
    intros i lo la Hi.
    assert (E : nth i (step_interp ties) [] = step_row lo la).
    { apply nth_error_nth_default. unfold step_interp. rewrite nth_error_map, Hi. reflexivity. }
    rewrite E. split; [unfold step_row; rewrite map_length, seq_length; reflexivity|].
    intros k c Hk [Hc0 Hw] Klo Kla.
    unfold step_row.
    rewrite (nth_error_nth_default _ _ (Z.to_nat c)
               (let k' := last_le (Z.of_nat (Z.to_nat c)) cols 0 0 in (nth k' lo 0%Q, nth k' la 0%Q))).
    - cbv zeta. rewrite Z2Nat.id by exact Hc0. rewrite (last_le_at cols 0 0 (-1) k c Hinc Hk). reflexivity.
    - rewrite nth_error_map. rewrite (nth_error_nth' _ 0%nat) by (rewrite seq_length; lia).
      rewrite seq_nth by lia. reflexivity.
  Qed.
End StepInterpolator.
