From Coq Require Import Reals Lra.
Open Scope R_scope.

(* Earth-Sun distance factor 1 - 0.0334 cos(2 pi (day - 2) / 365.25) stays within 3.34 % of 1 *)
Lemma corr_range x : 0.9666 <= 1 - 0.0334 * cos x <= 1.0334.
Proof. pose proof (COS_bound x) as [H1 H2]. lra. Qed.

Lemma corr_nonneg x : 0 <= 1 - 0.0334 * cos x.
Proof. pose proof (corr_range x). lra. Qed.
