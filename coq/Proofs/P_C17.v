From Coq Require Import ZArith List Bool Arith Lia Sorting.Sorted.
From PV Require Import Calendar Median M_Tle.
Import ListNotations.
Open Scope Z_scope.

Lemma divmod_1000 a b : 0 <= b < 1000 -> (a * 1000 + b) / 1000 = a /\ (a * 1000 + b) mod 1000 = b.
Proof.
  intros H. split.
  - rewrite Z.div_add_l by lia. rewrite Z.div_small by lia. lia.
  - rewrite Z.add_comm, Z_mod_plus_full. apply Z.mod_small. lia.
Qed.

(* searchsorted on a sorted list: exactly the elements before position k are < s *)
Lemma searchsorted_spec dates s : StronglySorted Z.le dates ->
  forall j, (j < length dates)%nat -> (nth j dates 0 < s <-> (j < searchsorted dates s)%nat).
Proof.
  unfold searchsorted. induction 1 as [|a l Hs IH Ha]; intros j Hj; [simpl in Hj; lia|].
  cbn [filter]. destruct (Z.ltb_spec a s) as [Hlt|Hge].
  - destruct j as [|j]; cbn [nth length]; [split; intros; lia|].
    simpl in Hj. rewrite (IH j) by lia. lia.
  - (* a >= s: every element is >= s, nothing is selected *)
    assert (Hnone : filter (fun d => d <? s) l = []).
    { clear -Ha Hge. induction l as [|x l IHl]; [reflexivity|]. inversion Ha; subst. cbn [filter].
      destruct (Z.ltb_spec x s); [lia|]. apply IHl; assumption. }
    rewrite Hnone. cbn [length]. split; [|lia]. intros Hlt.
    destruct j as [|j]; cbn [nth] in Hlt; [lia|].
    rewrite Forall_forall in Ha. assert (a <= nth j l 0) by (apply Ha; apply nth_In; simpl in Hj; lia). lia.
Qed.

Lemma searchsorted_le dates s : (searchsorted dates s <= length dates)%nat.
Proof. unfold searchsorted. induction dates as [|x l IH]; simpl; [lia|]. destruct (x <? s); simpl; lia. Qed.

(* the index computed before the threshold test *)
Definition nearest_index (dates : list Z) (s : Z) : nat :=
  let n := length dates in let k := searchsorted dates s in
  if (k =? 0)%nat || (k =? n)%nat then (if (k =? n)%nat then (k - 1)%nat else k)
  else if Z.abs (s - nth (k - 1) dates 0) <? Z.abs (s - nth k dates 0) then (k - 1)%nat else k.

Lemma select_unfold dates s tn td : select_tle dates s tn td =
  if tn * 86400000 <? Z.abs (s - nth (nearest_index dates s) dates 0) * td then NoTLEData else Selected (nearest_index dates s).
Proof. reflexivity. Qed.

Theorem nearest_is_nearest dates s : StronglySorted Z.le dates -> dates <> [] ->
  let i := nearest_index dates s in
  (i < length dates)%nat /\ forall j, (j < length dates)%nat -> Z.abs (s - nth i dates 0) <= Z.abs (s - nth j dates 0).
Proof.
  intros Hs Hne. unfold nearest_index. cbv zeta.
  set (n := length dates). set (k := searchsorted dates s).
  assert (Hn : (0 < n)%nat) by (unfold n; destruct dates; [congruence|simpl; lia]).
  assert (Hk : (k <= n)%nat) by apply searchsorted_le.
  assert (Hlow : forall j, (j < k)%nat -> (j < n)%nat -> nth j dates 0 < s).
  { intros j Hj Hjn. apply (searchsorted_spec dates s Hs j Hjn). exact Hj. }
  assert (Hhigh : forall j, (k <= j)%nat -> (j < n)%nat -> s <= nth j dates 0).
  { intros j Hj Hjn. destruct (Z_lt_le_dec (nth j dates 0) s) as [Hc|Hc]; [|assumption].
    apply (searchsorted_spec dates s Hs j Hjn) in Hc. fold k in Hc. lia. }
  assert (Hmono : forall a b, (a <= b < n)%nat -> nth a dates 0 <= nth b dates 0).
  { intros a b Hab. apply strongly_nth_le; assumption. }
  destruct (Nat.eqb_spec k 0) as [Hk0|Hk0]; cbn [orb].
  - (* before the first epoch *)
    destruct (Nat.eqb_spec k n) as [Hkn|Hkn]; [lia|]. split; [lia|]. intros j Hj.
    pose proof (Hhigh 0%nat ltac:(lia) ltac:(lia)). pose proof (Hhigh j ltac:(lia) Hj).
    pose proof (Hmono 0%nat j ltac:(lia)). rewrite Hk0. lia.
  - destruct (Nat.eqb_spec k n) as [Hkn|Hkn].
    + (* after the last epoch *)
      split; [lia|]. intros j Hj.
      pose proof (Hlow (k - 1)%nat ltac:(lia) ltac:(lia)). pose proof (Hlow j ltac:(lia) Hj).
      pose proof (Hmono j (k - 1)%nat ltac:(lia)). lia.
    + (* between two epochs *)
      pose proof (Hlow (k - 1)%nat ltac:(lia) ltac:(lia)) as Hl. pose proof (Hhigh k ltac:(lia) ltac:(lia)) as Hh.
      destruct (Z.ltb_spec (Z.abs (s - nth (k - 1) dates 0)) (Z.abs (s - nth k dates 0))) as [Hc|Hc];
        (split; [lia|]); intros j Hj;
        (destruct (Nat.lt_ge_cases j k) as [Hjk|Hjk];
         [pose proof (Hlow j Hjk Hj); pose proof (Hmono j (k - 1)%nat ltac:(lia)); lia
         |pose proof (Hhigh j Hjk Hj); pose proof (Hmono k j ltac:(lia)); lia]).
Qed.

(* NoTLEData iff even the nearest epoch is farther than thresh days (thresh = tn/td days, td > 0) *)
Theorem threshold_iff dates s tn td : 0 < td ->
  (select_tle dates s tn td = NoTLEData <->
   tn * 86400000 < Z.abs (s - nth (nearest_index dates s) dates 0) * td).
Proof.
  intros Htd. rewrite select_unfold. destruct (Z.ltb_spec (tn * 86400000) (Z.abs (s - nth (nearest_index dates s) dates 0) * td)).
  - split; auto.
  - split; [discriminate|lia].
Qed.

Theorem selected_index dates s tn td i : select_tle dates s tn td = Selected i -> i = nearest_index dates s.
Proof. rewrite select_unfold. destruct (_ <? _); [discriminate|]. intros H. injection H as <-. reflexivity. Qed.

(* epoch decoding: exact pieces of the decimal field *)
Lemma rint_bounds a b : 0 < b -> 0 <= a -> 
  let r := round_half_even_div a b in 2 * Z.abs (r * b - a) <= b.
Proof.
  intros Hb Ha. unfold round_half_even_div. cbv zeta.
  pose proof (Z.div_mod a b ltac:(lia)) as Hdm. pose proof (Z.mod_pos_bound a b Hb) as Hm.
  destruct (Z.ltb_spec (2 * (a mod b)) b); [nia|].
  destruct (Z.ltb_spec b (2 * (a mod b))); [nia|].
  destruct (Z.even (a / b)); nia.
Qed.

(* for a field YYDDD.dddddddd with 0 <= YY < 100, 1 <= DDD <= 366: the decoded instant is
   1 Jan (1900+YY if YY > 50 or (YY = 50 and not exactly 50000.0), else 2000+YY) + (DDD-1) days + the fraction of a day
   rounded to the nearest millisecond *)
Theorem epoch_decode yy ddd frac : 0 <= yy < 100 -> 0 <= ddd < 1000 -> 0 <= frac < 100000000 ->
  let e := (yy * 1000 + ddd) * 100000000 + frac in
  let year := if 5000000000000 <? e then 1900 + yy else 2000 + yy in
  exists ms, tle_epoch_ms e = (days_before_year year + (ddd - 1)) * 86400000 + ms /\
             2 * Z.abs (ms * 100000000 - 86400000 * frac) <= 100000000.
Proof.
  intros Hy Hd Hf e year. unfold tle_epoch_ms.
  assert (E1 : e / 100000000 = yy * 1000 + ddd).
  { unfold e. rewrite Z.div_add_l by lia. rewrite Z.div_small by lia. lia. }
  assert (E2 : e mod 100000000 = frac).
  { unfold e. rewrite Z.add_comm, Z_mod_plus_full. apply Z.mod_small. lia. }
  rewrite E1, E2. exists (round_half_even_div (86400000 * frac) 100000000). split.
  - unfold year. destruct (5000000000000 <? e).
    + replace (yy * 1000 + ddd + 1900000) with ((1900 + yy) * 1000 + ddd) by lia.
      destruct (divmod_1000 (1900 + yy) ddd Hd) as [-> ->]. reflexivity.
    + replace (yy * 1000 + ddd + 2000000) with ((2000 + yy) * 1000 + ddd) by lia.
      destruct (divmod_1000 (2000 + yy) ddd Hd) as [-> ->]. reflexivity.
  - apply rint_bounds; lia.
Qed.
