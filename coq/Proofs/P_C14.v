From Coq Require Import ZArith List Bool Lia.
From PV Require Import Bits M_Counts M_Ch3.
Import ListNotations.
Open Scope Z_scope.

Section P.
  Variable V Tele : Type.
  Variable solar3a : Z -> option V.
  Variable thermal3 : Tele -> Z -> option V.

  Lemma pixel_spec sw tele c : 0 <= sw <= 2 ->
    klm_ch3_pixel V Tele solar3a thermal3 sw tele c =
    ((if sw =? 1 then solar3a c else None), (if sw =? 0 then thermal3 tele c else None)).
  Proof.
    intros H. unfold klm_ch3_pixel.
    assert (sw = 0 \/ sw = 1 \/ sw = 2) as [->|[->| ->]] by lia; reflexivity.
  Qed.

  (* every line of every pass: induction over the lines (any switch sequence over {0, 1, 2}) *)
  Lemma pass_spec lines : Forall (fun l => 0 <= fst (fst l) <= 2) lines ->
    klm_ch3_pass V Tele solar3a thermal3 lines =
    map (fun l => let '(sw, tele, thirds) := l in
                  map (fun c => ((if sw =? 1 then solar3a c else None), (if sw =? 0 then thermal3 tele c else None))) thirds) lines.
  Proof.
    induction 1 as [|[[sw tele] thirds] r Hl _ IH]; [reflexivity|].
    cbn [klm_ch3_pass map] in *. f_equal; [|exact IH].
    unfold klm_ch3_line. apply map_ext. intros c. apply pixel_spec. exact Hl.
  Qed.

  (* never both: on no pixel are 3a and 3b both delivered *)
  Lemma never_both sw tele c : 0 <= sw <= 2 ->
    fst (klm_ch3_pixel V Tele solar3a thermal3 sw tele c) = None \/ snd (klm_ch3_pixel V Tele solar3a thermal3 sw tele c) = None.
  Proof. intros H. rewrite pixel_spec by assumption. cbn [fst snd]. destruct (Z.eqb_spec sw 1); [right|left]; [|reflexivity].
         destruct (Z.eqb_spec sw 0); [lia|reflexivity]. Qed.

  (* value 3 (not defined by the format): both planes carry the calibration of count 0 *)
  Lemma switch3 tele c : klm_ch3_pixel V Tele solar3a thermal3 3 tele c = (solar3a 0, thermal3 tele 0).
  Proof. reflexivity. Qed.

  Lemma pod_uniform_spec c1 c2 c3 c4 c5 : pod_uniform V [c1; c2; c3; c4; c5] = [c1; c2; None; c3; c4; c5].
  Proof. reflexivity. Qed.
End P.

Lemma blank_flags sw : 0 <= sw <= 3 ->
  blank3a sw = negb (sw =? 1) && negb (sw =? 3) /\ blank3b sw = negb (sw =? 0) && negb (sw =? 3).
Proof. intros H. assert (sw = 0 \/ sw = 1 \/ sw = 2 \/ sw = 3) as [->|[->|[->| ->]]] by lia; split; reflexivity. Qed.
