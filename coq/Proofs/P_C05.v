From Coq Require Import ZArith QArith Qabs List Bool Arith Lia.
From PV Require Import Median NumSig Gen_Coeffs M_Thermal.
Import ListNotations.
Ltac Zify.zify_post_hook ::= Z.to_euclidean_division_equations.

(* ---------- PRT cycle location ---------- *)
(* readings of the lines whose (line number - first line number) mod 5 equals k *)
Definition class_sel (cls prt3 : list Z) (k : Z) : list Z :=
  map snd (filter (fun p => (fst p =? k)%Z) (combine cls prt3)).

(* a class is recognised as the reset class iff its median reading is below 50 counts (prt3 = 3 x reading);
   a strict majority of readings below / not below 50 decides it *)
Lemma class_low_majority cls prt3 k :
  (2 * count_lt 150 (class_sel cls prt3 k) > length (class_sel cls prt3 k))%nat -> class_low cls prt3 k = true.
Proof.
  intros H. unfold class_low. fold (class_sel cls prt3 k).
  destruct (class_sel cls prt3 k) as [|x l] eqn:E; [simpl in H; lia|].
  apply Z.ltb_lt. change 300%Z with (2 * 150)%Z. apply median2_lt. exact H.
Qed.

Lemma class_not_low_majority cls prt3 k :
  (2 * (length (class_sel cls prt3 k) - count_lt 150 (class_sel cls prt3 k)) > length (class_sel cls prt3 k))%nat \/
  class_sel cls prt3 k = [] -> class_low cls prt3 k = false.
Proof.
  intros H. unfold class_low. fold (class_sel cls prt3 k).
  destruct (class_sel cls prt3 k) as [|x l] eqn:E; [reflexivity|].
  destruct H as [H|H]; [|discriminate]. apply Z.ltb_ge. change 300%Z with (2 * 150)%Z. apply median2_ge. exact H.
Qed.

(* the search returns the reset residue r (relative to the first line) when class r has a majority of low readings
   and every class before it has a majority of readings that are not low (or is empty) *)
Theorem find_offset_spec cls prt3 r : (0 <= r <= 4)%Z ->
  (2 * count_lt 150 (class_sel cls prt3 r) > length (class_sel cls prt3 r))%nat ->
  (forall k, (0 <= k < r)%Z ->
     (2 * (length (class_sel cls prt3 k) - count_lt 150 (class_sel cls prt3 k)) > length (class_sel cls prt3 k))%nat \/
     class_sel cls prt3 k = []) ->
  find_offset cls prt3 = Some r.
Proof.
  intros Hr Hlow Hbefore. unfold find_offset.
  assert (Hr' : (r = 0 \/ r = 1 \/ r = 2 \/ r = 3 \/ r = 4)%Z) by lia.
  pose proof (class_low_majority cls prt3 r Hlow) as Hl.
  assert (Hn : forall k, (0 <= k < r)%Z -> class_low cls prt3 k = false).
  { intros k Hk. apply class_not_low_majority. apply Hbefore. exact Hk. }
  cbn [find].
  destruct Hr' as [->|[->|[->|[->| ->]]]].
  - rewrite Hl. reflexivity.
  - rewrite (Hn 0%Z) by lia. rewrite Hl. reflexivity.
  - rewrite (Hn 0%Z), (Hn 1%Z) by lia. rewrite Hl. reflexivity.
  - rewrite (Hn 0%Z), (Hn 1%Z), (Hn 2%Z) by lia. rewrite Hl. reflexivity.
  - rewrite (Hn 0%Z), (Hn 1%Z), (Hn 2%Z), (Hn 3%Z) by lia. rewrite Hl. reflexivity.
Qed.

(* the thermometer index of a line is a function of its ABSOLUTE line number and the absolute reset residue
   (first line number + offset), not of the position of the line in the file *)
Theorem iprt_absolute lns offset :
  iprt_of (line_class lns) offset = map (fun l => ((l - (hd 0%Z lns + offset)) mod 5)%Z) lns.
Proof.
  unfold iprt_of, line_class. rewrite map_map. apply map_ext. intros l. lia.
Qed.

(* ---------- np.interp: exact at the nodes, end values held ---------- *)
Lemma interp_first nodes x0 f0 x : (x <= x0)%nat -> interp ((x0, f0) :: nodes) x = Some f0.
Proof. intros H. unfold interp. apply Nat.leb_le in H. rewrite H. reflexivity. Qed.

(* exact at a node that is reached *)
Lemma interp_go_at_node x prev xi fi r : (x = xi)%nat -> interp_go x prev ((xi, fi) :: r) = fi.
Proof. intros ->. cbn [interp_go]. rewrite Nat.leb_refl, Nat.eqb_refl. reflexivity. Qed.

(* beyond the last node the last value is held *)
Lemma interp_go_hold_last x prev : interp_go x prev [] = snd prev.
Proof. reflexivity. Qed.

(* ---------- boxcar smoothing: np.convolve(x, ones(w)/w, 'same') + the four edge assignments ---------- *)
Lemma enumerate_from_length {A} (l : list A) k : length (enumerate_from k l) = length l.
Proof. revert k. induction l; intros; simpl; auto. Qed.

Lemma nth_enumerate_from {A} (l : list A) d : forall k i, (i < length l)%nat ->
  nth i (enumerate_from k l) (0%nat, d) = ((k + i)%nat, nth i l d).
Proof.
  induction l as [|x l IH]; intros k i H; [simpl in H; lia|].
  destruct i; simpl; [f_equal; lia|]. rewrite IH by (simpl in H; lia). f_equal. lia.
Qed.

Definition clamp (i lo hi : nat) : nat := Nat.min (Nat.max i lo) hi.
Definition window_mean (x : list Q) (c h w : nat) : Q :=
  Qred (window_sum x (Z.of_nat c - Z.of_nat h) (Z.of_nat c + Z.of_nat h) / qn w).

Lemma convolve_same_length x w : length (convolve_same x w) = length x.
Proof. unfold convolve_same. rewrite map_length. apply enumerate_from_length. Qed.

Lemma nth_convolve_same x w i : (i < length x)%nat ->
  nth i (convolve_same x w) 0%Q = window_mean x i ((w - 1) / 2) w.
Proof.
  intros H. unfold convolve_same, window_mean.
  set (f := fun p : nat * Q => Qred (window_sum x (Z.of_nat (fst p) - Z.of_nat ((w - 1) / 2)) (Z.of_nat (fst p) + Z.of_nat ((w - 1) / 2)) / qn w)).
  rewrite (nth_indep _ 0%Q (f (0%nat, 0%Q))) by (rewrite map_length; unfold enumerate; rewrite enumerate_from_length; exact H).
  rewrite (map_nth f). unfold enumerate. rewrite nth_enumerate_from by exact H. reflexivity.
Qed.

(* for every pass with at least as many lines as the window: line i gets the mean over the w lines centred on
   clamp(i, h, L-1-h); the window is 51 lines, or 3 for passes of at most 51 lines *)
Theorem smooth_spec x i : (3 <= length x)%nat -> (i < length x)%nat ->
  let L := length x in
  let w := if (51 <? L)%nat then 51%nat else 3%nat in
  let h := ((w - 1) / 2)%nat in
  nth i (smooth x) 0%Q = window_mean x (clamp i h (L - 1 - h)) h w.
Proof.
  intros HL Hi L w h. unfold smooth. fold L. fold w. fold h.
  set (c := convolve_same x w).
  assert (Lc : length c = L) by (unfold c; apply convolve_same_length).
  set (f := fun p : nat * Q => if (fst p <? h)%nat then nth h c 0%Q else if (L - h <=? fst p)%nat then nth (L - (h + 1)) c 0%Q else snd p).
  rewrite (nth_indep _ 0%Q (f (0%nat, 0%Q))) by (rewrite map_length; unfold enumerate; rewrite enumerate_from_length; lia).
  rewrite (map_nth f). unfold enumerate. rewrite nth_enumerate_from by lia. unfold f. cbn [fst snd]. simpl (0 + i)%nat.
  assert (Hw : (w = 51 /\ 51 < L)%nat \/ (w = 3 /\ L <= 51)%nat).
  { unfold w. destruct (Nat.ltb_spec 51 L); [left|right]; lia. }
  assert (Hh : (2 * h + 1 = w)%nat) by (unfold h; destruct Hw as [[-> _]|[-> _]]; reflexivity).
  assert (HwL : (w <= L)%nat) by (destruct Hw as [[-> ?]|[-> ?]]; fold L in HL; lia).
  unfold clamp.
  destruct (Nat.ltb_spec i h) as [H1|H1].
  - unfold c. rewrite nth_convolve_same by (fold L; lia). fold h.
    replace (Nat.min (Nat.max i h) (L - 1 - h)) with h by lia. reflexivity.
  - destruct (Nat.leb_spec (L - h) i) as [H2|H2].
    + unfold c. rewrite nth_convolve_same by (fold L; lia). fold h.
      replace (Nat.min (Nat.max i h) (L - 1 - h)) with (L - (h + 1))%nat by lia. reflexivity.
    + unfold c. rewrite nth_convolve_same by (fold L; lia). fold h.
      replace (Nat.min (Nat.max i h) (L - 1 - h)) with i by lia. reflexivity.
Qed.

(* ---------- the radiance chain is the documented formula, over any numeric instance ---------- *)
Theorem chain_formula (N : NumSig) r tbb cs cbb ce :
  let q := ofQ N in
  let tsbb := add N (q (i_a r)) (mul N (q (i_b r)) tbb) in
  let nbb := div N (q (c1 * i_nu r * i_nu r * i_nu r)) (sub N (expT N (div N (q (c2 * i_nu r)) tsbb)) (q 1)) in
  let nlin := add N (q (i_ns r)) (div N (mul N (sub N nbb (q (i_ns r))) (sub N cs ce)) (sub N cs cbb)) in
  let ne := add N nlin (add N (add N (q (i_b0 r)) (mul N (q (i_b1 r)) nlin)) (mul N (mul N (q (i_b2 r)) nlin) nlin)) in
  bt_raw N r tbb cs cbb ce =
  div N (sub N (div N (q (c2 * i_nu r)) (lnT N (add N (q 1) (div N (q (c1 * i_nu r * i_nu r * i_nu r)) ne)))) (q (i_a r))) (q (i_b r)).
Proof. reflexivity. Qed.

(* range mask: a value is delivered only inside [170, 350] K; for 3b a count not below the space count gives NaN *)
Theorem range_mask (N : NumSig) chan3 r tbb cs cbb ce v :
  bt N chan3 r tbb cs cbb ce = Some v ->
  ltb N v (ofQ N 170) = false /\ ltb N (ofQ N 350) v = false.
Proof.
  unfold bt. destruct (chan3 && negb (ltb N ce cs));
  destruct (ltb N _ (ofQ N 170)) eqn:E1; destruct (ltb N (ofQ N 350) _) eqn:E2; simpl; try discriminate;
  intros H; injection H as <-; auto.
Qed.
