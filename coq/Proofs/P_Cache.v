From Coq Require Import List Bool Arith Lia.
From PV Require Import M_Cache.
Import ListNotations.

Section CacheProofs.
  Variables Times LonLat Meta Obs : Type.
  Variable T0 : Times.
  Variable L0 : LonLat.
  Variable drift_applies : bool.
  Variable shift_times : Times -> Times.
  Variable shift_lonlat : LonLat -> Times -> LonLat.
  Variable finish_lonlat : LonLat -> LonLat.
  Variable meta_of : Times -> Meta.

  Notation rstate := (rstate Times LonLat Meta).
  Notation do_times := (do_times Times LonLat Meta T0).
  Notation do_lonlat := (do_lonlat Times LonLat Meta T0 L0 drift_applies shift_times shift_lonlat finish_lonlat meta_of).
  Notation step := (step Times LonLat Meta T0 L0 drift_applies shift_times shift_lonlat finish_lonlat meta_of).
  Notation run := (run Times LonLat Meta T0 L0 drift_applies shift_times shift_lonlat finish_lonlat meta_of).
  Notation fin_t := (final_times Times T0 drift_applies shift_times).
  Notation fin_l := (final_lonlat Times LonLat T0 L0 drift_applies shift_lonlat finish_lonlat).

  (* the invariant: before the first coordinate computation nothing is shifted and no meta data exist;
     afterwards every cache holds its canonical (final) value *)
  Definition Inv (s : rstate) : Prop :=
    match r_lonlat _ _ _ s with
    | None => r_meta _ _ _ s = None /\ r_shifted _ _ _ s = false /\
              (r_times _ _ _ s = None \/ r_times _ _ _ s = Some T0)
    | Some l => l = fin_l /\ r_times _ _ _ s = Some fin_t /\ r_meta _ _ _ s = Some (meta_of fin_t) /\
                r_shifted _ _ _ s = drift_applies
    end.

  Lemma inv_init : Inv (r_init Times LonLat Meta).
  Proof. unfold Inv, r_init. simpl. auto. Qed.

  Lemma do_times_inv s : Inv s -> Inv (fst (do_times s)) /\
    snd (do_times s) = match r_lonlat _ _ _ s with None => T0 | Some _ => fin_t end.
  Proof.
    unfold Inv, M_Cache.do_times. destruct s as [t l m sh]. simpl.
    destruct l as [l|]; intros H.
    - destruct H as [H1 [H2 [H3 H4]]]. subst t. simpl. auto.
    - destruct H as [H1 [H2 [H3|H3]]]; subst; simpl; auto.
  Qed.

  Lemma do_lonlat_inv s : Inv s ->
    let r := do_lonlat s in
    Inv (fst r) /\ snd r = fin_l /\ r_lonlat _ _ _ (fst r) <> None.
  Proof.
    unfold Inv, M_Cache.do_lonlat, M_Cache.do_times, M_Cache.final_times, M_Cache.final_lonlat.
    destruct s as [t l m sh]. simpl.
    destruct l as [l|]; intros H.
    - destruct H as [H1 [H2 [H3 H4]]]. subst. simpl. repeat split; auto. discriminate.
    - destruct H as [H1 [H2 H3]]. subst m sh.
      destruct H3 as [H3|H3]; subst t; simpl; destruct drift_applies; simpl; repeat split; auto; discriminate.
  Qed.

  (* has a coordinate-producing operation occurred? *)
  Definition computed (s : rstate) : bool := match r_lonlat _ _ _ s with None => false | Some _ => true end.

  Lemma do_times_computed s : computed (fst (do_times s)) = computed s.
  Proof. unfold computed, M_Cache.do_times. destruct (r_times _ _ _ s); reflexivity. Qed.

  Lemma computed_true s : r_lonlat _ _ _ s <> None -> computed s = true.
  Proof. unfold computed. destruct (r_lonlat _ _ _ s); congruence. Qed.

  (* canonical observation of an operation issued in a state where coordinates were / were not computed before *)
  Definition canon (before : bool) (o : op) : observation Times LonLat Meta :=
    match o with
    | OpTimes => ObsTimes _ _ _ (if before then fin_t else T0)
    | OpLonLat => ObsLonLat _ _ _ fin_l
    | OpDataset | OpCalibrated => ObsDataset _ _ _ fin_t fin_l (meta_of fin_t)
    | OpAngles | OpSave => ObsAngles _ _ _ fin_t fin_l
    | OpMetaRead => ObsMeta _ _ _ (if before then Some (meta_of fin_t) else None)
    end.

  Lemma step_inv s o : Inv s ->
    Inv (fst (step s o)) /\ snd (step s o) = canon (computed s) o /\
    computed (fst (step s o)) = computed s || coord_op o.
  Proof.
    intros H. destruct o; unfold M_Cache.step.
    - (* OpTimes *)
      destruct (do_times_inv s H) as [A B]. destruct (do_times s) as [s' t] eqn:E. simpl in *.
      split; [assumption|]. split.
      + unfold canon, computed. rewrite B. destruct (r_lonlat _ _ _ s); reflexivity.
      + pose proof (do_times_computed s) as Hc. rewrite E in Hc. simpl in Hc. rewrite Hc, orb_false_r. reflexivity.
    - (* OpLonLat *)
      destruct (do_lonlat_inv s H) as [A [B C]]. destruct (do_lonlat s) as [s' l] eqn:E. simpl in *.
      split; [assumption|]. split; [rewrite B; reflexivity|].
      unfold computed. destruct (r_lonlat _ _ _ s'); [|congruence]. rewrite orb_true_r. reflexivity.
    - (* OpDataset *)
      destruct (do_lonlat_inv s H) as [A [B C]]. destruct (do_lonlat s) as [s1 l] eqn:E1. simpl in *.
      destruct (do_times_inv s1 A) as [A2 B2]. destruct (do_times s1) as [s2 t] eqn:E2. simpl in *.
      split; [assumption|]. split.
      + rewrite B2, B. destruct (r_lonlat _ _ _ s1); [reflexivity|congruence].
      + pose proof (do_times_computed s1) as Hc. rewrite E2 in Hc. simpl in Hc.
        rewrite Hc, (computed_true s1 C), orb_true_r. reflexivity.
    - (* OpCalibrated *)
      destruct (do_lonlat_inv s H) as [A [B C]]. destruct (do_lonlat s) as [s1 l] eqn:E1. simpl in *.
      destruct (do_times_inv s1 A) as [A2 B2]. destruct (do_times s1) as [s2 t] eqn:E2. simpl in *.
      split; [assumption|]. split.
      + rewrite B2, B. destruct (r_lonlat _ _ _ s1); [reflexivity|congruence].
      + pose proof (do_times_computed s1) as Hc. rewrite E2 in Hc. simpl in Hc.
        rewrite Hc, (computed_true s1 C), orb_true_r. reflexivity.
    - (* OpAngles *)
      destruct (do_times_inv s H) as [A0 _]. destruct (do_times s) as [s1 t0] eqn:E0. simpl in *.
      destruct (do_lonlat_inv s1 A0) as [A [B C]]. destruct (do_lonlat s1) as [s2 l] eqn:E1. simpl in *.
      destruct (do_times_inv s2 A) as [A2 B2]. destruct (do_times s2) as [s3 t] eqn:E2. simpl in *.
      split; [assumption|]. split.
      + rewrite B2, B. destruct (r_lonlat _ _ _ s2); [reflexivity|congruence].
      + pose proof (do_times_computed s2) as Hc. rewrite E2 in Hc. simpl in Hc.
        rewrite Hc, (computed_true s2 C), orb_true_r. reflexivity.
    - (* OpMetaRead *)
      simpl. split; [assumption|]. split; [|rewrite orb_false_r; reflexivity].
      unfold canon, computed, Inv in *. destruct (r_lonlat _ _ _ s).
      + destruct H as [_ [_ [-> _]]]. reflexivity.
      + destruct H as [-> _]. reflexivity.
    - (* OpSave *)
      destruct (do_times_inv s H) as [A0 _]. destruct (do_times s) as [s1 t0] eqn:E0. simpl in *.
      destruct (do_lonlat_inv s1 A0) as [A [B C]]. destruct (do_lonlat s1) as [s2 l] eqn:E1. simpl in *.
      destruct (do_times_inv s2 A) as [A2 B2]. destruct (do_times s2) as [s3 t] eqn:E2. simpl in *.
      split; [assumption|]. split.
      + rewrite B2, B. destruct (r_lonlat _ _ _ s2); [reflexivity|congruence].
      + pose proof (do_times_computed s2) as Hc. rewrite E2 in Hc. simpl in Hc.
        rewrite Hc, (computed_true s2 C), orb_true_r. reflexivity.
  Qed.

  (* canonical observations of a whole history *)
  Fixpoint canon_run (before : bool) (ops : list op) : list (observation Times LonLat Meta) :=
    match ops with [] => [] | o :: r => canon before o :: canon_run (before || coord_op o) r end.

  Theorem run_canonical ops : forall s, Inv s ->
    Inv (fst (run s ops)) /\ snd (run s ops) = canon_run (computed s) ops /\
    computed (fst (run s ops)) = computed s || existsb coord_op ops.
  Proof.
    induction ops as [|o r IH]; intros s H.
    - simpl. rewrite orb_false_r. auto.
    - cbn [M_Cache.run]. destruct (step_inv s o H) as [A [B C]].
      destruct (step s o) as [s' ob] eqn:E. simpl in A, B, C.
      destruct (IH s' A) as [A' [B' C']]. destruct (run s' r) as [s'' obs] eqn:E'. simpl in *.
      split; [assumption|]. split.
      + rewrite B, B', C. reflexivity.
      + rewrite C', C. rewrite orb_assoc. reflexivity.
  Qed.

  (* the stored meta data always describe the times that are returned from then on *)
  Theorem meta_describes_final ops m :
    r_meta _ _ _ (fst (run (r_init _ _ _) ops)) = Some m ->
    m = meta_of fin_t /\ r_times _ _ _ (fst (run (r_init _ _ _) ops)) = Some fin_t.
  Proof.
    destruct (run_canonical ops (r_init _ _ _) inv_init) as [A _]. unfold Inv in A.
    destruct (r_lonlat _ _ _ (fst (run (r_init _ _ _) ops))).
    - destruct A as [_ [Ht [Hm _]]]. rewrite Hm. intros H. injection H as <-. auto.
    - destruct A as [Hm _]. rewrite Hm. discriminate.
  Qed.

  (* the clock drift shift is applied at most once, and exactly once iff a coordinate-producing operation occurred *)
  Theorem shift_exactly_once ops :
    let s := fst (run (r_init _ _ _) ops) in
    r_shifted _ _ _ s = drift_applies && existsb coord_op ops /\
    (r_times _ _ _ s = None \/ r_times _ _ _ s = Some (if existsb coord_op ops then fin_t else T0)).
  Proof.
    destruct (run_canonical ops (r_init _ _ _) inv_init) as [A [_ C]]. cbv zeta.
    unfold Inv, computed in *. simpl in C.
    destruct (r_lonlat _ _ _ (fst (run (r_init _ _ _) ops))).
    - destruct A as [_ [Ht [_ Hs]]]. rewrite <- C. rewrite Hs, Ht, andb_true_r. auto.
    - destruct A as [_ [Hs Ht]]. rewrite <- C. rewrite Hs, andb_false_r. auto.
  Qed.
End CacheProofs.
