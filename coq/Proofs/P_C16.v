From Coq Require Import String List Bool ZArith QArith.
From PV Require Import M_Coeffs Gen_Coeffs Gen_Consts.
Import ListNotations.
Open Scope string_scope.

Section P.
  Variable V Arr : Type.
  Variable build : string -> list (string * V) -> Arr.
  Notation request := (request V Arr build).
  Notation run_requests := (run_requests V Arr build).
  Notation spec := (spec V Arr build).

  Definition same_file (a b : option string) : bool :=
    match a, b with None, None => true | Some x, Some y => String.eqb x y | _, _ => false end.

  Lemma same_file_eq a b : same_file a b = true -> a = b.
  Proof. destruct a, b; simpl; try discriminate; auto. intros H. apply String.eqb_eq in H. congruence. Qed.

  (* invariant of the class-level cache: what is cached is the content of the file it is keyed by *)
  Definition CInv (F : fs V) (s : cstate V) : Prop :=
    match cs_loaded V s with None => True | Some c => F (cs_file V s) = Some c end.

  Lemma request_pure F s sc cu f : CInv F s ->
    CInv F (fst (request F s sc cu f)) /\ snd (request F s sc cu f) = spec F sc cu f.
  Proof.
    intros H. unfold M_Coeffs.request, M_Coeffs.spec, CInv in *.
    destruct s as [sf sl]. simpl in *.
    destruct sl as [c|].
    - fold (same_file sf f). destruct (same_file sf f) eqn:E; simpl.
      + apply same_file_eq in E. subst f. rewrite H.
        destruct (lookup sc (c_table V c)); simpl; auto.
      + destruct (F f) as [c'|] eqn:Ef; simpl; [|auto].
        destruct (lookup sc (c_table V c')); simpl; auto.
    - destruct (F f) as [c'|] eqn:Ef; simpl; [|auto].
      destruct (lookup sc (c_table V c')); simpl; auto.
  Qed.

  (* every request of every history returns the pure function of its own arguments and the file content *)
  Theorem history_pure F reqs : forall s, CInv F s ->
    CInv F (fst (run_requests F s reqs)) /\
    snd (run_requests F s reqs) = map (fun r => let '(sc, cu, f) := r in spec F sc cu f) reqs.
  Proof.
    induction reqs as [|[[sc cu] f] r IH]; intros s H; [simpl; auto|].
    cbn [M_Coeffs.run_requests]. destruct (request_pure F s sc cu f H) as [A B].
    destruct (request F s sc cu f) as [s' o]. simpl in *.
    destruct (IH s' A) as [A' B']. destruct (run_requests F s' r) as [s'' os]. simpl in *.
    split; [assumption|]. rewrite B, B'. reflexivity.
  Qed.

  (* custom coefficients replace exactly the top-level entries they name *)
  Lemma lookup_set_key k v d k' : lookup k' (set_key V k v d) = if String.eqb k' k then Some v else lookup k' d.
  Proof.
    induction d as [|[k0 v0] r IH]; simpl.
    - destruct (String.eqb k' k); reflexivity.
    - destruct (String.eqb_spec k k0) as [->|Hne]; simpl.
      + destruct (String.eqb_spec k' k0); reflexivity.
      + destruct (String.eqb_spec k' k0) as [->|Hne'].
        * destruct (String.eqb_spec k0 k); [congruence|reflexivity].
        * exact IH.
  Qed.

  Theorem update_exact c : forall d k, lookup k (update V d c) =
    match lookup k (rev c) with Some v => Some v | None => lookup k d end.
  Proof.
    unfold update. induction c as [|[k0 v0] r IH]; intros d k; [reflexivity|].
    cbn [fold_left fst snd]. rewrite IH. cbn [rev].
    assert (Happ : forall (l1 l2 : list (string * V)), lookup k (l1 ++ l2) =
              match lookup k l1 with Some v => Some v | None => lookup k l2 end).
    { induction l1 as [|[a b] l1 IHl]; intros l2; simpl; [reflexivity|]. destruct (String.eqb k a); auto. }
    rewrite Happ. destruct (lookup k (rev r)); [reflexivity|].
    rewrite lookup_set_key. simpl. destruct (String.eqb k k0); reflexivity.
  Qed.

  Corollary update_untouched d c k : lookup k (rev c) = None -> lookup k (update V d c) = lookup k d.
  Proof. intros H. rewrite update_exact, H. reflexivity. Qed.

  (* version: known name iff the file is recognised and no custom coefficients are given *)
  Theorem version_rule F sc cu f c defaults :
    F f = Some c -> lookup sc (c_table V c) = Some defaults ->
    spec F sc cu f = Result Arr (build sc (update V defaults cu)) (match cu with [] => c_version V c | _ => None end).
  Proof. intros H1 H2. unfold M_Coeffs.spec. rewrite H1, H2. reflexivity. Qed.
End P.

(* ---------- completeness of the shipped file (generated tables: decided by computation) ---------- *)
Definition has_complete (name : string) : bool :=
  existsb (fun c => String.eqb (sc_name c) name && sc_complete c) all_coeffs.

Lemma shipped_complete :
  forallb (fun p => has_complete (snd p)) pod_spacecraft_names = true /\
  forallb (fun p => has_complete (snd p)) klm_spacecraft_names = true.
Proof. split; vm_compute; reflexivity. Qed.

Lemma seventeen : length (filter sc_complete all_coeffs) = 17%nat.
Proof. vm_compute. reflexivity. Qed.

(* the shipped file's md5 is registered: it has a known version name *)
Fixpoint lookup_s (k : string) (d : list (string * string)) : option string :=
  match d with [] => None | (k', v) :: r => if String.eqb k k' then Some v else lookup_s k r end.
Lemma shipped_version_known : lookup_s coeff_file_md5 version_hashs <> None.
Proof. vm_compute. discriminate. Qed.
