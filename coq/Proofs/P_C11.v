From Coq Require Import ZArith List Bool Arith Lia.
From PV Require Import Median M_ScanNo.
Import ListNotations.
Open Scope Z_scope.

(* ---------- order-preserving sublists ---------- *)
Inductive Sublist {A} : list A -> list A -> Prop :=
| sl_nil : Sublist [] []
| sl_skip x l1 l2 : Sublist l1 l2 -> Sublist l1 (x :: l2)
| sl_keep x l1 l2 : Sublist l1 l2 -> Sublist (x :: l1) (x :: l2).

Lemma sublist_refl {A} (l : list A) : Sublist l l.
Proof. induction l; [apply sl_nil|apply sl_keep; assumption]. Qed.

Lemma sublist_nil {A} (l : list A) : Sublist [] l.
Proof. induction l; [apply sl_nil|apply sl_skip; assumption]. Qed.

Lemma sublist_trans {A} (a b c : list A) : Sublist a b -> Sublist b c -> Sublist a c.
Proof.
  intros Hab Hbc. revert a Hab. induction Hbc as [|x b c Hbc IH|x b c Hbc IH]; intros a Hab.
  - assumption.
  - apply sl_skip. apply IH. assumption.
  - inversion Hab; subst.
    + apply sl_skip. apply IH. assumption.
    + apply sl_keep. apply IH. assumption.
Qed.

Lemma sublist_In {A} (a b : list A) x : Sublist a b -> In x a -> In x b.
Proof. induction 1; simpl; intros; auto. destruct H0; auto. Qed.

Lemma filter_sublist {A} (f : A -> bool) l : Sublist (filter f l) l.
Proof. induction l as [|x l IH]; simpl; [constructor|]. destruct (f x); [apply sl_keep|apply sl_skip]; auto. Qed.

Lemma filter_by_sublist {A} keep (l : list A) : Sublist (filter_by keep l) l.
Proof.
  revert keep. induction l as [|x l IH]; intros keep.
  - destruct keep; simpl; constructor.
  - destruct keep as [|k ks]; simpl; [apply sublist_nil|]. destruct k; [apply sl_keep|apply sl_skip]; apply IH.
Qed.

Lemma skipn_sublist {A} k (l : list A) : Sublist (skipn k l) l.
Proof.
  revert k. induction l as [|x l IH]; intros k; destruct k; simpl; try apply sl_nil.
  - apply sublist_refl.
  - apply sl_skip. apply IH.
Qed.

Lemma sublist_app_l {A} (a b : list A) : Sublist a (a ++ b).
Proof. induction a; simpl; [apply sublist_nil|apply sl_keep; auto]. Qed.

(* ---------- T1: only ever removes records, order kept ---------- *)
Lemma klm_sublist A max (l : list (Z * A)) : Sublist (klm_sanitize max l) l.
Proof.
  unfold klm_sanitize, base_sanitize. eapply sublist_trans; [apply filter_by_sublist|apply filter_sublist].
Qed.

Lemma base_sublist A max (l : list (Z * A)) : Sublist (base_sanitize max l) l.
Proof. apply klm_sublist. Qed.

(* ---------- T2: POD = sublist of a rotation of the base result ---------- *)
Lemma pod_rotation A max (l : list (Z * A)) out : pod_sanitize max l = Some out ->
  exists k, Sublist out (skipn k (base_sanitize max l) ++ firstn k (base_sanitize max l)).
Proof.
  unfold pod_sanitize. destruct (base_sanitize max l) as [|first b] eqn:Hb; [discriminate|].
  cbv zeta. intros H. injection H as <-.
  eexists.
  destruct (fst first =? _).
  - apply filter_sublist.
  - eapply sublist_trans; [apply filter_sublist|]. apply sublist_app_l.
Qed.

(* ---------- T3: range ---------- *)
Lemma base_range A max (l : list (Z * A)) r : In r (base_sanitize max l) -> 0 <= fst r < max.
Proof.
  intros H. unfold base_sanitize in H.
  apply (sublist_In _ _ _ (filter_by_sublist _ _)) in H. apply filter_In in H. destruct H as [_ H].
  unfold in_range_b in H. apply andb_prop in H. destruct H as [H1 H2].
  apply Z.ltb_lt in H1. apply Z.leb_le in H2. lia.
Qed.

Lemma in_rot {A} k (b : list A) x : In x (skipn k b ++ firstn k b) -> In x b.
Proof.
  intros H. apply in_app_or in H. rewrite <- (firstn_skipn k b). apply in_or_app. tauto.
Qed.

Lemma pod_range A max (l : list (Z * A)) out r : pod_sanitize max l = Some out -> In r out -> 1 <= fst r < max.
Proof.
  unfold pod_sanitize. destruct (base_sanitize max l) as [|first b] eqn:Hb; [discriminate|].
  cbv zeta. intros H Hin. injection H as <-.
  apply filter_In in Hin. destruct Hin as [Hin Hnz].
  assert (Hb' : In r (base_sanitize max l)).
  { rewrite Hb. destruct (fst first =? _) in Hin.
    - eapply in_rot. exact Hin.
    - eapply sublist_In; [apply skipn_sublist|exact Hin]. }
  apply base_range in Hb'. apply negb_true_iff in Hnz. apply Z.eqb_neq in Hnz. lia.
Qed.

(* ---------- the fixed-threshold analysis ---------- *)
(* number of records whose number is not c + position (position counted from i) *)
Fixpoint corrupt_count (c i : Z) (ns : list Z) : nat :=
  match ns with [] => O | n :: r => Nat.add (if (n =? c + i)%Z then O else S O) (corrupt_count c (i + 1)%Z r) end.

Lemma offsets_length i ns : length (offsets_from i ns) = length ns.
Proof. revert i; induction ns; simpl; auto. Qed.

Lemma count_intact c : forall ns i,
  (count_occ Z.eq_dec (offsets_from i ns) c + corrupt_count c i ns = length ns)%nat.
Proof.
  induction ns as [|n r IH]; intros i; cbn [offsets_from count_occ corrupt_count length]; [reflexivity|].
  specialize (IH (i + 1)).
  destruct (Z.eq_dec (n - i) c), (Z.eqb_spec n (c + i)); lia.
Qed.

Lemma nz_count c : forall ns i,
  length (filter (fun x => 0 <? x) (diffs2_from (2 * c) i ns)) = corrupt_count c i ns.
Proof.
  induction ns as [|n r IH]; intros i; cbn [diffs2_from filter corrupt_count]; [reflexivity|].
  specialize (IH (i + 1)).
  destruct (Z.ltb_spec 0 (Z.abs (2 * n - (2 * i + 2 * c)))), (Z.eqb_spec n (c + i)); cbn [length]; lia.
Qed.

(* keep flags of the fixed threshold: |n - expected| <= 500 *)
Fixpoint keep500_from (e : Z) (ns : list Z) : list bool :=
  match ns with [] => [] | n :: r => (Z.abs (n - e) <=? 500) :: keep500_from (e + 1) r end.

Lemma keep_fixed nz d2 : (length nz < 50)%nat -> keep_decision nz d2 = (d2 <=? 1000).
Proof.
  intros H. unfold keep_decision. destruct (Z.ltb_spec (Z.of_nat (length nz)) 50); [reflexivity|lia].
Qed.

Lemma map_keep_fixed nz c : (length nz < 50)%nat -> forall ns i,
  map (keep_decision nz) (diffs2_from (2 * c) i ns) = keep500_from (c + i) ns.
Proof.
  intros Hnz. induction ns as [|n r IH]; intros i; cbn [diffs2_from map keep500_from]; [reflexivity|].
  rewrite keep_fixed by assumption. rewrite IH. f_equal.
  - destruct (Z.leb_spec (Z.abs (2 * n - (2 * i + 2 * c))) 1000), (Z.leb_spec (Z.abs (n - (c + i))) 500); lia.
  - f_equal. lia.
Qed.

Lemma filter_all_true {A} (f : A -> bool) l : Forall (fun x => f x = true) l -> filter f l = l.
Proof. induction 1; simpl; auto. rewrite H. f_equal. assumption. Qed.

(* T5 core: minority of corrupted, fewer than 50: the keep flags are exactly |n - expected| <= 500 *)
Theorem base_exact_500 A max first (l : list (Z * A)) :
  let ns := map fst l in
  Forall (fun r => 0 <= fst r < max) l ->
  (corrupt_count (first - 1) 1 ns < 50)%nat -> (2 * corrupt_count (first - 1) 1 ns < length ns)%nat ->
  base_sanitize max l = filter_by (keep500_from first ns) l.
Proof.
  intros ns Hr H50 Hmin. unfold base_sanitize.
  assert (Hf : filter (in_range_b max) l = l).
  { apply filter_all_true. eapply Forall_impl; [|exact Hr]. intros r [H1 H2]. unfold in_range_b.
    apply andb_true_intro. split; [apply Z.ltb_lt|apply Z.leb_le]; lia. }
  rewrite Hf. fold ns. unfold diffs2.
  set (c := first - 1) in *.
  assert (Hmed : median2 (offsets_from 1 ns) = 2 * c).
  { apply median2_majority. rewrite offsets_length. pose proof (count_intact c ns 1). lia. }
  rewrite Hmed.
  rewrite map_keep_fixed by (rewrite nz_count; assumption).
  replace (c + 1) with first by (unfold c; lia). reflexivity.
Qed.

(* T4: a gap-free pass is kept whole *)
Fixpoint gapfree_from (e : Z) (ns : list Z) : Prop :=
  match ns with [] => True | n :: r => n = e /\ gapfree_from (e + 1) r end.

Lemma gapfree_corrupt c : forall ns i, gapfree_from (c + i) ns -> corrupt_count c i ns = 0%nat.
Proof.
  induction ns as [|n r IH]; intros i H; simpl in *; [reflexivity|].
  destruct H as [-> H]. rewrite Z.eqb_refl. simpl. apply IH. replace (c + (i + 1)) with (c + i + 1) by lia. assumption.
Qed.

Lemma gapfree_keep500 : forall ns e, gapfree_from e ns -> keep500_from e ns = map (fun _ => true) ns.
Proof.
  induction ns as [|n r IH]; intros e H; simpl in *; [reflexivity|].
  destruct H as [-> H]. rewrite Z.sub_diag. simpl. f_equal. apply IH. assumption.
Qed.

Lemma filter_by_all_true {A} (l : list A) : filter_by (map (fun _ => true) l) l = l.
Proof. induction l; simpl; auto. f_equal. assumption. Qed.

Lemma filter_by_same_len {A B} (l : list A) (m : list B) : length m = length l -> filter_by (map (fun _ => true) m) l = l.
Proof. revert m. induction l; intros m H; destruct m; simpl in *; try lia; auto. f_equal. apply IHl. lia. Qed.

Theorem base_gapfree_kept A max first (l : list (Z * A)) :
  l <> [] -> Forall (fun r => 0 <= fst r < max) l -> gapfree_from first (map fst l) ->
  base_sanitize max l = l.
Proof.
  intros Hne Hr Hg.
  assert (Hc : corrupt_count (first - 1) 1 (map fst l) = 0%nat).
  { apply gapfree_corrupt. replace (first - 1 + 1) with first by lia. assumption. }
  rewrite (base_exact_500 A max first l Hr) by (rewrite Hc; destruct l; simpl; [congruence|lia]).
  rewrite gapfree_keep500 by assumption. apply filter_by_same_len. apply map_length.
Qed.

(* POD: when the first surviving record carries the lowest |number|, nothing is rotated or dropped *)
Lemma pod_min_first A max (l : list (Z * A)) first b :
  base_sanitize max l = first :: b ->
  fst first = list_min (map Z.abs (map fst (first :: b))) ->
  pod_sanitize max l = Some (filter (fun r => negb (fst r =? 0)) (first :: b)).
Proof.
  intros Hb Hmin. unfold pod_sanitize. rewrite Hb.
  assert (Hk : index_of (list_min (map Z.abs (map fst (first :: b)))) (map fst (first :: b)) = 0%nat).
  { rewrite <- Hmin. simpl. rewrite Z.eqb_refl. reflexivity. }
  rewrite Hk. simpl skipn. simpl firstn. rewrite app_nil_r.
  destruct (fst first =? _); reflexivity.
Qed.

(* the minority hypothesis is needed: two of three entries off by 699 -> the intact record is the one removed *)
Lemma exact_500_minority_needed :
  map fst (klm_sanitize 15000 [(1, 0%nat); (700, 1%nat); (701, 2%nat)]) = [700; 701].
Proof. vm_compute. reflexivity. Qed.
