From Coq Require Import ZArith List Bool Arith Lia.
From PV Require Import Median M_ScanNo.
Import ListNotations.
Open Scope Z_scope.

(* ---------- order-preserving sublists ---------- *)
Inductive Sublist {A} : list A -> list A -> Prop :=
| sl_nil : Sublist [] []
| sl_skip x l1 l2 : Sublist l1 l2 -> Sublist l1 (x :: l2)
| sl_keep x l1 l2 : Sublist l1 l2 -> Sublist (x :: l1) (x :: l2).

Lemma sublist_refl {A} (l : list A) : Sublist l l.
Proof. induction l; [apply sl_nil|apply sl_keep; assumption]. Qed.

Lemma sublist_nil {A} (l : list A) : Sublist [] l.
Proof. induction l; [apply sl_nil|apply sl_skip; assumption]. Qed.

Lemma sublist_trans {A} (a b c : list A) : Sublist a b -> Sublist b c -> Sublist a c.
Proof.
  intros Hab Hbc. revert a Hab. induction Hbc as [|x b c Hbc IH|x b c Hbc IH]; intros a Hab.
  - assumption.
  - apply sl_skip. apply IH. assumption.
  - inversion Hab; subst.
    + apply sl_skip. apply IH. assumption.
    + apply sl_keep. apply IH. assumption.
Qed.

Lemma sublist_In {A} (a b : list A) x : Sublist a b -> In x a -> In x b.
Proof. induction 1; simpl; intros; auto. destruct H0; auto. Qed.

Lemma filter_sublist {A} (f : A -> bool) l : Sublist (filter f l) l.
Proof. induction l as [|x l IH]; simpl; [constructor|]. destruct (f x); [apply sl_keep|apply sl_skip]; auto. Qed.

Lemma filter_by_sublist {A} keep (l : list A) : Sublist (filter_by keep l) l.
Proof.
  revert keep. induction l as [|x l IH]; intros keep.
  - destruct keep; simpl; constructor.
  - destruct keep as [|k ks]; simpl; [apply sublist_nil|]. destruct k; [apply sl_keep|apply sl_skip]; apply IH.
Qed.

Lemma skipn_sublist {A} k (l : list A) : Sublist (skipn k l) l.
Proof.
  revert k. induction l as [|x l IH]; intros k; destruct k; simpl; try apply sl_nil.
  - apply sublist_refl.
  - apply sl_skip. apply IH.
Qed.

Lemma sublist_app_l {A} (a b : list A) : Sublist a (a ++ b).
Proof. induction a; simpl; [apply sublist_nil|apply sl_keep; auto]. Qed.

(* ---------- T1: only ever removes records, order kept ---------- *)
Lemma klm_sublist A max (l : list (Z * A)) : Sublist (klm_sanitize max l) l.
Proof.
  unfold klm_sanitize, base_sanitize. eapply sublist_trans; [apply filter_by_sublist|apply filter_sublist].
Qed.

Lemma base_sublist A max (l : list (Z * A)) : Sublist (base_sanitize max l) l.
Proof. apply klm_sublist. Qed.

(* ---------- T2: POD = sublist of a rotation of the base result ---------- *)
Definition pod_base A max (l : list (Z * A)) := filter (nonzero A) (base_sanitize max l).

Lemma pod_base_sublist A max (l : list (Z * A)) : Sublist (pod_base A max l) l.
Proof. unfold pod_base. eapply sublist_trans; [apply filter_sublist|apply base_sublist]. Qed.

Lemma pod_rotation A max (l : list (Z * A)) out : pod_sanitize max l = Some out ->
  exists k, out = skipn k (pod_base A max l) ++ firstn k (pod_base A max l) \/ out = skipn k (pod_base A max l).
Proof.
  unfold pod_sanitize. fold (pod_base A max l). destruct (pod_base A max l) as [|first b] eqn:Hb; [discriminate|].
  cbv zeta. intros H. injection H as <-. eexists. destruct (fst first =? _); [left|right]; reflexivity.
Qed.

(* ---------- T3: range ---------- *)
Lemma base_range A max (l : list (Z * A)) r : In r (base_sanitize max l) -> 0 <= fst r < max.
Proof.
  intros H. unfold base_sanitize in H.
  apply (sublist_In _ _ _ (filter_by_sublist _ _)) in H. apply filter_In in H. destruct H as [_ H].
  unfold in_range_b in H. apply andb_prop in H. destruct H as [H1 H2].
  apply Z.ltb_lt in H1. apply Z.leb_le in H2. lia.
Qed.

Lemma in_rot {A} k (b : list A) x : In x (skipn k b ++ firstn k b) -> In x b.
Proof.
  intros H. apply in_app_or in H. rewrite <- (firstn_skipn k b). apply in_or_app. tauto.
Qed.

Lemma pod_range A max (l : list (Z * A)) out r : pod_sanitize max l = Some out -> In r out -> 1 <= fst r < max.
Proof.
  intros H Hin. destruct (pod_rotation A max l out H) as [k [-> | ->]].
  - apply in_rot in Hin. unfold pod_base in Hin. apply filter_In in Hin. destruct Hin as [Hb Hnz].
    apply base_range in Hb. unfold nonzero in Hnz. apply negb_true_iff in Hnz. apply Z.eqb_neq in Hnz. lia.
  - apply (sublist_In _ _ _ (skipn_sublist k _)) in Hin. unfold pod_base in Hin. apply filter_In in Hin. destruct Hin as [Hb Hnz].
    apply base_range in Hb. unfold nonzero in Hnz. apply negb_true_iff in Hnz. apply Z.eqb_neq in Hnz. lia.
Qed.

(* the lowest number comes first *)
Lemma list_min_acc_le_a : forall l a, fold_left Z.min l a <= a.
Proof. induction l as [|y l IH]; intros a; simpl; [lia|]. eapply Z.le_trans; [apply IH|]. lia. Qed.

Lemma list_min_acc_le : forall l a x, In x l -> fold_left Z.min l a <= x.
Proof.
  induction l as [|y l IH]; intros a x H; [destruct H|]. simpl. destruct H as [->|H].
  - eapply Z.le_trans; [apply list_min_acc_le_a|]. lia.
  - apply IH. assumption.
Qed.

Lemma list_min_acc_in : forall l a, fold_left Z.min l a = a \/ In (fold_left Z.min l a) l.
Proof.
  induction l as [|y l IH]; intros a; simpl; [left; reflexivity|].
  destruct (IH (Z.min a y)) as [H|H].
  - rewrite H. destruct (Z.min_spec a y) as [[_ E]|[_ E]]; rewrite E; auto.
  - right. right. assumption.
Qed.

Lemma list_min_in x l : In (list_min (x :: l)) (x :: l).
Proof. unfold list_min. simpl. destruct (list_min_acc_in l (Z.min x x)) as [H|H]; [rewrite H, Z.min_id; left; reflexivity|right; assumption]. Qed.

Lemma list_min_le x l y : In y (x :: l) -> list_min (x :: l) <= y.
Proof.
  unfold list_min. simpl. intros [->|H].
  - eapply Z.le_trans; [apply list_min_acc_le_a|]. lia.
  - apply list_min_acc_le. assumption.
Qed.

Lemma nth_index_of m : forall ns, In m ns -> nth (index_of m ns) ns 0 = m.
Proof.
  induction ns as [|x ns IH]; intros H; [destruct H|]. simpl. destruct (Z.eqb_spec x m) as [->|Hne]; [reflexivity|].
  destruct H as [->|H]; [congruence|]. apply IH. assumption.
Qed.

Lemma index_of_lt m : forall ns, In m ns -> (index_of m ns < length ns)%nat.
Proof.
  induction ns as [|x ns IH]; intros H; [destruct H|]. simpl. destruct (Z.eqb_spec x m); [lia|].
  destruct H as [->|H]; [congruence|]. specialize (IH H). lia.
Qed.

Lemma hd_skipn_nth {B} (l : list B) d : forall k, (k < length l)%nat -> hd d (skipn k l) = nth k l d.
Proof. induction l as [|x l IH]; intros k H; [simpl in H; lia|]. destruct k; simpl; [reflexivity|]. apply IH. simpl in H. lia. Qed.

Lemma skipn_nth_cons {B} (l : list B) d : forall k, (k < length l)%nat -> exists rest, skipn k l = nth k l d :: rest.
Proof.
  induction l as [|x l IH]; intros k Hk; [simpl in Hk; lia|].
  destruct k; simpl; [eexists; reflexivity|]. apply IH. simpl in Hk. lia.
Qed.

Theorem pod_lowest_first A max (l : list (Z * A)) out : pod_sanitize max l = Some out ->
  exists r rest, out = r :: rest /\ forall x, In x out -> fst r <= fst x.
Proof.
  unfold pod_sanitize. fold (pod_base A max l).
  assert (Hpos : forall x, In x (pod_base A max l) -> 1 <= fst x).
  { intros x Hx. unfold pod_base in Hx. apply filter_In in Hx. destruct Hx as [Hb Hnz]. apply base_range in Hb.
    unfold nonzero in Hnz. apply negb_true_iff in Hnz. apply Z.eqb_neq in Hnz. lia. }
  destruct (pod_base A max l) as [|first b] eqn:Hb; [discriminate|]. cbv zeta. intros H.
  set (bb := first :: b) in *. set (ns := map fst bb).
  assert (Habs : map Z.abs ns = ns).
  { unfold ns. rewrite map_map. apply map_ext_in. intros x Hx. apply Z.abs_eq. specialize (Hpos x Hx). lia. }
  pose proof (f_equal (fun o : option (list (Z * A)) => match o with Some v => v | None => out end) H) as Hout.
  cbv beta iota in Hout. fold ns in Hout. rewrite Habs in Hout.
  clear H. subst out. set (mn := list_min ns).
  assert (Hin : In mn ns) by (unfold mn, ns, bb; simpl; apply list_min_in).
  assert (Hle : forall y, In y ns -> mn <= y) by (intros y Hy; unfold mn, ns, bb in *; simpl in *; apply list_min_le; assumption).
  set (k := index_of mn ns).
  assert (Hk : (k < length bb)%nat) by (unfold k; rewrite <- (map_length fst bb); apply index_of_lt; assumption).
  assert (Hnth : fst (nth k bb first) = mn).
  { rewrite <- (map_nth fst bb first k). fold ns.
    rewrite (nth_indep ns (fst first) 0) by (unfold ns; rewrite map_length; exact Hk).
    unfold k. apply nth_index_of. exact Hin. }
  assert (Hsk : exists rest, skipn k bb = nth k bb first :: rest) by (apply skipn_nth_cons; exact Hk).
  destruct Hsk as [rest Hrest].
  assert (Hall : forall x, In x bb -> mn <= fst x) by (intros x Hx; apply Hle; unfold ns; apply in_map; assumption).
  destruct (fst first =? _).
  - exists (nth k bb first), (rest ++ firstn k bb). fold k. rewrite Hrest. split; [reflexivity|].
    intros x Hx. rewrite Hnth. apply Hall. apply (in_rot k bb x). rewrite Hrest. exact Hx.
  - exists (nth k bb first), rest. fold k. split; [exact Hrest|].
    intros x Hx. rewrite Hnth. apply Hall. eapply sublist_In; [apply (skipn_sublist k)|exact Hx].
Qed.

(* ---------- the fixed-threshold analysis ---------- *)
(* number of records whose number is not c + position (position counted from i) *)
Fixpoint corrupt_count (c i : Z) (ns : list Z) : nat :=
  match ns with [] => O | n :: r => Nat.add (if (n =? c + i)%Z then O else S O) (corrupt_count c (i + 1)%Z r) end.

Lemma offsets_length i ns : length (offsets_from i ns) = length ns.
Proof. revert i; induction ns; simpl; auto. Qed.

Lemma count_intact c : forall ns i,
  (count_occ Z.eq_dec (offsets_from i ns) c + corrupt_count c i ns = length ns)%nat.
Proof.
  induction ns as [|n r IH]; intros i; cbn [offsets_from count_occ corrupt_count length]; [reflexivity|].
  specialize (IH (i + 1)).
  destruct (Z.eq_dec (n - i) c), (Z.eqb_spec n (c + i)); lia.
Qed.

Lemma nz_count c : forall ns i,
  length (filter (fun x => 0 <? x) (diffs2_from (2 * c) i ns)) = corrupt_count c i ns.
Proof.
  induction ns as [|n r IH]; intros i; cbn [diffs2_from filter corrupt_count]; [reflexivity|].
  specialize (IH (i + 1)).
  destruct (Z.ltb_spec 0 (Z.abs (2 * n - (2 * i + 2 * c)))), (Z.eqb_spec n (c + i)); cbn [length]; lia.
Qed.

(* keep flags of the fixed threshold: |n - expected| <= 500 *)
Fixpoint keep500_from (e : Z) (ns : list Z) : list bool :=
  match ns with [] => [] | n :: r => (Z.abs (n - e) <=? 500) :: keep500_from (e + 1) r end.

Lemma keep_fixed nz d2 : (length nz < 50)%nat -> keep_decision nz d2 = (d2 <=? 1000).
Proof.
  intros H. unfold keep_decision. destruct (Z.ltb_spec (Z.of_nat (length nz)) 50); [reflexivity|lia].
Qed.

Lemma map_keep_fixed nz c : (length nz < 50)%nat -> forall ns i,
  map (keep_decision nz) (diffs2_from (2 * c) i ns) = keep500_from (c + i) ns.
Proof.
  intros Hnz. induction ns as [|n r IH]; intros i; cbn [diffs2_from map keep500_from]; [reflexivity|].
  rewrite keep_fixed by assumption. rewrite IH. f_equal.
  - destruct (Z.leb_spec (Z.abs (2 * n - (2 * i + 2 * c))) 1000), (Z.leb_spec (Z.abs (n - (c + i))) 500); lia.
  - f_equal. lia.
Qed.

Lemma filter_all_true {A} (f : A -> bool) l : Forall (fun x => f x = true) l -> filter f l = l.
Proof. induction 1; simpl; auto. rewrite H. f_equal. assumption. Qed.

(* T5 core: minority of corrupted, fewer than 50: the keep flags are exactly |n - expected| <= 500 *)
Theorem base_exact_500 A max first (l : list (Z * A)) :
  let ns := map fst l in
  Forall (fun r => 0 <= fst r < max) l ->
  (corrupt_count (first - 1) 1 ns < 50)%nat -> (2 * corrupt_count (first - 1) 1 ns < length ns)%nat ->
  base_sanitize max l = filter_by (keep500_from first ns) l.
Proof.
  intros ns Hr H50 Hmin. unfold base_sanitize.
  assert (Hf : filter (in_range_b max) l = l).
  { apply filter_all_true. eapply Forall_impl; [|exact Hr]. intros r [H1 H2]. unfold in_range_b.
    apply andb_true_intro. split; [apply Z.ltb_lt|apply Z.leb_le]; lia. }
  rewrite Hf. fold ns. unfold diffs2.
  set (c := first - 1) in *.
  assert (Hmed : median2 (offsets_from 1 ns) = 2 * c).
  { apply median2_majority. rewrite offsets_length. pose proof (count_intact c ns 1). lia. }
  rewrite Hmed.
  rewrite map_keep_fixed by (rewrite nz_count; assumption).
  replace (c + 1) with first by (unfold c; lia). reflexivity.
Qed.

(* T4: a gap-free pass is kept whole *)
Fixpoint gapfree_from (e : Z) (ns : list Z) : Prop :=
  match ns with [] => True | n :: r => n = e /\ gapfree_from (e + 1) r end.

Lemma gapfree_corrupt c : forall ns i, gapfree_from (c + i) ns -> corrupt_count c i ns = 0%nat.
Proof.
  induction ns as [|n r IH]; intros i H; simpl in *; [reflexivity|].
  destruct H as [-> H]. rewrite Z.eqb_refl. simpl. apply IH. replace (c + (i + 1)) with (c + i + 1) by lia. assumption.
Qed.

Lemma gapfree_keep500 : forall ns e, gapfree_from e ns -> keep500_from e ns = map (fun _ => true) ns.
Proof.
  induction ns as [|n r IH]; intros e H; simpl in *; [reflexivity|].
  destruct H as [-> H]. rewrite Z.sub_diag. simpl. f_equal. apply IH. assumption.
Qed.

Lemma filter_by_all_true {A} (l : list A) : filter_by (map (fun _ => true) l) l = l.
Proof. induction l; simpl; auto. f_equal. assumption. Qed.

Lemma filter_by_same_len {A B} (l : list A) (m : list B) : length m = length l -> filter_by (map (fun _ => true) m) l = l.
Proof. revert m. induction l; intros m H; destruct m; simpl in *; try lia; auto. f_equal. apply IHl. lia. Qed.

Theorem base_gapfree_kept A max first (l : list (Z * A)) :
  l <> [] -> Forall (fun r => 0 <= fst r < max) l -> gapfree_from first (map fst l) ->
  base_sanitize max l = l.
Proof.
  intros Hne Hr Hg.
  assert (Hc : corrupt_count (first - 1) 1 (map fst l) = 0%nat).
  { apply gapfree_corrupt. replace (first - 1 + 1) with first by lia. assumption. }
  rewrite (base_exact_500 A max first l Hr) by (rewrite Hc; destruct l; simpl; [congruence|lia]).
  rewrite gapfree_keep500 by assumption. apply filter_by_same_len. apply map_length.
Qed.

(* the minority hypothesis is needed: two of three entries off by 699 -> the intact record is the one removed *)
Lemma exact_500_minority_needed :
  map fst (klm_sanitize 15000 [(1, 0%nat); (700, 1%nat); (701, 2%nat)]) = [700; 701].
Proof. vm_compute. reflexivity. Qed.
