From Coq Require Import String Ascii List Bool Arith Lia Sorting.Permutation.
From PV Require Import M_Select Gen_Consts.
Import ListNotations.

(* ---------- the generated constants are the ones the model (and the format) uses ---------- *)
Lemma pattern_is_source : render pattern = data_set_pattern.
Proof. reflexivity. Qed.

Lemma lists_are_spec :
  gac_transfer_modes = ["GHRR"]%string /\ lac_transfer_modes = ["LHRR"; "HRPT"; "FRAC"]%string /\
  pod_platform_ids = ["TN"; "NA"; "NB"; "NC"; "ND"; "NE"; "NF"; "NG"; "NH"; "NI"; "NJ"]%string /\
  klm_platform_ids = ["NK"; "NL"; "NM"; "NN"; "NP"; "M1"; "M2"; "M3"]%string.
Proof. repeat split. Qed.

(* every reader class runs the pattern test, its resolution test and its family test (cooperative MRO) *)
Lemma mro_complete :
  (forall m, In m [gac_klm_mro; lac_klm_mro; gac_pod_mro; lac_pod_mro] -> In "Reader"%string m) /\
  In "GACReader"%string gac_klm_mro /\ In "KLMReader"%string gac_klm_mro /\
  In "LACReader"%string lac_klm_mro /\ In "KLMReader"%string lac_klm_mro /\
  In "GACReader"%string gac_pod_mro /\ In "PODReader"%string gac_pod_mro /\
  In "LACReader"%string lac_pod_mro /\ In "PODReader"%string lac_pod_mro.
Proof.
  split.
  - intros m Hm. simpl in Hm. destruct Hm as [<-|[<-|[<-|[<-|[]]]]]; vm_compute; tauto.
  - vm_compute. tauto.
Qed.

Definition GM := map of_string gac_transfer_modes.
Definition LM := map of_string lac_transfer_modes.
Definition PI := map of_string pod_platform_ids.
Definition KI := map of_string klm_platform_ids.

Lemma str_eqb_eq a b : str_eqb a b = true -> a = b.
Proof. unfold str_eqb. destruct (list_eq_dec Nat.eq_dec a b); [auto|discriminate]. Qed.

Lemma mem_str_In x l : mem_str x l = true -> In x l.
Proof.
  unfold mem_str. intros H. apply existsb_exists in H. destruct H as [y [Hin He]].
  apply str_eqb_eq in He. subst. assumption.
Qed.

Lemma modes_disjoint x : mem_str x GM = true -> mem_str x LM = true -> False.
Proof.
  intros H1 H2. apply mem_str_In in H1. simpl in H1. destruct H1 as [<-|[]]. vm_compute in H2. discriminate.
Qed.

Lemma ids_disjoint x : mem_str x PI = true -> mem_str x KI = true -> False.
Proof.
  intros H1 H2. apply mem_str_In in H1. simpl in H1.
  repeat (destruct H1 as [<-|H1]; [vm_compute in H2; discriminate|]). destruct H1.
Qed.

Section Core.
  Variable is_word is_digit : nat -> bool.
  Notation acc := (accepts is_word is_digit GM LM PI KI).

  (* at most one of the four readers accepts a name, whatever the name and whatever \w, \d mean *)
  Theorem core_exclusive name r f r' f' : acc r f name = true -> acc r' f' name = true -> r = r' /\ f = f'.
  Proof.
    unfold accepts. intros H H'.
    apply andb_prop in H. destruct H as [H Hf]. apply andb_prop in H. destruct H as [_ Hr].
    apply andb_prop in H'. destruct H' as [H' Hf']. apply andb_prop in H'. destruct H' as [_ Hr'].
    split.
    - destruct r, r'; auto; exfalso; eapply modes_disjoint; eassumption.
    - destruct f, f'; auto; exfalso; eapply ids_disjoint; eassumption.
  Qed.

  (* which reader: decided by the transfer mode and the platform id of the name alone *)
  Theorem core_decision name r f : acc r f name = true <->
    (matches is_word is_digit name = true /\
     In (transfer_mode name) (match r with GAC => GM | LAC => LM end) /\
     In (platform_id name) (match f with POD => PI | KLM => KI end)).
  Proof.
    unfold accepts. rewrite !andb_true_iff. split.
    - intros [[H1 H2] H3]. repeat split; auto using mem_str_In.
    - intros [H1 [H2 H3]]. repeat split; auto; unfold mem_str; apply existsb_exists; eexists; split; try eassumption;
        unfold str_eqb; destruct (list_eq_dec _ _ _); auto.
  Qed.
End Core.

(* ---------- history independence of the move-to-front candidate list ---------- *)
Section Hist.
  Variable C : Type.
  Variable C_eqb : C -> C -> bool.
  Hypothesis C_eqb_spec : forall a b, C_eqb a b = true <-> a = b.

  Lemma find_first_unique (acc : C -> bool) l c :
    (forall x y, acc x = true -> acc y = true -> x = y) -> In c l -> acc c = true -> find_first C acc l = Some c.
  Proof.
    intros Hu. induction l as [|x l IH]; intros Hin Hc; [destruct Hin|].
    simpl. destruct (acc x) eqn:E; [f_equal; apply Hu; assumption|].
    destruct Hin as [->|Hin]; [congruence|]. apply IH; assumption.
  Qed.

  Lemma find_first_none (acc : C -> bool) l : (forall x, In x l -> acc x = false) -> find_first C acc l = None.
  Proof.
    induction l as [|x l IH]; intros H; [reflexivity|]. simpl. rewrite (H x (or_introl eq_refl)). apply IH.
    intros y Hy. apply H. right. assumption.
  Qed.

  Lemma remove_first_perm c l : In c l -> Permutation (c :: remove_first C C_eqb c l) l.
  Proof.
    induction l as [|x l IH]; intros Hin; [destruct Hin|]. simpl.
    destruct (C_eqb x c) eqn:E.
    - apply C_eqb_spec in E. subst. apply Permutation_refl.
    - destruct Hin as [->|Hin]; [exfalso; assert (C_eqb c c = true) by (apply C_eqb_spec; reflexivity); congruence|].
      eapply Permutation_trans; [apply perm_swap|]. apply perm_skip. apply IH. assumption.
  Qed.

  Lemma find_first_In (acc : C -> bool) l c : find_first C acc l = Some c -> In c l /\ acc c = true.
  Proof.
    induction l as [|x l IH]; [discriminate|]. simpl. destruct (acc x) eqn:E.
    - intros H. injection H as <-. auto.
    - intros H. destruct (IH H). auto.
  Qed.

  (* what the selector must answer for a file: the one accepting class, or None *)
  Definition choice (all : list C) (acc : C -> bool) : option C := find_first C acc all.

  Theorem selection_independent all order (acc : C -> bool) :
    Permutation order all -> (forall x y, acc x = true -> acc y = true -> x = y) ->
    snd (get_reader_class C C_eqb acc order) = choice all acc /\
    Permutation (fst (get_reader_class C C_eqb acc order)) all.
  Proof.
    intros Hp Hu. unfold get_reader_class, choice.
    destruct (find_first C acc all) as [c|] eqn:Ea.
    - destruct (find_first_In _ _ _ Ea) as [Hin Hc].
      assert (Hin' : In c order) by (eapply Permutation_in; [apply Permutation_sym; exact Hp|exact Hin]).
      rewrite (find_first_unique acc order c Hu Hin' Hc). simpl. split; [reflexivity|].
      eapply Permutation_trans; [apply remove_first_perm; assumption|assumption].
    - assert (Hnone : forall x, In x order -> acc x = false).
      { intros x Hx. destruct (acc x) eqn:E; [|reflexivity].
        assert (In x all) by (eapply Permutation_in; eassumption).
        rewrite (find_first_unique acc all x Hu H E) in Ea. discriminate. }
      rewrite (find_first_none acc order Hnone). simpl. auto.
  Qed.

  (* for every initial order and every sequence of earlier selections *)
  Theorem history_independent all files : forall order,
    Permutation order all ->
    Forall (fun acc => forall x y, acc x = true -> acc y = true -> x = y) files ->
    snd (run_selections C C_eqb order files) = map (choice all) files /\
    Permutation (fst (run_selections C C_eqb order files)) all.
  Proof.
    induction files as [|acc r IH]; intros order Hp Hu; [simpl; auto|].
    inversion Hu as [|? ? Hacc Hr]; subst. cbn [run_selections].
    destruct (selection_independent all order acc Hp Hacc) as [A B].
    destruct (get_reader_class C C_eqb acc order) as [o' c]. simpl in A, B.
    destruct (IH o' B Hr) as [A' B']. destruct (run_selections C C_eqb o' r) as [o'' cs]. simpl in *.
    split; [rewrite A, A'; reflexivity|assumption].
  Qed.
End Hist.

(* ---------- can_read: position always restored, only the documented exceptions are absorbed ---------- *)
Lemma can_read_position o pos : snd (can_read o pos) = pos.
Proof. reflexivity. Qed.

Lemma can_read_filter o pos : match fst (can_read o pos) with
  | CR_bool b => b = true <-> o = RO_ok
  | CR_raises n => o = RO_other n
  end.
Proof. destruct o; simpl; try (split; [discriminate|discriminate]); try reflexivity. split; auto. Qed.
