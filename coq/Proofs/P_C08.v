From Coq Require Import ZArith List Bool Arith Lia.
From PV Require Import Median Calendar M_Times M_ScanNo P_C03.
Import ListNotations.
Open Scope Z_scope.

(* ---------- totality: one time per line, whatever the input ---------- *)
Lemma lineno_u_length tp nums : length (lineno_u tp nums) = length nums.
Proof. unfold lineno_u. apply map_length. Qed.

Lemma map2_len {A B C} (f : A -> B -> C) a b : length (map2 f a b) = Nat.min (length a) (length b).
Proof. unfold map2. rewrite map_length, combine_length. reflexivity. Qed.

Ltac len_simp :=
  repeat first [ rewrite repeat_length | rewrite map_length | rewrite combine_length | rewrite map2_len
               | rewrite ediff_length | rewrite lineno_u_length ].

Lemma stage1_lengths tp nums years jdays msecs :
  length years = length nums -> length jdays = length nums -> length msecs = length nums ->
  let '(ys, js, ms) := stage1 tp nums years jdays msecs in
  length ys = length nums /\ length js = length nums /\ length ms = length nums.
Proof.
  intros Hy Hj Hm. unfold stage1. cbv zeta.
  destruct (first_index (fun x => x <? 1) msecs) as [[|k]|];
  destruct (first_index _ years) as [[|k']|]; unfold msec_diffs; repeat split; len_simp; lia.
Qed.

Lemma stage1_times_length tp nums years jdays msecs :
  length years = length nums -> length jdays = length nums -> length msecs = length nums ->
  length (stage1_times tp nums years jdays msecs) = length nums.
Proof.
  intros Hy Hj Hm. unfold stage1_times.
  pose proof (stage1_lengths tp nums years jdays msecs Hy Hj Hm) as H.
  destruct (stage1 tp nums years jdays msecs) as [[ys js] ms]. destruct H as [H1 [H2 H3]].
  rewrite map_length, !combine_length. lia.
Qed.

Lemma stage2_length tp th nums times h out : length times = length nums ->
  stage2 tp th nums times h = S2_ok out -> length out = length nums.
Proof.
  intros Hl. unfold stage2. destruct (negb (monotone nums)); [discriminate|].
  destruct h as [h|]; [|discriminate]. destruct (_ <? _); [discriminate|].
  intros H. injection H as <-. rewrite map2_len, map_length. lia.
Qed.

(* get_times is a total function returning exactly one time per line: for every header (usable or not), every
   line-number order, every content of the time fields *)
Theorem get_times_total tp th nums years jdays msecs h :
  length years = length nums -> length jdays = length nums -> length msecs = length nums ->
  length (get_times tp th nums years jdays msecs h) = length nums.
Proof.
  intros Hy Hj Hm. unfold get_times.
  pose proof (stage1_times_length tp nums years jdays msecs Hy Hj Hm) as H1.
  destruct (stage2 _ _ _ _ _) eqn:E; try assumption.
  eapply stage2_length; eassumption.
Qed.

(* when stage 2 refuses (backward numbers, unusable header, mismatch) the stage-1 times are returned *)
Theorem get_times_fallback tp th nums years jdays msecs h :
  (monotone nums = false \/ h = None) ->
  get_times tp th nums years jdays msecs h = stage1_times tp nums years jdays msecs.
Proof.
  intros [Hm|Hh]; unfold get_times, stage2.
  - rewrite Hm. reflexivity.
  - subst h. destruct (negb (monotone nums)); reflexivity.
Qed.

(* ---------- the end-to-end repair clause is false at full strength ---------- *)
(* 50 GAC lines in the last half minute of a day, first line intact, 19 lines (38 %) carry mutually consistent
   garbage (next day, 30 s ahead); each also spoils its successor through the max(jday) rule.  The garbage lines
   outnumber the exact lines among the lines near the header, the median picks their offset, and every line
   (including the intact ones) comes back 30 s late. *)
Definition r_nums := zrange 1 50.
Definition r_truth := map (fun n => 992563170000 + (n - 1) * 500) r_nums.     (* 2001-06-14 23:59:30.000 ... *)
Definition r_garbage (i : Z) : bool := (i mod 2 =? 1) && (i <? 38).
Definition r_years := map (fun _ => 2001) r_nums.
Definition r_jdays := map (fun n => if r_garbage (n - 1) then 166 else 165) r_nums.
Definition r_msecs := map (fun n => let t := 86370000 + (n - 1) * 500 in if r_garbage (n - 1) then t + 30000 - 86400000 else t) r_nums.

Lemma repairs_refuted :
  length (filter (fun n => r_garbage (n - 1)) r_nums) = 19%nat /\
  100 * 19 < 40 * 49 /\
  nth 0%nat (get_times ex_tp ex_th r_nums r_years r_jdays r_msecs (Some 992563170000)) 0 - nth 0%nat r_truth 0 = 30000 /\
  nth 45%nat (get_times ex_tp ex_th r_nums r_years r_jdays r_msecs (Some 992563170000)) 0 - nth 45%nat r_truth 0 = 30000.
Proof. vm_compute. repeat split. Qed.


(* ---------- the repair clause fails through the line-number sanitising (finding F-C08-3) ---------- *)
(* 200 GAC POD records numbered 30, 33..93, 95..232 (all numbers intact, two data gaps) from 2000-08-23 15:02:16.620;
   record 1 carries a garbage millisecond field, record 196 a zeroed time code; everything else (first record and header
   included) is exact.  The sanitising takes its statistical branch (61 records are off the median offset) with a
   threshold of mean + 3 sigma = 1.8 lines and removes the FIRST record (deviation 3); the time repair then anchors on
   record 1, stage 2 finds no line near the header and refuses, and all 199 returned times are 45 781 335 ms
   (12 h 43 min) off.  Composition of the two models exactly as in Reader.read / get_times. *)
Definition f3_nums : list Z := 30 :: map Z.of_nat (seq 33 61) ++ map Z.of_nat (seq 95 138).
Definition f3_t0 := 967042936620.                       (* 2000-08-23 15:02:16.620 *)
Definition f3_head := f3_t0 - 29 * 500.                 (* header = nominal time of line 1 *)
Definition f3_truth (n : Z) := f3_t0 + (n - 30) * 500.
Definition f3_fields (i : nat) (n : Z) : Z * Z * Z :=
  if Nat.eqb i 1 then (2000, 236, 99919455) else if Nat.eqb i 196 then (2000, 0, 0)
  else (2000, 236, 54136620 + (n - 30) * 500).
Definition f3_recs : list (Z * (Z * Z * Z)) := map (fun p => (fst p, f3_fields (snd p) (fst p))) (tag f3_nums).
Definition f3_out := match pod_sanitize 15000 f3_recs with Some o => o | None => [] end.
Definition f3_times := get_times ex_tp ex_th (map fst f3_out) (map (fun r => fst (fst (snd r))) f3_out)
   (map (fun r => snd (fst (snd r))) f3_out) (map (fun r => snd (snd r)) f3_out) (Some f3_head).

Definition trip_eqb (a b : Z * Z * Z) : bool :=
  (fst (fst a) =? fst (fst b)) && (snd (fst a) =? snd (fst b)) && (snd a =? snd b).

Lemma first_record_refuted :
  length f3_nums = 200%nat /\ monotone f3_nums = true /\
  (* exactly two records (1 %) do not carry their true time; the first record does *)
  length (filter (fun r => negb (trip_eqb (snd r) (2000, 236, 54136620 + (fst r - 30) * 500))) f3_recs) = 2%nat /\
  option_map snd (hd_error f3_recs) = Some (2000, 236, 54136620) /\
  (* the sanitising removes the first record and nothing else *)
  map fst f3_out = tl f3_nums /\
  (* every returned time is 45 781 335 ms off *)
  length f3_times = 199%nat /\
  forallb (fun p => snd p - f3_truth (fst p) =? 45781335) (combine (tl f3_nums) f3_times) = true.
Proof. vm_compute. repeat split. Qed.
