From Coq Require Import String ZArith QArith Qabs List Bool Arith Lia.
From PV Require Import M_Tsm Gen_Tsm Gen_Consts.
Import ListNotations.
Open Scope Z_scope.

(* ---------- the gate ---------- *)
Theorem gate_spec table sc first last : is_tsm_affected table sc first last = true <->
  exists ivs, assoc sc table = Some ivs /\ exists iv, In iv ivs /\ fst iv <= first /\ last <= snd iv.
Proof.
  unfold is_tsm_affected. destruct (assoc sc table) as [ivs|].
  - rewrite existsb_exists. split.
    + intros [iv [Hin H]]. apply andb_prop in H. destruct H as [H1 H2]. apply Z.leb_le in H1. apply Z.leb_le in H2.
      exists ivs. split; [reflexivity|]. exists iv. auto.
    + intros [ivs' [E [iv [Hin [H1 H2]]]]]. injection E as <-. exists iv. split; [assumption|].
      apply andb_true_intro. split; apply Z.leb_le; assumption.
  - split; [discriminate|]. intros [ivs [E _]]. discriminate.
Qed.

(* only NOAA-14 (POD id 3), NOAA-15 (KLM id 4) and NOAA-16 (KLM id 2) have interval tables *)
Fixpoint lookup_name (k : Z) (t : list (Z * string)) : option string :=
  match t with [] => None | (k', v) :: r => if k =? k' then Some v else lookup_name k r end.

Lemma tabled_spacecraft :
  map fst tsm_pod = [3] /\ lookup_name 3 pod_spacecraft_names = Some "noaa14"%string /\
  map fst tsm_klm = [4; 2] /\ lookup_name 4 klm_spacecraft_names = Some "noaa15"%string /\
  lookup_name 2 klm_spacecraft_names = Some "noaa16"%string /\
  pod_tsm_ids = [3] /\ klm_tsm_ids = [2; 4].
Proof. repeat split. Qed.

Lemma untabled table sc first last : assoc sc table = None -> is_tsm_affected table sc first last = false.
Proof. intros H. unfold is_tsm_affected. rewrite H. reflexivity. Qed.

(* every listed interval is well-formed (start <= end): the gate can hold for some pass *)
Lemma intervals_wellformed :
  forallb (fun e => forallb (fun iv => fst iv <=? snd iv) (snd e)) (tsm_pod ++ tsm_klm) = true.
Proof. vm_compute. reflexivity. Qed.

(* ---------- outside the gate nothing is altered; inside, exactly the flagged pixels are blanked in every plane ---------- *)
Theorem outside_identity f table sc first last planes :
  is_tsm_affected table sc first last = false -> mask_tsm f table sc first last planes = planes.
Proof. intros H. unfold mask_tsm. rewrite H. reflexivity. Qed.

Lemma zidx_length n s : length (zidx n s) = n.
Proof. revert s. induction n; intros; simpl; auto. Qed.

Lemma nth_zidx n : forall s i, (i < n)%nat -> nth i (zidx n s) 0 = s + Z.of_nat i.
Proof.
  induction n as [|n IH]; intros s i H; [lia|]. destruct i; simpl; [lia|]. rewrite IH by lia. lia.
Qed.

Lemma nth_combine {A B} (a : list A) (b : list B) da db i : (i < length a)%nat -> (i < length b)%nat ->
  nth i (combine a b) (da, db) = (nth i a da, nth i b db).
Proof.
  revert b i. induction a as [|x a IH]; intros b i Ha Hb; [simpl in Ha; lia|].
  destruct b as [|y b]; [simpl in Hb; lia|]. destruct i; simpl; [reflexivity|]. apply IH; simpl in *; lia.
Qed.

(* pixel (i, j) of a blanked plane: None if flagged, untouched otherwise *)
Theorem blank_plane_spec flag (p : img) i j : (i < length p)%nat -> (j < length (nth i p []))%nat ->
  nth j (nth i (blank_plane flag p) []) None =
  if flag (Z.of_nat i) (Z.of_nat j) then None else nth j (nth i p []) None.
Proof.
  intros Hi Hj. unfold blank_plane.
  set (g := fun ir : Z * list (option Q) => map (fun jv : Z * option Q => if flag (fst ir) (fst jv) then None else snd jv)
                                                (combine (zidx (length (snd ir)) 0) (snd ir))).
  rewrite (nth_indep _ [] (g (0, []))) by (rewrite map_length, combine_length, zidx_length; lia).
  rewrite (map_nth g). rewrite nth_combine by (rewrite ?zidx_length; lia).
  rewrite nth_zidx by lia. unfold g. cbn [fst snd].
  set (h := fun jv : Z * option Q => if flag (0 + Z.of_nat i) (fst jv) then None else snd jv).
  rewrite (nth_indep _ None (h (0, None))) by (rewrite map_length, combine_length, zidx_length; lia).
  rewrite (map_nth h). rewrite nth_combine by (rewrite ?zidx_length; lia).
  rewrite nth_zidx by lia. unfold h. cbn [fst snd]. replace (0 + Z.of_nat i) with (Z.of_nat i) by lia.
  replace (0 + Z.of_nat j) with (Z.of_nat j) by lia. reflexivity.
Qed.

(* the criterion: both 3x3 population variances exceed 4 (standard deviations exceed 2); an all-NaN window is not flagged *)
Theorem criterion_spec c1 c2 c4 c5 i j : flagged c1 c2 c4 c5 i j = true <->
  (std_gt2 (window (abs_d12 c1 c2) i j) = true /\ std_gt2 (window (rel_d45 c4 c5) i j) = true).
Proof. unfold flagged. apply andb_true_iff. Qed.

Lemma empty_window_not_flagged : std_gt2 [] = false.
Proof. reflexivity. Qed.

(* variance form: for a non-empty window, std_gt2 l  <->  k * sum x^2 - (sum x)^2 > 4 k^2 *)
Lemma std_gt2_spec l : l <> [] -> (std_gt2 l = true <-> (0 < var_excess l)%Q).
Proof.
  intros H. unfold std_gt2. destruct l; [congruence|]. destruct (Qlt_le_dec 0 _) as [Hlt|Hle]; split; auto; try discriminate.
  intros Hc. exfalso. apply (Qlt_not_le _ _ Hc). assumption.
Qed.

(* the 3x3 window is clipped at the image border: pixels outside contribute nothing *)
Lemma px_outside im i j : (i < 0 \/ j < 0) -> px im i j = None.
Proof. intros [H|H]; unfold px; destruct (Z.ltb_spec i 0), (Z.ltb_spec j 0); try lia; reflexivity. Qed.

Theorem channel_choice : tsm_planes FKLM = (0, 1, 4, 5)%nat /\ tsm_planes FPOD = (0, 1, 3, 4)%nat.
Proof. split; reflexivity. Qed.
