From Coq Require Import Reals QArith Qreals Lra List Bool.
From Interval Require Import Tactic.
From PV Require Import NumSig Gen_Coeffs M_Thermal.
Import ListNotations.
Open Scope R_scope.

(* ---------- the real-number instance of the numeric signature ---------- *)
Definition Rltb (a b : R) : bool := if Rlt_dec a b then true else false.
Definition RSig : NumSig := mkNS R Q2R Rplus Rminus Rmult Rdiv exp ln Rltb.

(* the pieces of bt_raw, named *)
Definition K1 (r : ir_row) : R := Q2R (c1 * i_nu r * i_nu r * i_nu r).
Definition K2 (r : ir_row) : R := Q2R (c2 * i_nu r).
Definition nbb_of (r : ir_row) (tbb : R) : R := K1 r / (exp (K2 r / (Q2R (i_a r) + Q2R (i_b r) * tbb)) - Q2R 1).
Definition nlin_of (r : ir_row) (nbb cs cbb ce : R) : R := Q2R (i_ns r) + (nbb - Q2R (i_ns r)) * (cs - ce) / (cs - cbb).
Definition ne_of (r : ir_row) (x : R) : R := x + (Q2R (i_b0 r) + Q2R (i_b1 r) * x + Q2R (i_b2 r) * x * x).
Definition te_of (r : ir_row) (ne : R) : R := (K2 r / ln (Q2R 1 + K1 r / ne) - Q2R (i_a r)) / Q2R (i_b r).

Lemma bt_raw_unfold r tbb cs cbb ce :
  bt_raw RSig r tbb cs cbb ce = te_of r (ne_of r (nlin_of r (nbb_of r tbb) cs cbb ce)).
Proof. reflexivity. Qed.

Lemma Q2R_1 : Q2R 1 = 1.
Proof. unfold Q2R. simpl. lra. Qed.

(* ---------- monotonicity ---------- *)
Lemma nlin_decreasing r nbb cs cbb ce ce' : cbb < cs -> Q2R (i_ns r) <= nbb -> ce <= ce' ->
  nlin_of r nbb cs cbb ce' <= nlin_of r nbb cs cbb ce.
Proof.
  intros Hc Hn Hce. unfold nlin_of. apply Rplus_le_compat_l.
  unfold Rdiv. apply Rmult_le_compat_r; [left; apply Rinv_0_lt_compat; lra|].
  apply Rmult_le_compat_l; lra.
Qed.

Lemma ne_increasing r x y : y <= x -> 0 <= 1 + Q2R (i_b1 r) + Q2R (i_b2 r) * (x + y) -> ne_of r y <= ne_of r x.
Proof.
  intros Hxy Hd. unfold ne_of.
  assert (E : x + (Q2R (i_b0 r) + Q2R (i_b1 r) * x + Q2R (i_b2 r) * x * x) - (y + (Q2R (i_b0 r) + Q2R (i_b1 r) * y + Q2R (i_b2 r) * y * y))
              = (x - y) * (1 + Q2R (i_b1 r) + Q2R (i_b2 r) * (x + y))) by ring.
  assert (0 <= (x - y) * (1 + Q2R (i_b1 r) + Q2R (i_b2 r) * (x + y))) by (apply Rmult_le_pos; lra). lra.
Qed.

Lemma te_increasing r u v : 0 < K1 r -> 0 < K2 r -> 0 < Q2R (i_b r) -> 0 < u -> u <= v -> te_of r u <= te_of r v.
Proof.
  intros H1 H2 Hb Hu Huv. unfold te_of. rewrite Q2R_1.
  unfold Rdiv at 1 3. apply Rmult_le_compat_r; [left; apply Rinv_0_lt_compat; assumption|].
  apply Rplus_le_compat_r.
  assert (Hv : 0 < v) by lra.
  assert (A1 : K1 r / v <= K1 r / u).
  { unfold Rdiv. apply Rmult_le_compat_l; [lra|]. apply Rinv_le_contravar; assumption. }
  assert (P1 : 0 < K1 r / v) by (apply Rdiv_lt_0_compat; assumption).
  assert (Lv : 0 < ln (1 + K1 r / v)) by (rewrite <- ln_1; apply ln_increasing; lra).
  assert (Luv : ln (1 + K1 r / v) <= ln (1 + K1 r / u)).
  { destruct (Req_dec (K1 r / v) (K1 r / u)) as [->|Hne]; [lra|]. left. apply ln_increasing; lra. }
  unfold Rdiv. apply Rmult_le_compat_l; [lra|]. apply Rinv_le_contravar; assumption.
Qed.

Theorem bt_raw_monotone r tbb cs cbb ce ce' :
  0 < K1 r -> 0 < K2 r -> 0 < Q2R (i_b r) -> cbb < cs -> Q2R (i_ns r) <= nbb_of r tbb -> ce <= ce' ->
  let x := nlin_of r (nbb_of r tbb) cs cbb ce in let y := nlin_of r (nbb_of r tbb) cs cbb ce' in
  0 <= 1 + Q2R (i_b1 r) + Q2R (i_b2 r) * (x + y) -> 0 < ne_of r y ->
  bt_raw RSig r tbb cs cbb ce' <= bt_raw RSig r tbb cs cbb ce.
Proof.
  intros H1 H2 Hb Hc Hn Hce x y Hd Hpos. rewrite !bt_raw_unfold. fold x. fold y.
  apply te_increasing; try assumption. apply ne_increasing; [|assumption].
  apply nlin_decreasing; assumption.
Qed.

(* with the range mask: whenever both results are numbers (not NaN) they are ordered *)
Lemma bt_some chan3 r tbb cs cbb ce v : bt RSig chan3 r tbb cs cbb ce = Some v -> v = bt_raw RSig r tbb cs cbb ce \/ v = Q2R 0.
Proof.
  unfold bt. cbn [NumSig.ltb RSig ofQ]. destruct (chan3 && negb (Rltb ce cs));
  destruct (_ || _); try discriminate; intros H; injection H as <-; auto.
Qed.

Theorem bt_monotone chan3 r tbb cs cbb ce ce' v v' :
  0 < K1 r -> 0 < K2 r -> 0 < Q2R (i_b r) -> cbb < cs -> Q2R (i_ns r) <= nbb_of r tbb -> ce <= ce' ->
  let x := nlin_of r (nbb_of r tbb) cs cbb ce in let y := nlin_of r (nbb_of r tbb) cs cbb ce' in
  0 <= 1 + Q2R (i_b1 r) + Q2R (i_b2 r) * (x + y) -> 0 < ne_of r y ->
  bt RSig chan3 r tbb cs cbb ce = Some v -> bt RSig chan3 r tbb cs cbb ce' = Some v' -> v' <= v.
Proof.
  intros H1 H2 Hb Hc Hn Hce x y Hd Hpos Hv Hv'.
  pose proof (bt_raw_monotone r tbb cs cbb ce ce' H1 H2 Hb Hc Hn Hce Hd Hpos) as Hm.
  (* a masked-to-zero value never survives the 170 K test, so Some means the raw value *)
  assert (Hraw : forall c w, bt RSig chan3 r tbb cs cbb c = Some w -> w = bt_raw RSig r tbb cs cbb c).
  { intros c w Hw. unfold bt in Hw. cbn [NumSig.ltb RSig ofQ] in Hw.
    destruct (chan3 && negb (Rltb c cs)).
    - exfalso. unfold Rltb in Hw. destruct (Rlt_dec (Q2R 0) (Q2R 170)) as [_|Hn0]; [simpl in Hw; discriminate|].
      apply Hn0. unfold Q2R. simpl. lra.
    - destruct (_ || _); [discriminate|]. injection Hw as <-. reflexivity. }
  rewrite (Hraw ce v Hv), (Hraw ce' v' Hv'). exact Hm.
Qed.

(* ---------- the table: constants that make the hypotheses hold in the operating range ---------- *)
Definition ir_rows : list ir_row := flat_map sc_ir (filter sc_complete all_coeffs).

(* radiance range of the channel: 3.7 um (wavenumber > 2000) up to 5, 11/12 um up to 300 mW/(m2 sr cm-1) *)
Definition nmax (r : ir_row) : Q := if qltb 2000 (i_nu r) then 5 else 300.
Definition row_phys_ok (r : ir_row) : bool :=
  qltb 0 (i_nu r) && qltb 0 (i_b r) &&
  (* 1 + b1 - 2 |b2| nmax > 0: the non-linearity correction is increasing over the channel's radiance range *)
  qltb 0 (1 + i_b1 r - 2 * Qabs.Qabs (i_b2 r) * nmax r).

Lemma table_phys_ok : forallb row_phys_ok ir_rows = true /\ length ir_rows = 51%nat.
Proof. split; vm_compute; reflexivity. Qed.

(* consequences in R for a row of the table *)
Lemma row_consts r : row_phys_ok r = true ->
  0 < K1 r /\ 0 < K2 r /\ 0 < Q2R (i_b r) /\
  forall x y, 0 <= x <= Q2R (nmax r) -> 0 <= y <= Q2R (nmax r) -> 0 <= 1 + Q2R (i_b1 r) + Q2R (i_b2 r) * (x + y).
Proof.
  unfold row_phys_ok, qltb. intros H. apply andb_prop in H. destruct H as [H Hd]. apply andb_prop in H. destruct H as [Hnu Hb].
  destruct (Qlt_le_dec 0 (i_nu r)) as [Hnu'|]; [|discriminate].
  destruct (Qlt_le_dec 0 (i_b r)) as [Hb'|]; [|discriminate].
  destruct (Qlt_le_dec 0 (1 + i_b1 r - 2 * Qabs.Qabs (i_b2 r) * nmax r)) as [Hd'|]; [|discriminate].
  assert (Rnu : 0 < Q2R (i_nu r)) by (replace 0 with (Q2R 0) by (unfold Q2R; simpl; lra); apply Qlt_Rlt; assumption).
  repeat split.
  - unfold K1. rewrite !Q2R_mult. unfold c1. assert (0 < Q2R (11910427 # 1000000000000)) by (unfold Q2R; simpl; lra).
    apply Rmult_lt_0_compat; [apply Rmult_lt_0_compat; [apply Rmult_lt_0_compat|]|]; assumption.
  - unfold K2. rewrite Q2R_mult. unfold c2. assert (0 < Q2R (14387752 # 10000000)) by (unfold Q2R; simpl; lra).
    apply Rmult_lt_0_compat; assumption.
  - replace 0 with (Q2R 0) by (unfold Q2R; simpl; lra). apply Qlt_Rlt. assumption.
  - intros x y Hx Hy.
    apply Qlt_Rlt in Hd'. rewrite Q2R_minus, Q2R_plus, !Q2R_mult in Hd'.
    replace (Q2R 0) with 0 in Hd' by (unfold Q2R; simpl; lra).
    replace (Q2R 1) with 1 in Hd' by (unfold Q2R; simpl; lra).
    replace (Q2R 2) with 2 in Hd' by (unfold Q2R; simpl; lra).
    set (m := Q2R (nmax r)) in *. set (b2 := Q2R (i_b2 r)) in *.
    assert (Habs : Q2R (Qabs.Qabs (i_b2 r)) = Rabs b2).
    { unfold b2. destruct (Qlt_le_dec (i_b2 r) 0) as [Hn|Hp].
      - rewrite Qabs.Qabs_neg by (apply Qlt_le_weak; assumption). rewrite Q2R_opp.
        rewrite Rabs_left; [reflexivity|]. replace 0 with (Q2R 0) by (unfold Q2R; simpl; lra). apply Qlt_Rlt. assumption.
      - rewrite Qabs.Qabs_pos by assumption. rewrite Rabs_right; [reflexivity|].
        apply Rle_ge. replace 0 with (Q2R 0) by (unfold Q2R; simpl; lra). apply Qle_Rle. assumption. }
    rewrite Habs in Hd'.
    assert (Hb2 : - Rabs b2 * (x + y) <= b2 * (x + y)).
    { destruct (Rcase_abs b2) as [Hn|Hp].
      - rewrite Rabs_left by assumption. lra.
      - rewrite Rabs_right by assumption. assert (0 <= b2 * (x + y)) by (apply Rmult_le_pos; lra). nra. }
    assert (Rabs b2 * (x + y) <= 2 * Rabs b2 * m).
    { assert (0 <= Rabs b2) by apply Rabs_pos. nra. }
    lra.
Qed.

(* ---------- the anchor: a scene whose count equals the internal-target count reads the target temperature ---------- *)
Lemma lin_at_bb a b cs cbb : cs <> cbb -> a + (b - a) * (cs - cbb) / (cs - cbb) = b.
Proof. intros. field. lra. Qed.

(* at C_E = C_BB the linear radiance estimate IS the blackbody radiance, exactly *)
Lemma nlin_at_bb r nbb cs cbb : cs <> cbb -> nlin_of r nbb cs cbb cbb = nbb.
Proof. intros H. unfold nlin_of. apply lin_at_bb. assumption. Qed.

Ltac norm_q := repeat match goal with |- context [Q2R ?q] =>
  let v := eval vm_compute in (Qred q) in
  replace (Q2R q) with (Q2R v) by (apply Qeq_eqR; symmetry; apply Qred_correct);
  let n := eval vm_compute in (Qnum v) in let d := eval vm_compute in (Zpos (Qden v)) in
  change (Q2R v) with (IZR n * / IZR d) end.

Ltac anchor_tac Tb cs cbb Hne :=
  unfold bt_raw, planck, inv_planck; cbn [NumSig.T ofQ add sub mul div expT lnT RSig];
  rewrite !(lin_at_bb _ _ cs cbb Hne);
  cbn [i_a i_b i_nu i_ns i_b0 i_b1 i_b2];
  norm_q;
  interval with (i_bisect Tb, i_prec 50).

(* all 17 x 3 thermal rows of the regenerated table, every target temperature in the operating range 285..305 K,
   any space / target counts: |BT(C_E = C_BB) - T_BB| <= 1 K (the residue is the non-linearity correction) *)
Theorem anchor_all r : In r ir_rows -> forall Tb cs cbb, 285 <= Tb <= 305 -> cs <> cbb ->
  Rabs (bt_raw RSig r Tb cs cbb cbb - Tb) <= 1.
Proof.
  intros Hin Tb cs cbb HT Hne. unfold ir_rows in Hin. vm_compute in Hin.
  repeat (destruct Hin as [<-|Hin]; [anchor_tac Tb cs cbb Hne|]).
  contradiction.
Qed.
