From Coq Require Import String ZArith QArith List Bool Arith Lia.
From PV Require Import M_Io Gen_SaveGac Gen_Consts.
Import ListNotations.
Open Scope Z_scope.

(* ---------- every product is cut by the same call ---------- *)
Definition std_kwargs : list (string * string) :=
  [("end_line", "end_line"); ("first_valid_lat", "first_valid_lat"); ("last_valid_lat", "last_valid_lat"); ("start_line", "start_line")]%string.

Fixpoint kw_eqb (a b : list (string * string)) : bool :=
  match a, b with
  | [], [] => true
  | (k, v) :: r, (k', v') :: s => String.eqb k k' && String.eqb v v' && kw_eqb r s
  | _, _ => false
  end.
Fixpoint str_mem (x : string) (l : list string) : bool := match l with [] => false | y :: r => String.eqb x y || str_mem x r end.

(* a product call: target = product expression (sliced in place), the four selection arguments and nothing else *)
Definition product_call_ok (c : list string * string * list (string * string)) : bool :=
  let '(targets, product, kw) := c in
  match targets with
  | [t; u; v] => String.eqb t product && String.eqb u "_" && String.eqb v "_" && kw_eqb kw std_kwargs
  | _ => false
  end.

Definition products15 : list string :=
  ["ref1"; "ref2"; "ref3"; "bt3"; "bt4"; "bt5"; "sun_zen"; "sun_azi"; "sat_zen"; "sat_azi"; "rel_azi"; "lons"; "lats"; "qual_flags"; "xutcs"]%string.

Definition uniform_ok : bool :=
  match slice_calls with
  | meta :: rest =>
      (* the first call computes the re-indexed meta data with the same selection arguments *)
      (let '(targets, _, kw) := meta in
       kw_eqb (filter (fun p => str_mem (fst p) ["end_line"; "first_valid_lat"; "last_valid_lat"; "start_line"]%string) kw) std_kwargs) &&
      forallb product_call_ok rest &&
      (length rest =? 15)%nat &&
      forallb (fun p => str_mem p (map (fun c => snd (fst c)) rest)) products15
  | [] => false
  end.

Lemma uniform : uniform_ok = true.
Proof. vm_compute. reflexivity. Qed.

(* reader -> writer argument order: Reader.save passes each quantity in the position of the parameter of that name *)
Definition expected_save_args : list string :=
  ["self.spacecraft_name"; "self._times_as_np_datetime64"; "self.lats"; "self.lons";
   "channels[:, :, 0]"; "channels[:, :, 1]"; "channels[:, :, 2]"; "channels[:, :, 3]"; "channels[:, :, 4]"; "channels[:, :, 5]";
   "sun_zen"; "sat_zen"; "sun_azi"; "sat_azi"; "rel_azi"; "qual_flags"; "start_line"; "end_line"; "self.filename"; "self.meta_data";
   "output_file_prefix"; "avhrr_dir"; "qual_dir"; "sunsatangles_dir"]%string.
Definition expected_params : list string :=
  ["satellite_name"; "xutcs"; "lats"; "lons"; "ref1"; "ref2"; "ref3"; "bt3"; "bt4"; "bt5"; "sun_zen"; "sat_zen"; "sun_azi"; "sat_azi";
   "rel_azi"; "qual_flags"; "start_line"; "end_line"; "gac_file"; "meta_data"; "output_file_prefix"; "avhrr_dir"; "qual_dir"; "sunsatangles_dir"]%string.

Fixpoint strs_eqb (a b : list string) : bool :=
  match a, b with [], [] => true | x :: r, y :: s => String.eqb x y && strs_eqb r s | _, _ => false end.

Lemma argument_order :
  strs_eqb reader_save_args expected_save_args && strs_eqb save_gac_params expected_params &&
  strs_eqb reader_angles_unpack ["sat_azi"; "sat_zen"; "sun_azi"; "sun_zen"; "rel_azi"]%string = true.
Proof. vm_compute. reflexivity. Qed.

(* save_gac -> avhrrGAC_io: positional arguments arrive under the parameter that stands for the same product *)
Definition io_pairs := combine io_call_args io_params.
Definition io_pair_ok (p : string * string) : bool :=
  let '(a, b) := p in
  String.eqb a b ||
  str_mem (a ++ ">" ++ b)%string ["lats>arrLat_full"; "lons>arrLon_full"; "sun_zen>arrSZA"; "sat_zen>arrSTZ"; "sun_azi>arrSAA"; "sat_azi>arrSTA"; "rel_azi>arrRAA"]%string.
Lemma io_order : (length io_call_args =? length io_params)%nat && forallb io_pair_ok io_pairs = true.
Proof. vm_compute. reflexivity. Qed.

(* which product lands in which dataset of which file, with which integer type *)
Definition expected_datasets : list (nat * string * string * string) :=
  [(0%nat, "/image1/data", "int16", "ref1"); (0%nat, "/image2/data", "int16", "ref2"); (0%nat, "/image3/data", "int16", "bt3");
   (0%nat, "/image4/data", "int16", "bt4"); (0%nat, "/image5/data", "int16", "bt5"); (0%nat, "/image6/data", "int16", "ref3");
   (0%nat, "/where/lat/data", "int32", "arrLat_full"); (0%nat, "/where/lon/data", "int32", "arrLon_full");
   (0%nat, "/how/channel_list", "", "channellist");
   (1%nat, "/image1/data", "int16", "arrSZA"); (1%nat, "/image2/data", "int16", "arrSTZ"); (1%nat, "/image3/data", "int16", "arrRAA");
   (1%nat, "/image4/data", "int16", "arrSAA"); (1%nat, "/image5/data", "int16", "arrSTA");
   (1%nat, "/where/lat/data", "int32", "arrLat_full"); (1%nat, "/where/lon/data", "int32", "arrLon_full");
   (2%nat, "data", "int16", "qual_flags"); (2%nat, "missing_scanlines", "int16", "miss_lines");
   (2%nat, "scanline_timestamps", "int64", "xutcs.astype('int64')")]%string.
Fixpoint ds_eqb (a b : list (nat * string * string * string)) : bool :=
  match a, b with
  | [], [] => true
  | (f, p, t, d) :: r, (f', p', t', d') :: s => Nat.eqb f f' && String.eqb p p' && String.eqb t t' && String.eqb d d' && ds_eqb r s
  | _, _ => false
  end.
Lemma datasets : ds_eqb io_datasets expected_datasets = true.
Proof. vm_compute. reflexivity. Qed.

Definition expected_scaling : list (string * string * string) :=
  [("bt3", "Sub", "273.15"); ("bt4", "Sub", "273.15"); ("bt5", "Sub", "273.15");
   ("bt3,bt4,bt5,ref1,ref2,ref3,sun_zen,sat_zen,sun_azi,sat_azi,rel_azi", "Mult", "100.0");
   ("lats,lons", "Mult", "1000.0");
   ("ref1,ref2,ref3,bt3,bt4,bt5,sun_zen,sat_zen,sun_azi,sat_azi,rel_azi", "fill", "MISSING_DATA");
   ("lats,lons", "fill", "MISSING_DATA_LATLON")]%string.
Fixpoint sc_eqb (a b : list (string * string * string)) : bool :=
  match a, b with
  | [], [] => true
  | (x, y, z) :: r, (x', y', z') :: s => String.eqb x x' && String.eqb y y' && String.eqb z z' && sc_eqb r s
  | _, _ => false
  end.
Lemma scaling : sc_eqb save_scaling expected_scaling = true /\ missing_data = -32001 /\ missing_data_latlon = -999999.
Proof. repeat split. Qed.

(* ---------- which rows ---------- *)
Lemma py_rows_spec {A} (l : list A) a b : 0 <= a -> a <= b ->
  py_rows l a b = firstn (Z.to_nat (b - a + 1)) (skipn (Z.to_nat a) l).
Proof. intros Ha Hb. unfold py_rows. destruct (Z.ltb_spec a 0), (Z.ltb_spec b a); try lia. reflexivity. Qed.

Lemma skipn_skipn' {A} (l : list A) : forall a b, skipn a (skipn b l) = skipn (b + a) l.
Proof. induction l as [|x l IH]; intros a b; [rewrite !skipn_nil; reflexivity|]. destruct b; simpl; [reflexivity|]. apply IH. Qed.

Lemma skipn_firstn_comm' {A} (l : list A) : forall m n, skipn m (firstn n l) = firstn (n - m) (skipn m l).
Proof.
  induction l as [|x l IH]; intros m n; [rewrite firstn_nil, !skipn_nil, firstn_nil; reflexivity|].
  destruct m, n; simpl; try reflexivity. apply IH.
Qed.

(* rows of the output = rows first_valid+start' .. first_valid+end' of the input, where start', end' are the
   requested lines clamped to the valid range *)
Theorem slice_rows {A} (ch : list A) start end_ fv lv mid miss qn :
  0 <= fv -> fv <= lv -> lv < Z.of_nat (length ch) -> 0 <= start ->
  let nv := lv - fv + 1 in
  let s' := Z.min start (nv - 1) in let e' := Z.min end_ (nv - 1) in
  s' <= e' ->
  sl_rows (slice_channel ch start end_ fv lv mid miss qn) =
  firstn (Z.to_nat (e' - s' + 1)) (skipn (Z.to_nat (fv + s')) ch).
Proof.
  intros Hfv Hlv Hlen Hs nv s' e' Hse. unfold slice_channel. cbn [sl_rows].
  rewrite (py_rows_spec ch fv lv) by lia.
  assert (Hn1 : Z.of_nat (length (firstn (Z.to_nat (lv - fv + 1)) (skipn (Z.to_nat fv) ch))) = nv).
  { rewrite firstn_length, skipn_length. unfold nv. lia. }
  rewrite Hn1. fold s'. fold e'.
  rewrite py_rows_spec by (unfold s', e' in *; lia).
  rewrite skipn_firstn_comm', skipn_skipn'. rewrite firstn_firstn.
  replace (Z.to_nat fv + Z.to_nat s')%nat with (Z.to_nat (fv + s')) by (unfold s'; lia).
  f_equal. unfold s', e', nv in *. lia.
Qed.

(* midnight line: re-indexed to the cut, absent when it falls outside *)
Theorem midnight_reindexed {A} (ch : list A) start end_ fv lv m miss qn :
  0 <= fv -> fv <= lv -> lv < Z.of_nat (length ch) -> 0 <= start ->
  let nv := lv - fv + 1 in
  let s' := Z.min start (nv - 1) in let e' := Z.min end_ (nv - 1) in
  s' <= e' ->
  sl_midnight (slice_channel ch start end_ fv lv (Some m) miss qn) =
  if (fv + s' <=? m) && (m <=? fv + e') then Some (m - (fv + s')) else None.
Proof.
  intros Hfv Hlv Hlen Hs nv s' e' Hse. unfold slice_channel. cbn [sl_midnight].
  rewrite (py_rows_spec ch fv lv) by lia.
  assert (Hn1 : Z.of_nat (length (firstn (Z.to_nat (lv - fv + 1)) (skipn (Z.to_nat fv) ch))) = nv).
  { rewrite firstn_length, skipn_length. unfold nv. lia. }
  rewrite Hn1. fold s'. fold e'. unfold update_scanline.
  destruct (Z.ltb_spec (m - fv) 0), (Z.leb_spec (lv - fv + 1) (m - fv)); cbn [orb];
    destruct (Z.leb_spec (fv + s') m), (Z.leb_spec m (fv + e')); cbn [andb];
    try (destruct (Z.ltb_spec (m - fv - s') 0), (Z.leb_spec (e' - s' + 1) (m - fv - s')); cbn [orb]);
    unfold s', e', nv in *; try lia; try reflexivity; f_equal; lia.
Qed.

Theorem midnight_absent {A} (ch : list A) start end_ fv lv miss qn :
  sl_midnight (slice_channel ch start end_ fv lv None miss qn) = None.
Proof. reflexivity. Qed.

(* a start line at or beyond the number of valid lines is rejected; end 0 or beyond means the last valid line *)
Theorem start_rejected start end_ fv lv : lv - fv + 1 <= start -> check_user_scanlines start end_ fv lv = CheckError.
Proof. intros H. unfold check_user_scanlines. destruct (Z.leb_spec (lv - fv + 1) start); [reflexivity|lia]. Qed.

Theorem end_rule start end_ fv lv : start < lv - fv + 1 ->
  check_user_scanlines start end_ fv lv =
  Checked start (if (end_ =? 0) || (lv - fv + 1 <=? end_) then lv - fv else end_).
Proof.
  intros H. unfold check_user_scanlines. destruct (Z.leb_spec (lv - fv + 1) start); [lia|].
  destruct (Z.eqb_spec end_ 0); cbn [orb]; [f_equal; lia|].
  destruct (Z.leb_spec (lv - fv + 1) end_); [f_equal; lia|reflexivity].
Qed.

(* encoding: truncation toward zero of value * 100 (temperatures in Celsius), coordinates * 1000, fills for NaN *)
Theorem encoding :
  (forall scale offset fill (v : Q), encode scale offset fill (Some v) =
     let y := ((v - offset) * inject_Z scale)%Q in Z.quot (Qnum y) (Zpos (Qden y))) /\
  (forall scale offset fill, encode scale offset fill None = fill) /\
  encode_bt (-32001) (Some (27315 # 100)%Q) = 0 /\ encode_bt (-32001) (Some (30000 # 100)%Q) = 2685 /\
  encode_bt (-32001) (Some (20000 # 100)%Q) = -7315 /\
  encode_refl (-32001) (Some (123456 # 1000)%Q) = 12345 /\
  encode_latlon (-999999) (Some (-1234567 # 10000)%Q) = -123456.
Proof. repeat split. Qed.
