From Coq Require Import String ZArith QArith List Bool Arith Lia.
From PV Require Import M_Io Gen_SaveGac Gen_Consts.
Import ListNotations.
Open Scope Z_scope.

(* ---------- the call tables (Gen_SaveGac: traced on tagged inputs) ---------- *)
Fixpoint kw_eqb (a b : list (string * string)) : bool :=
  match a, b with
  | [], [] => true
  | (k, v) :: r, (k', v') :: s => String.eqb k k' && String.eqb v v' && kw_eqb r s
  | _, _ => false
  end.
Fixpoint str_mem (x : string) (l : list string) : bool := match l with [] => false | y :: r => String.eqb x y || str_mem x r end.

(* every product is cut by slice_channel with the same four selection arguments, each bound to the quantity of its name *)
Definition std_kwargs : list (string * string) :=
  [("end_line", "end_line"); ("first_valid_lat", "first_valid_lat"); ("last_valid_lat", "last_valid_lat"); ("start_line", "start_line")]%string.
Definition selection (kw : list (string * string)) : list (string * string) :=
  filter (fun p => str_mem (fst p) ["end_line"; "first_valid_lat"; "last_valid_lat"; "start_line"]%string) kw.
Definition products15 : list string :=
  ["ch0"; "ch1"; "ch2"; "ch3"; "ch4"; "ch5"; "sun_zen"; "sun_azi"; "sat_zen"; "sat_azi"; "rel_azi"; "lons"; "lats"; "qual_flags"; "times"]%string.
Definition meta_call_ok (c : string * list (string * string)) : bool :=
  kw_eqb (selection (snd c)) std_kwargs &&
  forallb (fun k => str_mem k (map fst (snd c))) ["midnight_scanline"; "miss_lines"; "qual_flags"]%string &&
  forallb (fun p => String.eqb (fst p) (snd p)) (snd c).
Definition product_call_ok (c : string * list (string * string)) : bool := kw_eqb (snd c) std_kwargs.
Definition uniform_ok : bool :=
  let metas := filter (fun c => String.eqb (fst c) "meta") slice_calls in
  let prods := filter (fun c => negb (String.eqb (fst c) "meta")) slice_calls in
  (length metas =? 1)%nat && forallb meta_call_ok metas &&
  forallb product_call_ok prods && (length prods =? 15)%nat &&
  forallb (fun p => str_mem p (map fst prods)) products15.
Lemma uniform : uniform_ok = true.
Proof. vm_compute. reflexivity. Qed.

(* reader -> writer: Reader.save hands every quantity over under the parameter that stands for it *)
Definition expected_params : list string :=
  ["satellite_name"; "xutcs"; "lats"; "lons"; "ref1"; "ref2"; "ref3"; "bt3"; "bt4"; "bt5"; "sun_zen"; "sat_zen"; "sun_azi"; "sat_azi";
   "rel_azi"; "qual_flags"; "start_line"; "end_line"; "gac_file"; "meta_data"; "output_file_prefix"; "avhrr_dir"; "qual_dir"; "sunsatangles_dir"]%string.
Definition expected_roles : list (string * string) :=
  [("satellite_name", "spacecraft_name"); ("xutcs", "times"); ("lats", "lats"); ("lons", "lons");
   ("ref1", "ch0"); ("ref2", "ch1"); ("ref3", "ch2"); ("bt3", "ch3"); ("bt4", "ch4"); ("bt5", "ch5");
   ("sun_zen", "sun_zen"); ("sat_zen", "sat_zen"); ("sun_azi", "sun_azi"); ("sat_azi", "sat_azi"); ("rel_azi", "rel_azi");
   ("qual_flags", "qual_flags"); ("start_line", "start_line"); ("end_line", "end_line"); ("gac_file", "filename");
   ("meta_data", "meta_data"); ("output_file_prefix", "output_file_prefix"); ("avhrr_dir", "avhrr_dir"); ("qual_dir", "qual_dir");
   ("sunsatangles_dir", "sunsatangles_dir")]%string.
Fixpoint strs_eqb (a b : list string) : bool :=
  match a, b with [], [] => true | x :: r, y :: s => String.eqb x y && strs_eqb r s | _, _ => false end.
Lemma argument_order : strs_eqb save_gac_params expected_params && kw_eqb reader_save_roles expected_roles = true.
Proof. vm_compute. reflexivity. Qed.

(* which product lands in which dataset of which file, with which integer type *)
Definition expected_datasets : list (nat * string * string * string) :=
  [(0%nat, "/how/channel_list", "object", "other");
   (0%nat, "/image1/data", "int16", "ch0"); (0%nat, "/image2/data", "int16", "ch1"); (0%nat, "/image3/data", "int16", "ch3");
   (0%nat, "/image4/data", "int16", "ch4"); (0%nat, "/image5/data", "int16", "ch5"); (0%nat, "/image6/data", "int16", "ch2");
   (0%nat, "/where/lat/data", "int32", "lats"); (0%nat, "/where/lon/data", "int32", "lons");
   (1%nat, "/image1/data", "int16", "sun_zen"); (1%nat, "/image2/data", "int16", "sat_zen"); (1%nat, "/image3/data", "int16", "rel_azi");
   (1%nat, "/image4/data", "int16", "sun_azi"); (1%nat, "/image5/data", "int16", "sat_azi");
   (1%nat, "/where/lat/data", "int32", "lats"); (1%nat, "/where/lon/data", "int32", "lons");
   (2%nat, "/ancillary/missing_scanlines", "int16", "miss_lines"); (2%nat, "/ancillary/scanline_timestamps", "int64", "times");
   (2%nat, "/qual_flags/data", "int16", "qual_flags")]%string.
Fixpoint ds_eqb (a b : list (nat * string * string * string)) : bool :=
  match a, b with
  | [], [] => true
  | (f, p, t, d) :: r, (f', p', t', d') :: s => Nat.eqb f f' && String.eqb p p' && String.eqb t t' && String.eqb d d' && ds_eqb r s
  | _, _ => false
  end.
Lemma datasets : ds_eqb io_datasets expected_datasets = true.
Proof. vm_compute. reflexivity. Qed.

(* encoding of every stored product, recovered from the stored values: reflectances and angles x100, brightness temperatures
   (K - 273.15) x100, coordinates x1000; a missing value is stored as -32001 (-999999 for coordinates) *)
Definition expected_encoding (role : string) : string * string :=
  if str_mem role ["ch3"; "ch4"; "ch5"]%string then ("offset=273.15 scale=100.0", "-32001")%string
  else if str_mem role ["lats"; "lons"]%string then ("offset=0.0 scale=1000.0", "-999999")%string
  else ("offset=0.0 scale=100.0", "-32001")%string.
Definition scaling_ok : bool :=
  forallb (fun q => let '(role, enc, fill, _) := q in
                    String.eqb enc (fst (expected_encoding role)) && String.eqb fill (snd (expected_encoding role))) save_scaling &&
  forallb (fun r => str_mem r (map (fun q => fst (fst (fst q))) save_scaling))
          ["ch0"; "ch1"; "ch2"; "ch3"; "ch4"; "ch5"; "sun_zen"; "sun_azi"; "sat_zen"; "sat_azi"; "rel_azi"; "lons"; "lats"]%string.
Lemma scaling : scaling_ok = true /\ missing_data = -32001 /\ missing_data_latlon = -999999.
Proof. repeat split. Qed.

(* ---------- which rows ---------- *)
Lemma py_rows_spec {A} (l : list A) a b : 0 <= a -> a <= b ->
  py_rows l a b = firstn (Z.to_nat (b - a + 1)) (skipn (Z.to_nat a) l).
Proof. intros Ha Hb. unfold py_rows. destruct (Z.ltb_spec a 0), (Z.ltb_spec b a); try lia. reflexivity. Qed.

Lemma skipn_skipn' {A} (l : list A) : forall a b, skipn a (skipn b l) = skipn (b + a) l.
Proof. induction l as [|x l IH]; intros a b; [rewrite !skipn_nil; reflexivity|]. destruct b; simpl; [reflexivity|]. apply IH. Qed.

Lemma skipn_firstn_comm' {A} (l : list A) : forall m n, skipn m (firstn n l) = firstn (n - m) (skipn m l).
Proof.
  induction l as [|x l IH]; intros m n; [rewrite firstn_nil, !skipn_nil, firstn_nil; reflexivity|].
  destruct m, n; simpl; try reflexivity. apply IH.
Qed.

(* rows of the output = rows first_valid+start' .. first_valid+end' of the input, where start', end' are the
   requested lines clamped to the valid range *)
Theorem slice_rows {A} (ch : list A) start end_ fv lv mid miss qn :
  0 <= fv -> fv <= lv -> lv < Z.of_nat (length ch) -> 0 <= start ->
  let nv := lv - fv + 1 in
  let s' := Z.min start (nv - 1) in let e' := Z.min end_ (nv - 1) in
  s' <= e' ->
  sl_rows (slice_channel ch start end_ fv lv mid miss qn) =
  firstn (Z.to_nat (e' - s' + 1)) (skipn (Z.to_nat (fv + s')) ch).
Proof.
  intros Hfv Hlv Hlen Hs nv s' e' Hse. unfold slice_channel. cbn [sl_rows].
  rewrite (py_rows_spec ch fv lv) by lia.
  assert (Hn1 : Z.of_nat (length (firstn (Z.to_nat (lv - fv + 1)) (skipn (Z.to_nat fv) ch))) = nv).
  { rewrite firstn_length, skipn_length. unfold nv. lia. }
  rewrite Hn1. fold s'. fold e'.
  rewrite py_rows_spec by (unfold s', e' in *; lia).
  rewrite skipn_firstn_comm', skipn_skipn'. rewrite firstn_firstn.
  replace (Z.to_nat fv + Z.to_nat s')%nat with (Z.to_nat (fv + s')) by (unfold s'; lia).
  f_equal. unfold s', e', nv in *. lia.
Qed.

(* midnight line: re-indexed to the cut, absent when it falls outside *)
Theorem midnight_reindexed {A} (ch : list A) start end_ fv lv m miss qn :
  0 <= fv -> fv <= lv -> lv < Z.of_nat (length ch) -> 0 <= start ->
  let nv := lv - fv + 1 in
  let s' := Z.min start (nv - 1) in let e' := Z.min end_ (nv - 1) in
  s' <= e' ->
  sl_midnight (slice_channel ch start end_ fv lv (Some m) miss qn) =
  if (fv + s' <=? m) && (m <=? fv + e') then Some (m - (fv + s')) else None.
Proof.
  intros Hfv Hlv Hlen Hs nv s' e' Hse. unfold slice_channel. cbn [sl_midnight].
  rewrite (py_rows_spec ch fv lv) by lia.
  assert (Hn1 : Z.of_nat (length (firstn (Z.to_nat (lv - fv + 1)) (skipn (Z.to_nat fv) ch))) = nv).
  { rewrite firstn_length, skipn_length. unfold nv. lia. }
  rewrite Hn1. fold s'. fold e'. unfold update_scanline.
  destruct (Z.ltb_spec (m - fv) 0), (Z.leb_spec (lv - fv + 1) (m - fv)); cbn [orb];
    destruct (Z.leb_spec (fv + s') m), (Z.leb_spec m (fv + e')); cbn [andb];
    try (destruct (Z.ltb_spec (m - fv - s') 0), (Z.leb_spec (e' - s' + 1) (m - fv - s')); cbn [orb]);
    unfold s', e', nv in *; try lia; try reflexivity; f_equal; lia.
Qed.

Theorem midnight_absent {A} (ch : list A) start end_ fv lv miss qn :
  sl_midnight (slice_channel ch start end_ fv lv None miss qn) = None.
Proof. reflexivity. Qed.

(* a start line at or beyond the number of valid lines is rejected; end 0 or beyond means the last valid line *)
Theorem start_rejected start end_ fv lv : lv - fv + 1 <= start -> check_user_scanlines start end_ fv lv = CheckError.
Proof. intros H. unfold check_user_scanlines. destruct (Z.leb_spec (lv - fv + 1) start); [reflexivity|lia]. Qed.

Theorem end_rule start end_ fv lv : start < lv - fv + 1 ->
  check_user_scanlines start end_ fv lv =
  Checked start (if (end_ =? 0) || (lv - fv + 1 <=? end_) then lv - fv else end_).
Proof.
  intros H. unfold check_user_scanlines. destruct (Z.leb_spec (lv - fv + 1) start); [lia|].
  destruct (Z.eqb_spec end_ 0); cbn [orb]; [f_equal; lia|].
  destruct (Z.leb_spec (lv - fv + 1) end_); [f_equal; lia|reflexivity].
Qed.

(* encoding: truncation toward zero of value * 100 (temperatures in Celsius), coordinates * 1000, fills for NaN *)
Theorem encoding :
  (forall scale offset fill (v : Q), encode scale offset fill (Some v) =
     let y := ((v - offset) * inject_Z scale)%Q in Z.quot (Qnum y) (Zpos (Qden y))) /\
  (forall scale offset fill, encode scale offset fill None = fill) /\
  encode_bt (-32001) (Some (27315 # 100)%Q) = 0 /\ encode_bt (-32001) (Some (30000 # 100)%Q) = 2685 /\
  encode_bt (-32001) (Some (20000 # 100)%Q) = -7315 /\
  encode_refl (-32001) (Some (123456 # 1000)%Q) = 12345 /\
  encode_latlon (-999999) (Some (-1234567 # 10000)%Q) = -123456.
Proof. repeat split. Qed.
