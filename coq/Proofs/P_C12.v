From Coq Require Import List Bool Arith Lia.
From PV Require Import M_Cache P_Cache.
Import ListNotations.

(* Two reader instances A and B (different files, families, configurations) used in an arbitrary interleaving:
   each instance carries its own caches, so what is observed on one is what would be observed without the other. *)
Section Two.
  Variables Times LonLat Meta : Type.
  (* parameters of the two instances *)
  Variables (T0a T0b : Times) (L0a L0b : LonLat) (da db : bool).
  Variables (sta stb : Times -> Times) (sla slb : LonLat -> Times -> LonLat) (fa fb : LonLat -> LonLat) (ma mb : Times -> Meta).

  Notation stepA := (step Times LonLat Meta T0a L0a da sta sla fa ma).
  Notation stepB := (step Times LonLat Meta T0b L0b db stb slb fb mb).
  Notation runA := (run Times LonLat Meta T0a L0a da sta sla fa ma).
  Notation runB := (run Times LonLat Meta T0b L0b db stb slb fb mb).
  Notation st := (rstate Times LonLat Meta).
  Notation obs := (observation Times LonLat Meta).

  (* an interleaved history: true = operation on A, false = operation on B *)
  Fixpoint run2 (sa sb : st) (ops : list (bool * op)) : list (bool * obs) :=
    match ops with
    | [] => []
    | (true, o) :: r => let (sa', ob) := stepA sa o in (true, ob) :: run2 sa' sb r
    | (false, o) :: r => let (sb', ob) := stepB sb o in (false, ob) :: run2 sa sb' r
    end.

  Definition proj (w : bool) {X} (l : list (bool * X)) : list X := map snd (filter (fun p => Bool.eqb (fst p) w) l).

  Lemma proj_cons_same w {X} (x : X) l : proj w ((w, x) :: l) = x :: proj w l.
  Proof. unfold proj. cbn [filter fst]. rewrite Bool.eqb_reflx. reflexivity. Qed.
  Lemma proj_cons_other w {X} (x : X) l : proj w ((negb w, x) :: l) = proj w l.
  Proof. unfold proj. cbn [filter fst]. destruct w; reflexivity. Qed.

  Lemma runA_cons s o r : runA s (o :: r) = let (s', ob) := stepA s o in let (s'', obs) := runA s' r in (s'', ob :: obs).
  Proof. reflexivity. Qed.
  Lemma runB_cons s o r : runB s (o :: r) = let (s', ob) := stepB s o in let (s'', obs) := runB s' r in (s'', ob :: obs).
  Proof. reflexivity. Qed.

  Theorem instances_isolated ops : forall sa sb,
    proj true (run2 sa sb ops) = snd (runA sa (proj true ops)) /\
    proj false (run2 sa sb ops) = snd (runB sb (proj false ops)).
  Proof.
    induction ops as [|[w o] r IH]; intros sa sb; [split; reflexivity|].
    destruct w; cbn [run2].
    - destruct (stepA sa o) as [sa' ob] eqn:E. destruct (IH sa' sb) as [A B].
      rewrite (proj_cons_same true), (proj_cons_same true), (proj_cons_other false (X := obs)), (proj_cons_other false (X := op)).
      rewrite runA_cons, E.
      rewrite A. destruct (runA sa' _) as [s'' os]. cbn [snd]. split; [reflexivity|exact B].
    - destruct (stepB sb o) as [sb' ob] eqn:E. destruct (IH sa sb') as [A B].
      rewrite (proj_cons_same false), (proj_cons_same false), (proj_cons_other true (X := obs)), (proj_cons_other true (X := op)).
      rewrite runB_cons, E.
      rewrite B. destruct (runB sb' _) as [s'' os]. cbn [snd]. split; [exact A|reflexivity].
  Qed.
End Two.

(* repetition: the same operation issued again (with no coordinate-producing operation in between that was the
   first one) is observed identically: canonical observations depend on the history only through one bit *)
Lemma canon_run_app Times LonLat Meta T0 L0 d st sl f m before (a b : list op) :
  canon_run Times LonLat Meta T0 L0 d st sl f m before (a ++ b) =
  canon_run Times LonLat Meta T0 L0 d st sl f m before a ++
  canon_run Times LonLat Meta T0 L0 d st sl f m (before || existsb coord_op a) b.
Proof.
  revert before. induction a as [|o a IH]; intros before; simpl; [rewrite orb_false_r; reflexivity|].
  rewrite IH. rewrite orb_assoc. reflexivity.
Qed.
