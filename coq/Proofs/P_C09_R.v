(* C09 -- the great-circle interpolation of slerp.py as a real-valued formula on Cartesian unit vectors:
   end points are reproduced and the result stays on the unit sphere. *)
From Coq Require Import Reals Lra.
Open Scope R_scope.

(* one Cartesian component of  sin((1-t)w)/sin(w) * p + sin(t w)/sin(w) * q *)
Definition sl (w t a b : R) : R := sin ((1 - t) * w) / sin w * a + sin (t * w) / sin w * b.

Lemma sl_0 : forall w a b, sin w <> 0 -> sl w 0 a b = a.
Proof.
  intros w a b H. unfold sl. replace ((1 - 0) * w) with w by ring. replace (0 * w) with 0 by ring.
  rewrite sin_0. field. exact H.
Qed.

Lemma sl_1 : forall w a b, sin w <> 0 -> sl w 1 a b = b.
Proof.
  intros w a b H. unfold sl. replace ((1 - 1) * w) with 0 by ring. replace (1 * w) with w by ring.
  rewrite sin_0. field. exact H.
Qed.

Lemma slerp_trig : forall A B, sin A * sin A + sin B * sin B + 2 * sin A * sin B * cos (A + B) = sin (A + B) * sin (A + B).
Proof.
  intros A B. rewrite sin_plus, cos_plus.
  pose proof (sin2_cos2 A) as HA. pose proof (sin2_cos2 B) as HB. unfold Rsqr in HA, HB.
  assert (CA : cos A * cos A = 1 - sin A * sin A) by lra.
  assert (CB : cos B * cos B = 1 - sin B * sin B) by lra.
  replace ((sin A * cos B + cos A * sin B) * (sin A * cos B + cos A * sin B))
    with (sin A * sin A * (cos B * cos B) + (cos A * cos A) * (sin B * sin B) + 2 * sin A * sin B * cos A * cos B) by ring.
  rewrite CA, CB. ring.
Qed.

(* p, q unit vectors at angle w: the interpolated vector is a unit vector for every t *)
Theorem sl_unit : forall w t a1 a2 a3 b1 b2 b3, sin w <> 0 ->
  a1 * a1 + a2 * a2 + a3 * a3 = 1 -> b1 * b1 + b2 * b2 + b3 * b3 = 1 -> a1 * b1 + a2 * b2 + a3 * b3 = cos w ->
  sl w t a1 b1 * sl w t a1 b1 + sl w t a2 b2 * sl w t a2 b2 + sl w t a3 b3 * sl w t a3 b3 = 1.
Proof.
  intros w t a1 a2 a3 b1 b2 b3 HS Ha Hb Hab. unfold sl.
  set (sA := sin ((1 - t) * w)). set (sB := sin (t * w)). set (S := sin w) in *.
  assert (K : sA * sA + sB * sB + 2 * sA * sB * cos w = S * S).
  { unfold sA, sB, S. pose proof (slerp_trig ((1 - t) * w) (t * w)) as T.
    replace ((1 - t) * w + t * w) with w in T by ring. exact T. }
  replace ((sA / S * a1 + sB / S * b1) * (sA / S * a1 + sB / S * b1) + (sA / S * a2 + sB / S * b2) * (sA / S * a2 + sB / S * b2) +
           (sA / S * a3 + sB / S * b3) * (sA / S * a3 + sB / S * b3))
    with ((sA * sA * (a1 * a1 + a2 * a2 + a3 * a3) + 2 * sA * sB * (a1 * b1 + a2 * b2 + a3 * b3) + sB * sB * (b1 * b1 + b2 * b2 + b3 * b3)) / (S * S))
    by (field; exact HS).
  rewrite Ha, Hb, Hab. replace (sA * sA * 1 + 2 * sA * sB * cos w + sB * sB * 1) with (S * S) by lra.
  field. exact HS.
Qed.

(* symmetric weights: at t = 1/2 both end points enter with the same weight *)
Lemma sl_half_symmetric : forall w a b, sl w (1 / 2) a b = sl w (1 / 2) b a.
Proof. intros w a b. unfold sl. replace ((1 - 1 / 2) * w) with (1 / 2 * w) by field. ring. Qed.
