From Coq Require Import ZArith List Bool Arith Lia.
From PV Require Import Bytes Layout M_Read Spec_Layout Gen_Layout Gen_Consts.
Import ListNotations.
Open Scope nat_scope.

Lemma skipn_app_length {A} (h x : list A) n : length h = n -> skipn n (h ++ x) = x.
Proof. intros <-. rewrite skipn_app, Nat.sub_diag, skipn_all. reflexivity. Qed.

(* Generic: a file = header region ++ records written from the spec ++ partial trailing record. *)
Theorem read_file_roundtrip offset asz size has_arch (cs : list cell) hdr recs tail hc :
  0 < size -> cells_wf size cs = true -> Forall (vals_ok cs) recs -> length tail < size ->
  length hdr = data_start offset asz has_arch ->
  let file := hdr ++ concat (map (write_record size cs) recs) ++ tail in
  let sr := read_file offset asz size has_arch file hc in
  sr_n sr = length recs /\
  sr_warn sr = negb (Z.of_nat (length recs) =? hc)%Z /\
  forall i vs, nth_error recs i = Some vs -> map (field_value sr i) cs = vs.
Proof.
  intros Hs Hwf Hv Ht Hh file sr. unfold sr, read_file, file.
  rewrite (skipn_app_length hdr _ _ Hh). unfold read_scanlines. cbn [sr_n sr_warn sr_rec].
  destruct (file_roundtrip size cs recs tail Hs Hwf Hv Ht) as [Hn Hr].
  rewrite Hn. repeat split. intros i vs Hi. unfold field_value. cbn [sr_rec]. apply Hr. assumption.
Qed.

(* ---------- per-format facts (finite tables: decided by computation) ---------- *)
Definition fmt_ok (spec gen : list leaf) (spec_size gen_size : Z) (offset itemsize : Z) : bool :=
  layout_agrees spec gen && (spec_size =? gen_size)%Z && (gen_size =? itemsize)%Z && (offset =? itemsize)%Z
  && cells_wf (Z.to_nat spec_size) (layout_cells spec)
  && cells_subset (layout_cells spec) (layout_cells gen).

Lemma klm_gac_ok : fmt_ok spec_klm_gac klm_gac spec_klm_gac_size klm_gac_size gac_klm_offset gac_klm_itemsize = true.
Proof. vm_cast_no_check (eq_refl true). Qed.
Lemma klm_lac_ok : fmt_ok spec_klm_lac klm_lac spec_klm_lac_size klm_lac_size lac_klm_offset lac_klm_itemsize = true.
Proof. vm_cast_no_check (eq_refl true). Qed.
Lemma pod_gac_ok : fmt_ok spec_pod_gac pod_gac spec_pod_gac_size pod_gac_size gac_pod_offset gac_pod_itemsize = true.
Proof. vm_cast_no_check (eq_refl true). Qed.
Lemma pod_lac_ok : fmt_ok spec_pod_lac pod_lac spec_pod_lac_size pod_lac_size lac_pod_offset lac_pod_itemsize = true.
Proof. vm_cast_no_check (eq_refl true). Qed.

(* the format's record strides and archive header sizes *)
Lemma strides : spec_klm_gac_size = 4608%Z /\ spec_klm_lac_size = 15872%Z /\ spec_pod_gac_size = 3220%Z /\
  spec_pod_lac_size = 14800%Z /\ klm_ars_size = 512%Z /\ pod_tbm_size = 122%Z.
Proof. repeat split. Qed.

(* headers: spec fields agree with the generated dtypes; header + analog telemetry fit in one record *)
Definition hdr_ok (spec gen : list leaf) (spec_size gen_size : Z) : bool :=
  layout_agrees spec gen && (spec_size =? gen_size)%Z
  && cells_wf (Z.to_nat spec_size) (layout_cells spec)
  && cells_subset (layout_cells spec) (layout_cells gen).

Lemma headers_ok :
  hdr_ok spec_klm_header klm_header spec_klm_header_size klm_header_size
  && hdr_ok spec_klm_analog_v2 klm_analog_v2 spec_klm_analog_v2_size klm_analog_v2_size
  && hdr_ok spec_klm_analog_v5 klm_analog_v5 spec_klm_analog_v5_size klm_analog_v5_size
  && hdr_ok spec_klm_ars klm_ars spec_klm_ars_size klm_ars_size
  && hdr_ok spec_pod_header0 pod_header0 spec_pod_header0_size pod_header0_size
  && hdr_ok spec_pod_header1 pod_header1 spec_pod_header1_size pod_header1_size
  && hdr_ok spec_pod_header2 pod_header2 spec_pod_header2_size pod_header2_size
  && hdr_ok spec_pod_header3 pod_header3 spec_pod_header3_size pod_header3_size
  && hdr_ok spec_pod_tbm pod_tbm spec_pod_tbm_size pod_tbm_size = true.
Proof. vm_cast_no_check (eq_refl true). Qed.

(* KLM: header (424) followed by the analog telemetry block (v2: 264, v5: 556) inside the first record *)
Definition klm_head_cells (v5 : bool) : list cell :=
  layout_cells spec_klm_header ++
  shift_cells (Z.to_nat spec_klm_header_size) (layout_cells (if v5 then spec_klm_analog_v5 else spec_klm_analog_v2)).

Lemma klm_head_wf : cells_wf (Z.to_nat gac_klm_offset) (klm_head_cells true) = true /\
                    cells_wf (Z.to_nat gac_klm_offset) (klm_head_cells false) = true.
Proof. split; vm_compute; reflexivity. Qed.

Lemma pod_head_wf : cells_wf (Z.to_nat gac_pod_offset) (layout_cells spec_pod_header1) = true /\
                    cells_wf (Z.to_nat gac_pod_offset) (layout_cells spec_pod_header2) = true /\
                    cells_wf (Z.to_nat gac_pod_offset) (layout_cells spec_pod_header3) = true.
Proof. repeat split; vm_compute; reflexivity. Qed.

(* unpack fmt_ok *)
Lemma fmt_ok_parts spec gen ss gs off isz : fmt_ok spec gen ss gs off isz = true ->
  layout_agrees spec gen = true /\ ss = gs /\ gs = isz /\ off = isz /\
  cells_wf (Z.to_nat ss) (layout_cells spec) = true /\
  (forall c, In c (layout_cells spec) -> In c (layout_cells gen)).
Proof.
  unfold fmt_ok. intros H.
  repeat (apply andb_prop in H; destruct H as [H ?]).
  repeat split; try (apply Z.eqb_eq; assumption); try assumption.
  intros c Hc. eapply cells_subset_in; eassumption.
Qed.

(* The per-format round trip, stated once for any format satisfying fmt_ok *)
Theorem format_roundtrip spec gen ss gs off isz asz has_arch hdr recs tail hc :
  fmt_ok spec gen ss gs off isz = true -> (0 < ss)%Z ->
  let size := Z.to_nat isz in
  let cs := layout_cells spec in
  Forall (vals_ok cs) recs -> length tail < size ->
  length hdr = data_start (Z.to_nat off) asz has_arch ->
  let file := hdr ++ concat (map (write_record size cs) recs) ++ tail in
  let sr := read_file (Z.to_nat off) asz size has_arch file hc in
  sr_n sr = length recs /\
  sr_warn sr = negb (Z.of_nat (length recs) =? hc)%Z /\
  (forall i vs, nth_error recs i = Some vs -> map (field_value sr i) cs = vs) /\
  (forall c, In c cs -> In c (layout_cells gen)).
Proof.
  intros Hok Hpos size cs Hv Ht Hh.
  destruct (fmt_ok_parts _ _ _ _ _ _ Hok) as [_ [E1 [E2 [E3 [Hwf Hsub]]]]].
  subst ss gs. 
  destruct (read_file_roundtrip (Z.to_nat off) asz size has_arch cs hdr recs tail hc) as [A [B C]];
    try assumption.
  - unfold size. lia.
  - repeat split; assumption.
Qed.
