From Coq Require Import Reals ZArith Lra Lia.
From Flocq Require Import Core.
From PV Require Import M_Angles.
Open Scope R_scope.

Lemma rmod_range : forall x d, 0 < d -> 0 <= rmod x d < d.
Proof.
  intros x d Hd. unfold rmod.
  pose proof (Zfloor_lb (x / d)) as L. pose proof (Zfloor_ub (x / d)) as U.
  assert (E : x = d * (x / d)) by (field; lra).
  set (q := IZR (Zfloor (x / d))) in *. set (y := x / d) in *.
  split.
  - assert (d * q <= d * y) by (apply Rmult_le_compat_l; lra). lra.
  - assert (d * y < d * (q + 1)) by (apply Rmult_lt_compat_l; lra). lra.
Qed.

Lemma rmod_congr : forall x d, exists k : Z, rmod x d = x - d * IZR k.
Proof. intros x d. exists (Zfloor (x / d)). reflexivity. Qed.

Lemma rmod_small : forall x d, 0 <= x < d -> rmod x d = x.
Proof.
  intros x d H. unfold rmod.
  assert (Zfloor (x / d) = 0%Z).
  { apply Zfloor_imp. cbn. split.
    - apply Rmult_le_pos; [lra|]. apply Rlt_le, Rinv_0_lt_compat. lra.
    - apply Rmult_lt_reg_r with d; [lra|]. unfold Rdiv. rewrite Rmult_assoc, Rinv_l by lra. lra. }
  rewrite H0. cbn. lra.
Qed.

(* ---- centered_modulus ---- *)
Theorem cmod_range : forall x, -180 < cmod x <= 180.
Proof.
  intros x. unfold cmod. pose proof (rmod_range x 360 ltac:(lra)) as R.
  destruct (Rlt_dec 180 (rmod x 360)); lra.
Qed.

Theorem cmod_congr : forall x, exists k : Z, cmod x = x + 360 * IZR k.
Proof.
  intros x. unfold cmod. destruct (rmod_congr x 360) as [k E].
  destruct (Rlt_dec 180 (rmod x 360)).
  - exists (- k - 1)%Z. rewrite E, minus_IZR, opp_IZR. lra.
  - exists (- k)%Z. rewrite E, opp_IZR. lra.
Qed.

(* two representatives in a half-open interval of length 360 that differ by a multiple of 360 are equal *)
Lemma unique_rep : forall a b (k : Z), -180 < a <= 180 -> -180 < b <= 180 -> a = b + 360 * IZR k -> a = b.
Proof.
  intros a b k Ha Hb E.
  destruct (Z_lt_le_dec k 0) as [N|N].
  - assert (IZR k <= -1) by (apply IZR_le; lia). lra.
  - destruct (Z_le_lt_eq_dec 0 k N) as [P|P].
    + assert (1 <= IZR k) by (apply IZR_le; lia). lra.
    + subst k. cbn in E. lra.
Qed.

Theorem cmod_id : forall x, -180 < x <= 180 -> cmod x = x.
Proof. intros x H. destruct (cmod_congr x) as [k E]. apply (unique_rep _ _ k (cmod_range x) H E). Qed.

Theorem cmod_idempotent : forall x, cmod (cmod x) = cmod x.
Proof. intros x. apply cmod_id, cmod_range. Qed.

(* ---- absolute azimuth difference ---- *)
Theorem relaz_range : forall a b, 0 <= relaz a b <= 180.
Proof.
  intros a b. unfold relaz. pose proof (rmod_range (Rabs (a - b)) 360 ltac:(lra)) as R.
  destruct (Rlt_dec 180 (rmod (Rabs (a - b)) 360)); lra.
Qed.

(* the result is +- the difference, up to whole turns *)
Theorem relaz_spec : forall a b, exists (k : Z) (s : R), (s = 1 \/ s = -1) /\ a - b = s * relaz a b + 360 * IZR k.
Proof.
  intros a b. unfold relaz. destruct (rmod_congr (Rabs (a - b)) 360) as [q E].
  set (r := rmod (Rabs (a - b)) 360) in *.
  destruct (Rle_dec 0 (a - b)) as [P|N].
  - rewrite Rabs_pos_eq in E by exact P.
    destruct (Rlt_dec 180 r).
    + exists (q + 1)%Z, (-1). split; [right; reflexivity|]. rewrite plus_IZR. cbn. lra.
    + exists q, 1. split; [left; reflexivity|]. lra.
  - rewrite Rabs_left in E by lra.
    destruct (Rlt_dec 180 r).
    + exists (- q - 1)%Z, 1. split; [left; reflexivity|]. rewrite minus_IZR, opp_IZR. cbn. lra.
    + exists (- q)%Z, (-1). split; [right; reflexivity|]. rewrite opp_IZR. lra.
Qed.

(* a value in [0,180] that is +- the difference up to whole turns is THE folded difference *)
Lemma relaz_unique : forall d r1 r2 (k1 k2 : Z) s1 s2, 0 <= r1 <= 180 -> 0 <= r2 <= 180 ->
  (s1 = 1 \/ s1 = -1) -> (s2 = 1 \/ s2 = -1) ->
  d = s1 * r1 + 360 * IZR k1 -> d = s2 * r2 + 360 * IZR k2 -> r1 = r2.
Proof.
  intros d r1 r2 k1 k2 s1 s2 H1 H2 S1 S2 E1 E2.
  assert (E : s1 * r1 - s2 * r2 = 360 * IZR (k2 - k1)) by (rewrite minus_IZR; lra).
  set (m := (k2 - k1)%Z) in *.
  destruct (Z_lt_le_dec m 0) as [N|N].
  - assert (IZR m <= -1) by (apply IZR_le; lia).
    destruct S1 as [-> | ->]; destruct S2 as [-> | ->]; lra.
  - destruct (Z_le_lt_eq_dec 0 m N) as [P|P].
    + assert (1 <= IZR m) by (apply IZR_le; lia).
      destruct S1 as [-> | ->]; destruct S2 as [-> | ->]; lra.
    + rewrite <- P in E. cbn in E.
      destruct S1 as [-> | ->]; destruct S2 as [-> | ->]; lra.
Qed.

Theorem relaz_sym : forall a b, relaz a b = relaz b a.
Proof. intros a b. unfold relaz. rewrite Rabs_minus_sym. reflexivity. Qed.

(* whole turns added to either azimuth do not change the result *)
Theorem relaz_turns : forall a b (i j : Z), relaz (a + 360 * IZR i) (b + 360 * IZR j) = relaz a b.
Proof.
  intros a b i j.
  destruct (relaz_spec (a + 360 * IZR i) (b + 360 * IZR j)) as [k1 [s1 [S1 E1]]].
  destruct (relaz_spec a b) as [k2 [s2 [S2 E2]]].
  apply (relaz_unique (a - b) _ _ (k1 - i + j)%Z k2 s1 s2 (relaz_range _ _) (relaz_range _ _) S1 S2).
  - rewrite plus_IZR, minus_IZR. lra.
  - exact E2.
Qed.

(* the relative azimuth computed from the raw azimuths is the folded difference of the RETURNED (folded) azimuths *)
Theorem relaz_of_folded : forall a b, relaz (cmod a) (cmod b) = relaz a b.
Proof.
  intros a b. destruct (cmod_congr a) as [i Ei]. destruct (cmod_congr b) as [j Ej]. rewrite Ei, Ej. apply relaz_turns.
Qed.

(* it is the smallest absolute difference over all whole turns *)
Theorem relaz_minimal : forall a b (k : Z), relaz a b <= Rabs (a - b + 360 * IZR k).
Proof.
  intros a b k. destruct (relaz_spec a b) as [q [s [S E]]]. pose proof (relaz_range a b) as R.
  rewrite E. replace (s * relaz a b + 360 * IZR q + 360 * IZR k) with (s * relaz a b + 360 * IZR (q + k)) by (rewrite plus_IZR; lra).
  set (m := (q + k)%Z). set (r := relaz a b) in *.
  destruct (Z_lt_le_dec m 0) as [N|N].
  - assert (IZR m <= -1) by (apply IZR_le; lia). unfold Rabs. destruct (Rcase_abs _); destruct S as [-> | ->]; lra.
  - destruct (Z_le_lt_eq_dec 0 m N) as [P|P].
    + assert (1 <= IZR m) by (apply IZR_le; lia). unfold Rabs. destruct (Rcase_abs _); destruct S as [-> | ->]; lra.
    + replace (IZR m) with 0 by (rewrite <- P; reflexivity). unfold Rabs. destruct (Rcase_abs _); destruct S as [-> | ->]; lra.
Qed.

(* for azimuths that are already folded: plain |a - b|, reflected at 180 *)
Theorem relaz_folded_inputs : forall a b, -180 < a <= 180 -> -180 < b <= 180 ->
  relaz a b = if Rlt_dec 180 (Rabs (a - b)) then 360 - Rabs (a - b) else Rabs (a - b).
Proof.
  intros a b Ha Hb. unfold relaz.
  assert (0 <= Rabs (a - b) < 360) by (unfold Rabs; destruct (Rcase_abs _); lra).
  rewrite rmod_small by assumption. reflexivity.
Qed.

(* ---- one pixel of get_angles ---- *)
Theorem angles_px_spec : forall l s r, angles_px false l s = Some r ->
  -180 < sat_azi r <= 180 /\ -180 < sun_azi r <= 180 /\ 0 <= rel_azi r <= 180 /\
  rel_azi r = relaz (sun_azi r) (sat_azi r) /\
  sat_zenith r = 90 - l_elev l /\ sun_zenith r = s_zen s /\
  (exists k : Z, sat_azi r = l_azi l + 360 * IZR k) /\ (exists k : Z, sun_azi r = rad2deg (s_azi_rad s) + 360 * IZR k).
Proof.
  intros l s r H. unfold angles_px in H. injection H as <-. cbn [sat_azi sun_azi rel_azi sat_zenith sun_zenith].
  split; [apply cmod_range|]. split; [apply cmod_range|]. split; [apply relaz_range|].
  split; [symmetry; apply relaz_of_folded|]. split; [reflexivity|]. split; [reflexivity|].
  split; apply cmod_congr.
Qed.

Theorem angles_px_masked : forall l s, angles_px true l s = None.
Proof. reflexivity. Qed.

Theorem sat_zenith_range : forall l s r, angles_px false l s = Some r -> -90 <= l_elev l <= 90 -> 0 <= sat_zenith r <= 180.
Proof. intros l s r H E. unfold angles_px in H. injection H as <-. cbn [sat_zenith]. lra. Qed.
