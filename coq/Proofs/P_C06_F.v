(* C06 -- floating-point side of the scaling: POD words / 128 are exact in binary64 (and in binary32),
   KLM words / 1e4 in binary64 are within 1e-6 degree (in fact 3e-11) of the exact quotient. *)
From Coq Require Import Reals ZArith Lra Lia.
From Flocq Require Import Core Relative.
Open Scope R_scope.

Lemma pod_scaling_exact : forall w : Z, (Z.abs w < 2 ^ 24)%Z ->
  round radix2 (FLT_exp (-149) 24) ZnearestE (IZR w / 128) = IZR w / 128.
Proof.
  intros w H. apply round_generic; [typeclasses eauto|].
  apply generic_format_FLT. apply (FLT_spec radix2 (-149) 24 _ (Float radix2 w (-7))).
  - unfold F2R. cbn [Fnum Fexp]. unfold bpow. cbn. lra.
  - cbn [Fnum]. exact H.
  - cbn [Fexp]. lia.
Qed.

Lemma pod_scaling_exact64 : forall w : Z, (Z.abs w < 2 ^ 53)%Z ->
  round radix2 (FLT_exp (-1074) 53) ZnearestE (IZR w / 128) = IZR w / 128.
Proof.
  intros w H. apply round_generic; [typeclasses eauto|].
  apply generic_format_FLT. apply (FLT_spec radix2 (-1074) 53 _ (Float radix2 w (-7))).
  - unfold F2R. cbn [Fnum Fexp]. unfold bpow. cbn. lra.
  - cbn [Fnum]. exact H.
  - cbn [Fexp]. lia.
Qed.

Lemma klm_scaling_error : forall w : Z, (Z.abs w <= 2 ^ 31)%Z ->
  Rabs (round radix2 (FLT_exp (-1074) 53) ZnearestE (IZR w / 10000) - IZR w / 10000) <= 1 / 1000000.
Proof.
  intros w H.
  destruct (Z.eq_dec w 0) as [->|Hw].
  - replace (0 / 10000) with 0 by lra. rewrite round_0; [|typeclasses eauto]. rewrite Rminus_0_r, Rabs_R0. lra.
  - set (x := IZR w / 10000).
    assert (Hx1 : / 10000 <= Rabs x).
    { unfold x. unfold Rdiv. rewrite Rabs_mult. rewrite (Rabs_pos_eq (/ 10000)) by lra.
      assert (1 <= Rabs (IZR w)).
      { rewrite <- abs_IZR. apply IZR_le. lia. }
      nra. }
    assert (Hx2 : Rabs x <= 2147483648 / 10000).
    { unfold x. unfold Rdiv. rewrite Rabs_mult. rewrite (Rabs_pos_eq (/ 10000)) by lra.
      assert (Rabs (IZR w) <= 2147483648).
      { rewrite <- abs_IZR. apply IZR_le. change (2 ^ 31)%Z with 2147483648%Z in H. lia. }
      nra. }
    assert (Hb : bpow radix2 (-1074 + 53 - 1) <= Rabs x).
    { apply Rle_trans with (/ 10000); [|exact Hx1].
      apply Rle_trans with (bpow radix2 (-14)).
      - apply bpow_le. lia.
      - unfold bpow. cbn. lra. }
    pose proof (relative_error_N_FLT radix2 (-1074) 53 ltac:(reflexivity) (fun n => negb (Z.even n)) x Hb) as E.
    change (- (53) + 1)%Z with (-52)%Z in E.
    assert (B : bpow radix2 (-52) <= / 4000000000000000).
    { unfold bpow. cbn. apply Rinv_le_contravar; lra. }
    fold x. eapply Rle_trans; [exact E|].
    assert (B0 : 0 <= bpow radix2 (-52)) by apply bpow_ge_0.
    assert (P : bpow radix2 (-52) * Rabs x <= / 4000000000000000 * (2147483648 / 10000)).
    { apply Rmult_le_compat; [exact B0 | apply Rabs_pos | exact B | exact Hx2]. }
    rewrite Rmult_assoc. set (y := bpow radix2 (-52) * Rabs x) in *.
    assert (N : / 4000000000000000 * (2147483648 / 10000) <= 1 / 1000000).
    { apply Rmult_le_reg_l with 4000000000000000; [lra|]. field_simplify. lra. }
    lra.
Qed.
