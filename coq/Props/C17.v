(* C17 -- The TLE nearest the pass start is used, and never one older than the limit.
   Statements only; proofs in Proofs/P_C17.v.  Epochs and the pass start are integer ms since 1970. *)
From Coq Require Import ZArith List Bool Arith Sorting.Sorted.
From PV Require Import Calendar M_Tle P_C17.
Import ListNotations.
Open Scope Z_scope.

(* for every chronologically ordered non-empty epoch list (duplicates allowed) and every pass start: the index
   examined is in range and minimises the distance to the pass start *)
Theorem C17_nearest : forall dates s, StronglySorted Z.le dates -> dates <> [] ->
  let i := nearest_index dates s in
  (i < length dates)%nat /\ forall j, (j < length dates)%nat -> Z.abs (s - nth i dates 0) <= Z.abs (s - nth j dates 0).
Proof. exact nearest_is_nearest. Qed.

(* the pass is reported as having no TLE data iff even that nearest epoch is farther than thresh = tn/td days *)
Theorem C17_threshold : forall dates s tn td, 0 < td ->
  (select_tle dates s tn td = NoTLEData <->
   tn * 86400000 < Z.abs (s - nth (nearest_index dates s) dates 0) * td).
Proof. exact threshold_iff. Qed.

(* otherwise that index is selected, and both lines are taken from the same element set *)
Theorem C17_same_set : forall dates s tn td i, select_tle dates s tn td = Selected i ->
  i = nearest_index dates s /\ tle_line_indices i = ((2 * i)%nat, (2 * i + 1)%nat).
Proof. intros. split; [eapply selected_index; eassumption|reflexivity]. Qed.

(* epoch decoding for every field YYDDD.dddddddd: 1950 pivot, day of year, fraction rounded to the nearest ms *)
Theorem C17_epoch_decode : forall yy ddd frac, 0 <= yy < 100 -> 0 <= ddd < 1000 -> 0 <= frac < 100000000 ->
  let e := (yy * 1000 + ddd) * 100000000 + frac in
  let year := if 5000000000000 <? e then 1900 + yy else 2000 + yy in
  exists ms, tle_epoch_ms e = (days_before_year year + (ddd - 1)) * 86400000 + ms /\
             2 * Z.abs (ms * 100000000 - 86400000 * frac) <= 100000000.
Proof. exact epoch_decode. Qed.

(* non-vacuity: four sets, pass start between the 2nd and 3rd, closer to the 3rd; too old with a 1-day limit *)
Example C17_example :
  let dates := map tle_epoch_ms [8000112345678; 8000212345678; 8001012345678; 8001112345678] in
  select_tle dates (tle_epoch_ms 8000712345678) 7 1 = Selected 2 /\
  select_tle dates (tle_epoch_ms 8000712345678) 1 1 = NoTLEData /\
  tle_epoch_ms 9936550000000 = 946641600000 /\ tle_epoch_ms 150000000 = 946728000000.
Proof. vm_compute. repeat split. Qed.

Print Assumptions C17_nearest.
Print Assumptions C17_threshold.
Print Assumptions C17_same_set.
Print Assumptions C17_epoch_decode.
Print Assumptions C17_example.
