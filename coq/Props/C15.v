(* C15 -- Angles are in their documented ranges and agree with sun and scan geometry.
   Statements only; proofs in Proofs/P_C15.v (over the reals).  Model: Model/M_Angles.v; astronomy and orbit are oracles;
   Gen_Angles ties the assembly (which function receives which arguments, conversions, order of the results) to the
   source by tracing get_angles on probes. *)
From Coq Require Import String List Reals ZArith QArith Qreals Lra.
From PV Require Import M_Angles P_C15 P_C15_Q Gen_Angles.
Import ListNotations.
Open Scope R_scope.

(* the assembly of get_angles, obtained by TRACING it on a stub reader with recording stand-ins for the astronomy and orbit
   functions (Gen_Angles, regenerated every run): the sun functions receive (time as a column, lon, lat); the five results
   come back in the documented order and are, on the probe, the model's values (folded azimuths, 90 - elevation, folded
   rad2deg of the sun azimuth, the relative azimuth of the unfolded azimuths); flagged lines are NaN; with a TLE the look
   angles are taken from (time, lon, lat, altitude 0), without usable TLE data (NoTLEData only) from the fallback that puts
   the satellite 850 km above the middle column *)
Theorem C15_source_shape :
  ang_sun_zenith_args = ["times_column"; "lons"; "lats"]%string /\
  ang_get_alt_az_args = ["times_column"; "lons"; "lats"]%string /\
  ang_coordinates_first = true /\
  ang_return_order = ["sat_azi"; "sat_zenith"; "sun_azi"; "sun_zenith"; "rel_azi"]%string /\
  ang_flagged_rows_nan = true /\
  ang_with_tle_look_args = ["times_column"; "lons"; "lats"; "0.0"]%string /\ ang_with_tle_returns_azi_elev = true /\
  ang_without_tle_look_args = ["lons_mid_column"; "lats_mid_column"; "850.0"; "times_column"; "lons"; "lats"; "0.0"]%string /\
  ang_fallback_on_notledata = true /\ ang_other_errors_propagate = true /\ ang_tle_result_used = true.
Proof. repeat (apply conj); vm_compute; reflexivity. Qed.
Print Assumptions C15_source_shape.

(* both azimuths lie in (-180, 180] and are the computed azimuths up to whole turns; for ALL real inputs *)
Theorem C15_azimuth_range : forall x, -180 < cmod x <= 180 /\ exists k : Z, cmod x = x + 360 * IZR k.
Proof. intros x. split; [apply cmod_range | apply cmod_congr]. Qed.
Print Assumptions C15_azimuth_range.

Theorem C15_azimuth_identity_in_range : forall x, -180 < x <= 180 -> cmod x = x.
Proof. exact cmod_id. Qed.
Print Assumptions C15_azimuth_identity_in_range.

(* the relative azimuth is the absolute sun-sensor azimuth difference folded into [0, 180]:
   in range, +- the difference up to whole turns, minimal over all whole turns, symmetric *)
Theorem C15_relative_azimuth : forall a b,
  0 <= relaz a b <= 180 /\
  (exists (k : Z) (s : R), (s = 1 \/ s = -1) /\ a - b = s * relaz a b + 360 * IZR k) /\
  (forall k : Z, relaz a b <= Rabs (a - b + 360 * IZR k)) /\
  relaz a b = relaz b a.
Proof. intros a b. split; [apply relaz_range|]. split; [apply relaz_spec|]. split; [apply relaz_minimal | apply relaz_sym]. Qed.
Print Assumptions C15_relative_azimuth.

(* ... and it is consistent with the azimuths that are returned (folded after the difference was taken) *)
Theorem C15_relative_azimuth_of_returned : forall a b,
  relaz (cmod a) (cmod b) = relaz a b /\
  relaz (cmod a) (cmod b) = (if Rlt_dec 180 (Rabs (cmod a - cmod b)) then 360 - Rabs (cmod a - cmod b) else Rabs (cmod a - cmod b)).
Proof. intros a b. split; [apply relaz_of_folded | apply relaz_folded_inputs; apply cmod_range]. Qed.
Print Assumptions C15_relative_azimuth_of_returned.

(* one pixel: ranges, consistency, zenith = complement of the elevation, sun zenith passed through; flagged -> NaN *)
Theorem C15_pixel : forall l s r, angles_px false l s = Some r ->
  -180 < sat_azi r <= 180 /\ -180 < sun_azi r <= 180 /\ 0 <= rel_azi r <= 180 /\
  rel_azi r = relaz (sun_azi r) (sat_azi r) /\
  sat_zenith r = 90 - l_elev l /\ sun_zenith r = s_zen s /\
  (exists k : Z, sat_azi r = l_azi l + 360 * IZR k) /\ (exists k : Z, sun_azi r = rad2deg (s_azi_rad s) + 360 * IZR k).
Proof. exact angles_px_spec. Qed.
Print Assumptions C15_pixel.

Theorem C15_flagged_pixel : forall l s, angles_px true l s = None.
Proof. exact angles_px_masked. Qed.
Print Assumptions C15_flagged_pixel.

Theorem C15_zenith_range : forall l s r, angles_px false l s = Some r -> -90 <= l_elev l <= 90 -> 0 <= sat_zenith r <= 180.
Proof. exact sat_zenith_range. Qed.
Print Assumptions C15_zenith_range.

(* the executable rational functions evaluated by the correspondence compute the real-valued model *)
Theorem C15_executable_mirror : forall a b : Q,
  Q2R (cmodQ a) = cmod (Q2R a) /\ Q2R (relazQ a b) = relaz (Q2R a) (Q2R b).
Proof. intros a b. split; [apply cmodQ_correct | apply relazQ_correct]. Qed.
Print Assumptions C15_executable_mirror.

(* non-vacuity: 350 and -170 degrees (difference 520 = 160 + 360) fold to -10, -170, relative azimuth 160 *)
Example C15_example : cmod 350 = -10 /\ cmod (-170) = -170 /\ cmod 180 = 180 /\ cmod (-180) = 180 /\ relaz 350 (-170) = 160.
Proof.
  assert (A : cmod 350 = -10).
  { destruct (cmod_congr 350) as [k E]. apply (unique_rep _ _ (k + 1)%Z (cmod_range 350)); [lra|]. rewrite plus_IZR. lra. }
  assert (B : cmod (-180) = 180).
  { destruct (cmod_congr (-180)) as [k E]. apply (unique_rep _ _ (k - 1)%Z (cmod_range (-180))); [lra|]. rewrite minus_IZR. lra. }
  split; [exact A|]. split; [apply cmod_id; lra|]. split; [apply cmod_id; lra|]. split; [exact B|].
  destruct (relaz_spec 350 (-170)) as [k [s [S E]]].
  apply (relaz_unique (350 - -170) _ _ k 1%Z s 1 (relaz_range _ _)); [lra | exact S | left; reflexivity | exact E | cbn; lra].
Qed.
