(* C15 -- Angles are in their documented ranges and agree with sun and scan geometry.
   Statements only; proofs in Proofs/P_C15.v (over the reals).  Model: Model/M_Angles.v; astronomy and orbit are oracles;
   Gen_Angles ties the assembly (which function receives which arguments, conversions, order of the results) to the source. *)
From Coq Require Import String List Reals ZArith QArith Qreals Lra.
From PV Require Import M_Angles P_C15 P_C15_Q Gen_Angles.
Import ListNotations.
Open Scope R_scope.

(* the assembly of get_angles as the source has it (the two folding functions themselves are tied to the model by the
   correspondence check_fold on the executable mirror, not by their text) *)
Theorem C15_source_shape :
  ang_get_angles_calls = ["self.get_times()"; "self.get_lonlat()"]%string /\
  ang_get_angles_times = ["self._times_as_np_datetime64"]%string /\
  (* sun: zenith in degrees from (time, lon, lat); azimuth in radians from the same arguments, converted to degrees *)
  ang_get_angles_sun_zenith = ["astronomy.sun_zenith_angle(times[:, np.newaxis], self.lons, self.lats)"]%string /\
  ang_get_angles_alt__sun_azi = ["astronomy.get_alt_az(times[:, np.newaxis], self.lons, self.lats)"]%string /\
  ang_get_angles_sun_azi = ["np.rad2deg(sun_azi)"; "centered_modulus(sun_azi, 360.0)"]%string /\
  (* satellite: (azimuth, elevation); zenith is the complement of the elevation; azimuth folded *)
  ang_get_angles_sat_azi__sat_elev = ["self.get_sat_angles()"]%string /\
  ang_get_angles_sat_zenith = ["90 - sat_elev"]%string /\
  ang_get_angles_sat_azi = ["centered_modulus(sat_azi, 360.0)"]%string /\
  ang_get_angles_rel_azi = ["get_absolute_azimuth_angle_diff(sun_azi, sat_azi)"]%string /\
  ang_get_angles_mask_loop = "(sat_azi, sat_zenith, sun_azi, sun_zenith, rel_azi) : arr[self.mask] = np.nan"%string /\
  ang_get_angles_return = "(sat_azi, sat_zenith, sun_azi, sun_zenith, rel_azi)"%string /\
  (* with TLE: observer look from (time, lon, lat, altitude 0); without usable TLE data: the approximate fallback *)
  ang_sat_angles_try = "return self._get_sat_angles_with_tle()"%string /\ ang_sat_angles_except = "NoTLEData"%string /\
  ang_sat_angles_handler = "return self._get_sat_angles_without_tle()"%string /\
  ang_with_tle_look_args = ["self._times_as_np_datetime64[:, np.newaxis]"; "self.lons"; "self.lats"; "0"]%string /\
  ang_with_tle_return = "(sat_azi, sat_elev)"%string /\
  ang_without_tle_look_args = ["self.lons[:, mid_column][:, np.newaxis]"; "self.lats[:, mid_column][:, np.newaxis]"; "sat_alt";
                               "self._times_as_np_datetime64[:, np.newaxis]"; "self.lons"; "self.lats"; "0"]%string /\
  ang_without_tle_mid_column = "int(0.5 * self.lons.shape[1])"%string.
Proof. repeat (apply conj); vm_compute; reflexivity. Qed.
Print Assumptions C15_source_shape.

(* both azimuths lie in (-180, 180] and are the computed azimuths up to whole turns; for ALL real inputs *)
Theorem C15_azimuth_range : forall x, -180 < cmod x <= 180 /\ exists k : Z, cmod x = x + 360 * IZR k.
Proof. intros x. split; [apply cmod_range | apply cmod_congr]. Qed.
Print Assumptions C15_azimuth_range.

Theorem C15_azimuth_identity_in_range : forall x, -180 < x <= 180 -> cmod x = x.
Proof. exact cmod_id. Qed.
Print Assumptions C15_azimuth_identity_in_range.

(* the relative azimuth is the absolute sun-sensor azimuth difference folded into [0, 180]:
   in range, +- the difference up to whole turns, minimal over all whole turns, symmetric *)
Theorem C15_relative_azimuth : forall a b,
  0 <= relaz a b <= 180 /\
  (exists (k : Z) (s : R), (s = 1 \/ s = -1) /\ a - b = s * relaz a b + 360 * IZR k) /\
  (forall k : Z, relaz a b <= Rabs (a - b + 360 * IZR k)) /\
  relaz a b = relaz b a.
Proof. intros a b. split; [apply relaz_range|]. split; [apply relaz_spec|]. split; [apply relaz_minimal | apply relaz_sym]. Qed.
Print Assumptions C15_relative_azimuth.

(* ... and it is consistent with the azimuths that are returned (folded after the difference was taken) *)
Theorem C15_relative_azimuth_of_returned : forall a b,
  relaz (cmod a) (cmod b) = relaz a b /\
  relaz (cmod a) (cmod b) = (if Rlt_dec 180 (Rabs (cmod a - cmod b)) then 360 - Rabs (cmod a - cmod b) else Rabs (cmod a - cmod b)).
Proof. intros a b. split; [apply relaz_of_folded | apply relaz_folded_inputs; apply cmod_range]. Qed.
Print Assumptions C15_relative_azimuth_of_returned.

(* one pixel: ranges, consistency, zenith = complement of the elevation, sun zenith passed through; flagged -> NaN *)
Theorem C15_pixel : forall l s r, angles_px false l s = Some r ->
  -180 < sat_azi r <= 180 /\ -180 < sun_azi r <= 180 /\ 0 <= rel_azi r <= 180 /\
  rel_azi r = relaz (sun_azi r) (sat_azi r) /\
  sat_zenith r = 90 - l_elev l /\ sun_zenith r = s_zen s /\
  (exists k : Z, sat_azi r = l_azi l + 360 * IZR k) /\ (exists k : Z, sun_azi r = rad2deg (s_azi_rad s) + 360 * IZR k).
Proof. exact angles_px_spec. Qed.
Print Assumptions C15_pixel.

Theorem C15_flagged_pixel : forall l s, angles_px true l s = None.
Proof. exact angles_px_masked. Qed.
Print Assumptions C15_flagged_pixel.

Theorem C15_zenith_range : forall l s r, angles_px false l s = Some r -> -90 <= l_elev l <= 90 -> 0 <= sat_zenith r <= 180.
Proof. exact sat_zenith_range. Qed.
Print Assumptions C15_zenith_range.

(* the executable rational functions evaluated by the correspondence compute the real-valued model *)
Theorem C15_executable_mirror : forall a b : Q,
  Q2R (cmodQ a) = cmod (Q2R a) /\ Q2R (relazQ a b) = relaz (Q2R a) (Q2R b).
Proof. intros a b. split; [apply cmodQ_correct | apply relazQ_correct]. Qed.
Print Assumptions C15_executable_mirror.

(* non-vacuity: 350 and -170 degrees (difference 520 = 160 + 360) fold to -10, -170, relative azimuth 160 *)
Example C15_example : cmod 350 = -10 /\ cmod (-170) = -170 /\ cmod 180 = 180 /\ cmod (-180) = 180 /\ relaz 350 (-170) = 160.
Proof.
  assert (A : cmod 350 = -10).
  { destruct (cmod_congr 350) as [k E]. apply (unique_rep _ _ (k + 1)%Z (cmod_range 350)); [lra|]. rewrite plus_IZR. lra. }
  assert (B : cmod (-180) = 180).
  { destruct (cmod_congr (-180)) as [k E]. apply (unique_rep _ _ (k - 1)%Z (cmod_range (-180))); [lra|]. rewrite minus_IZR. lra. }
  split; [exact A|]. split; [apply cmod_id; lra|]. split; [apply cmod_id; lra|]. split; [exact B|].
  destruct (relaz_spec 350 (-170)) as [k [s [S E]]].
  apply (relaz_unique (350 - -170) _ _ k 1%Z s 1 (relaz_range _ _)); [lra | exact S | left; reflexivity | exact E | cbn; lra].
Qed.
