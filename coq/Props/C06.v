(* C06 -- Returned coordinates reproduce the file's tie points over the whole globe.
   Statements only; proofs in Proofs/P_C06.v (read-out, masks, shape; exact rationals, None = NaN) and
   Proofs/P_C06_F.v (Flocq: the float32 / float64 divisions).  Model: Model/M_Geo.v; the tie-point interpolator is an
   oracle with an explicit contract; Gen_Geo / Gen_Layout tie constants, field types and the order of the steps to the source. *)
From Coq Require Import String ZArith QArith Qabs List Bool Reals.
From Flocq Require Import Core.
From PV Require Import Layout M_Geo P_C06 P_C06_F M_Drift Gen_Geo Gen_Layout.
Import ListNotations.
Open Scope Z_scope.

Definition field (lay : list leaf) (nm : string) : option (Z * kind * bool * Z * Z) :=
  match find (fun l => String.eqb (lname l) nm) lay with
  | Some l => Some (lwidth l, lkind l, lbe l, lcount l, lstride l)
  | None => None
  end.

(* scale factors, limits, order of the steps, tie-point columns (obtained by running the functions on probes, Gen_Geo) and field
   types (Gen_Layout) as the source has them *)
Theorem C06_source_shape :
  (* 1/128 degree (POD), 1e-4 degree (KLM), computed in double precision; the functions return (lons, lats) *)
  geo_pod_lats_divisor = 128%Q /\ geo_pod_lons_divisor = 128%Q /\ geo_klm_lats_divisor = 10000%Q /\ geo_klm_lons_divisor = 10000%Q /\
  geo_pod_return = "(lons, lats)"%string /\ geo_klm_return = "(lons, lats)"%string /\
  geo_pod_lats_dtype = "float64"%string /\ geo_pod_lons_dtype = "float64"%string /\
  geo_klm_lats_dtype = "float64"%string /\ geo_klm_lons_dtype = "float64"%string /\
  (* read-out, clock drift, meta data, interpolation -- in this order; +-90 / +-180 themselves are kept, 1e-6 beyond is NaN;
     flagged lines are NaN *)
  geo_get_lonlat_steps = ["_get_lonlat_from_file"; "_adjust_clock_drift"; "update_meta_data"; "lonlat_interpolator"]%string /\
  geo_lat_probe_kept = [true; true; false; true; false] /\ geo_lon_probe_kept = [true; true; false; true; false] /\
  geo_flagged_row_nan = true /\
  (* tie points: every 8th GAC pixel from the 5th, every 40th LAC pixel from the 25th (0-based 4 + 8k, 24 + 40k), 51 of them;
     the readers' interpolators return one full-width row per line and reproduce the tie points at those columns *)
  geo_gac_sample_points = map (fun k => 4 + 8 * k) (zrange 0 51) /\ geo_lac_sample_points = map (fun k => 24 + 40 * k) (zrange 0 51) /\
  geo_gac_cols_full = 409 /\ geo_gac_scan_width = 409 /\ geo_lac_cols_full = 2048 /\ geo_lac_scan_width = 2048 /\
  geo_gac_rows_full = 2 /\ geo_lac_rows_full = 2 /\
  geo_gac_reader_interpolator_is_module_function = true /\ geo_lac_reader_interpolator_is_module_function = true /\
  geo_gac_ties_reproduced = true /\ geo_lac_ties_reproduced = true /\
  (* 51 signed big-endian words per line: 2 bytes (POD, pairs 4 bytes apart), 4 bytes (KLM, pairs 8 bytes apart) *)
  field pod_gac "earth_location.lats" = Some (2, KI, true, 51, 4) /\ field pod_gac "earth_location.lons" = Some (2, KI, true, 51, 4) /\
  field pod_lac "earth_location.lats" = Some (2, KI, true, 51, 4) /\ field pod_lac "earth_location.lons" = Some (2, KI, true, 51, 4) /\
  field klm_gac "earth_location.lats" = Some (4, KI, true, 51, 8) /\ field klm_gac "earth_location.lons" = Some (4, KI, true, 51, 8) /\
  field klm_lac "earth_location.lats" = Some (4, KI, true, 51, 8) /\ field klm_lac "earth_location.lons" = Some (4, KI, true, 51, 8).
Proof. repeat (apply conj); vm_compute; reflexivity. Qed.
Print Assumptions C06_source_shape.

(* the whole globe is representable: +-180 degrees fit the 2-byte POD word at 1/128 degree and the 4-byte KLM word at 1e-4 degree
   (and would not fit a 2-byte word at 1e-4 degree) *)
Theorem C06_globe_representable :
  180 * 128 <= 2 ^ 15 - 1 /\ 180 * 10000 <= 2 ^ 31 - 1 /\ ~ (90 * 10000 <= 2 ^ 15 - 1).
Proof.
  split; [vm_compute; intros H; discriminate H|]. split; [vm_compute; intros H; discriminate H|].
  vm_compute. intros H. apply H. reflexivity.
Qed.
Print Assumptions C06_globe_representable.

(* interpolation disabled: exactly the tie points of each line -- word / divisor, NaN outside +-180 / +-90 *)
Theorem C06_tie_readout : forall lon_div lat_div lon_lim lat_lim interp ls i l k wlo wla,
  nth_error ls i = Some l -> flagged l = false ->
  nth_error (lon_w l) k = Some wlo -> nth_error (lat_w l) k = Some wla ->
  nth_error (nth i (get_lonlat lon_div lat_div lon_lim lat_lim interp false ls) []) k =
    Some (keep lon_lim (scale lon_div wlo), keep lat_lim (scale lat_div wla)).
Proof. intros. eapply tie_readout; eassumption. Qed.
Print Assumptions C06_tie_readout.

Theorem C06_tie_columns_only : forall lon_div lat_div lon_lim lat_lim interp ls i l, nth_error ls i = Some l ->
  length (nth i (get_lonlat lon_div lat_div lon_lim lat_lim interp false ls) []) = Nat.min (length (lon_w l)) (length (lat_w l)).
Proof. intros. eapply no_interp_width; eassumption. Qed.
Print Assumptions C06_tie_columns_only.

(* an in-range value is returned as it is *)
Theorem C06_in_range_kept : forall lim v, (Qabs v <= lim)%Q -> keep lim v = Some v.
Proof. exact keep_in_range. Qed.
Print Assumptions C06_in_range_kept.

(* interpolation enabled (interpolator contract: shape and reproduction of the tie points at their columns):
   full width, and the tie points sit at columns 4 + 8k / 24 + 40k *)
Theorem C06_tie_columns : forall lon_div lat_div lon_lim lat_lim cols width interp ls i l k c wlo wla,
  interp_contract cols width interp ->
  nth_error ls i = Some l -> flagged l = false -> nth_error cols k = Some c -> 0 <= c < width ->
  nth_error (lon_w l) k = Some wlo -> nth_error (lat_w l) k = Some wla ->
  nth_error (nth i (get_lonlat lon_div lat_div lon_lim lat_lim interp true ls) []) (Z.to_nat c) =
    Some (keep lon_lim (scale lon_div wlo), keep lat_lim (scale lat_div wla)).
Proof. intros. eapply tie_columns; eassumption. Qed.
Print Assumptions C06_tie_columns.

Theorem C06_full_width : forall lon_div lat_div lon_lim lat_lim cols width interp ls i l,
  interp_contract cols width interp -> nth_error ls i = Some l ->
  length (nth i (get_lonlat lon_div lat_div lon_lim lat_lim interp true ls) []) = Z.to_nat width.
Proof. intros. eapply interp_width; eassumption. Qed.
Print Assumptions C06_full_width.

(* the contract is satisfiable for the tie-point columns of the source (a step interpolator meets it): the two theorems above
   are not vacuous *)
Theorem C06_contract_satisfiable :
  interp_contract geo_gac_sample_points 409 (step_interp geo_gac_sample_points 409) /\
  interp_contract geo_lac_sample_points 2048 (step_interp geo_lac_sample_points 2048).
Proof. split; apply step_interp_contract; vm_compute; repeat split. Qed.
Print Assumptions C06_contract_satisfiable.

(* every returned coordinate is NaN or inside [-180,180] / [-90,90]; one row per scan line; flagged lines are NaN *)
Theorem C06_in_range : forall lon_div lat_div lon_lim lat_lim interp b ls row p,
  In row (get_lonlat lon_div lat_div lon_lim lat_lim interp b ls) -> In p row ->
  (fst p = None \/ exists v, fst p = Some v /\ (Qabs v <= lon_lim)%Q) /\
  (snd p = None \/ exists v, snd p = Some v /\ (Qabs v <= lat_lim)%Q).
Proof. intros. eapply in_range; eassumption. Qed.
Print Assumptions C06_in_range.

Theorem C06_one_row_per_line : forall lon_div lat_div lon_lim lat_lim cols width interp b ls,
  (b = true -> interp_contract cols width interp) ->
  length (get_lonlat lon_div lat_div lon_lim lat_lim interp b ls) = length ls.
Proof. intros. eapply one_row_per_line; eassumption. Qed.
Print Assumptions C06_one_row_per_line.

Theorem C06_flagged_lines_nan : forall lon_div lat_div lon_lim lat_lim cols width interp b ls i l p,
  (b = true -> interp_contract cols width interp) -> nth_error ls i = Some l -> flagged l = true ->
  In p (nth i (get_lonlat lon_div lat_div lon_lim lat_lim interp b ls) []) -> p = (None, None).
Proof. intros. eapply flagged_rows_nan; eassumption. Qed.
Print Assumptions C06_flagged_lines_nan.

(* floating point: the POD division is exact in binary64 for every 16-bit word; the KLM division in binary64 is within
   1e-6 degree of word / 10000 for every 32-bit word *)
Theorem C06_pod_scaling_exact : forall w : Z, (Z.abs w < 2 ^ 53)%Z ->
  round radix2 (FLT_exp (-1074) 53) ZnearestE (IZR w / 128) = (IZR w / 128)%R.
Proof. exact pod_scaling_exact64. Qed.
Print Assumptions C06_pod_scaling_exact.

Theorem C06_klm_scaling_error : forall w : Z, (Z.abs w <= 2 ^ 31)%Z ->
  (Rabs (round radix2 (FLT_exp (-1074) 53) ZnearestE (IZR w / 10000) - IZR w / 10000) <= 1 / 1000000)%R.
Proof. exact klm_scaling_error. Qed.
Print Assumptions C06_klm_scaling_error.

(* non-vacuity: a KLM line crossing the date line next to the pole, a flagged line, an out-of-range word *)
Example C06_example :
  let ls := [mkLine false [1799999; -1799999; 1800001] [899999; -900000; 900001]; mkLine true [5; 6; 7] [1; 2; 3]] in
  get_lonlat 10000 10000 180 90 (fun _ => []) false ls =
    [[(Some (1799999 # 10000), Some (899999 # 10000)); (Some (-1799999 # 10000), Some (-900000 # 10000)); (None, None)];
     [(None, None); (None, None); (None, None)]].
Proof. vm_compute. reflexivity. Qed.
