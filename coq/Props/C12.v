(* C12 -- Accessor results do not depend on call order, repetition or earlier work.
   Statements only; proofs in Proofs/P_Cache.v, Proofs/P_C12.v (reader instances) and, for the two pieces of
   process-wide state, Proofs/P_C16.v (coefficient cache) and Proofs/P_C10.v (candidate list).
   The model (M_Cache) abstracts every pure computation as a function of values; what is proved is the caching
   discipline: which value is computed from which, cached when, and the single in-place shift of the times. *)
From Coq Require Import String List Bool Arith Sorting.Permutation.
From PV Require Import M_Cache P_Cache P_C12 M_Coeffs P_C16 M_Select P_C10.
Import ListNotations.

(* for ALL histories of accessor calls on a fresh reader: every observation equals the canonical value of that
   operation, which depends on the history only through one bit -- whether a coordinate-producing operation has
   already occurred (the permitted one-time clock-drift shift of the POD times) *)
Theorem C12_history_independent : forall Times LonLat Meta (T0 : Times) (L0 : LonLat) drift shift_t shift_l finish
  (meta_of : Times -> Meta) ops,
  snd (run Times LonLat Meta T0 L0 drift shift_t shift_l finish meta_of (r_init _ _ _) ops) =
  canon_run Times LonLat Meta T0 L0 drift shift_t shift_l finish meta_of false ops.
Proof.
  intros. destruct (run_canonical Times LonLat Meta T0 L0 drift shift_t shift_l finish meta_of ops (r_init _ _ _)
                      (inv_init _ _ _ _ _ _ _ _ _ _)) as [_ [H _]]. exact H.
Qed.

(* the array interface and the dataset interface agree: a dataset carries exactly the times, coordinates and meta data
   that the array accessors return from then on; no operation other than get_times / meta read depends on the bit *)
Theorem C12_interfaces_agree : forall Times LonLat Meta (T0 : Times) (L0 : LonLat) drift shift_t shift_l finish
  (meta_of : Times -> Meta) before,
  let fin_t := final_times Times T0 drift shift_t in
  let fin_l := final_lonlat Times LonLat T0 L0 drift shift_l finish in
  canon Times LonLat Meta T0 L0 drift shift_t shift_l finish meta_of before OpDataset = ObsDataset _ _ _ fin_t fin_l (meta_of fin_t) /\
  canon Times LonLat Meta T0 L0 drift shift_t shift_l finish meta_of before OpLonLat = ObsLonLat _ _ _ fin_l /\
  canon Times LonLat Meta T0 L0 drift shift_t shift_l finish meta_of before OpAngles = ObsAngles _ _ _ fin_t fin_l /\
  canon Times LonLat Meta T0 L0 drift shift_t shift_l finish meta_of true OpTimes = ObsTimes _ _ _ fin_t.
Proof. intros. repeat split. Qed.

(* the shift is applied at most once, and exactly once iff it applies and a coordinate-producing operation occurred *)
Theorem C12_shift_once : forall Times LonLat Meta (T0 : Times) (L0 : LonLat) drift shift_t shift_l finish
  (meta_of : Times -> Meta) ops,
  let s := fst (run Times LonLat Meta T0 L0 drift shift_t shift_l finish meta_of (r_init _ _ _) ops) in
  r_shifted _ _ _ s = drift && existsb coord_op ops.
Proof. intros. apply (proj1 (shift_exactly_once Times LonLat Meta T0 L0 drift shift_t shift_l finish meta_of ops)). Qed.

(* other reader instances: in any interleaving, what is observed on one instance is what would be observed without the other *)
Theorem C12_instances_isolated : forall Times LonLat Meta (T0a T0b : Times) (L0a L0b : LonLat) da db sta stb sla slb fa fb
  (ma mb : Times -> Meta) ops sa sb,
  proj true (run2 Times LonLat Meta T0a T0b L0a L0b da db sta stb sla slb fa fb ma mb sa sb ops) =
    snd (run Times LonLat Meta T0a L0a da sta sla fa ma sa (proj true ops)) /\
  proj false (run2 Times LonLat Meta T0a T0b L0a L0b da db sta stb sla slb fa fb ma mb sa sb ops) =
    snd (run Times LonLat Meta T0b L0b db stb slb fb mb sb (proj false ops)).
Proof. intros. apply instances_isolated. Qed.

(* process-wide state 1: the coefficient cache never influences a later request (any history) *)
Theorem C12_coefficients_history_free : forall V Arr (build : string -> list (string * V) -> Arr) (F : fs V) reqs,
  snd (run_requests V Arr build F (c_init V) reqs) = map (fun r => let '(sc, cu, f) := r in spec V Arr build F sc cu f) reqs.
Proof. intros. apply (proj2 (history_pure V Arr build F reqs (c_init V) I)). Qed.

(* process-wide state 2: the reordered candidate list never influences which reader is chosen (any history) *)
Theorem C12_reader_list_history_free : forall C (C_eqb : C -> C -> bool), (forall a b, C_eqb a b = true <-> a = b) ->
  forall all files order, Permutation order all ->
  Forall (fun acc : C -> bool => forall x y, acc x = true -> acc y = true -> x = y) files ->
  snd (run_selections C C_eqb order files) = map (choice C all) files.
Proof. intros. apply (proj1 (history_independent C C_eqb H all files order H0 H1)). Qed.

(* non-vacuity: a POD-like instance; get_times before and after the first coordinate computation *)
Example C12_example :
  snd (run nat nat nat 100 7 true (fun t => t - 1) (fun l t => l + t) (fun l => 2 * l) (fun t => t + 5) (r_init _ _ _)
           [OpTimes; OpMetaRead; OpDataset; OpTimes; OpLonLat; OpMetaRead])
  = [ObsTimes _ _ _ 100; ObsMeta _ _ _ None; ObsDataset _ _ _ 99 214 104; ObsTimes _ _ _ 99; ObsLonLat _ _ _ 214; ObsMeta _ _ _ (Some 104)].
Proof. reflexivity. Qed.

Print Assumptions C12_history_independent.
Print Assumptions C12_interfaces_agree.
Print Assumptions C12_shift_once.
Print Assumptions C12_instances_isolated.
Print Assumptions C12_coefficients_history_free.
Print Assumptions C12_reader_list_history_free.
Print Assumptions C12_example.
