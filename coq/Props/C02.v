(* C02 -- Earth-view and telemetry counts are the format's 10-bit samples.
   Statements only; proofs in Proofs/P_C02.v.  W is any line width (409 and 2048 in particular),
   words any list of integers (all 2^32 patterns per word in particular). *)
From Coq Require Import ZArith QArith List Bool Arith.
From PV Require Import Bits ListSlice M_Counts P_C02.
Import ListNotations.
Open Scope nat_scope.

(* the count of pixel p, channel c is sample 5p+c of the packed stream, for any width and any words *)
Theorem C02_counts_spec : forall W words p c, p < W -> c < 5 -> (5 * W + 2) / 3 <= length words ->
  count_at W words p c = stream_sample words (5 * p + c).
Proof. exact counts_spec. Qed.

(* sample k sits in word k/3 at bits 29-20, 19-10, 9-0 for k mod 3 = 0, 1, 2 *)
Theorem C02_sample_bits : forall words k,
  (k mod 3 = 0 -> stream_sample words k = Z.modulo (Z.div (nth (k / 3) words 0%Z) (2 ^ 20)) 1024) /\
  (k mod 3 = 1 -> stream_sample words k = Z.modulo (Z.div (nth (k / 3) words 0%Z) (2 ^ 10)) 1024) /\
  (k mod 3 = 2 -> stream_sample words k = Z.modulo (nth (k / 3) words 0%Z) 1024).
Proof. exact stream_sample_bits. Qed.

(* the top two bits of every word are ignored *)
Theorem C02_top_bits_ignored : forall words words' k,
  (forall i, Z.modulo (nth i words 0%Z) (2 ^ 30) = Z.modulo (nth i words' 0%Z) (2 ^ 30)) ->
  stream_sample words k = stream_sample words' k.
Proof. exact stream_sample_top_bits. Qed.

(* no count depends on any other word (hence on any other pixel's words or any other line) *)
Theorem C02_locality : forall W words words' p c, p < W -> c < 5 ->
  (5 * W + 2) / 3 <= length words -> (5 * W + 2) / 3 <= length words' ->
  nth ((5 * p + c) / 3) words 0%Z = nth ((5 * p + c) / 3) words' 0%Z ->
  count_at W words p c = count_at W words' p c.
Proof.
  intros. rewrite !counts_spec by assumption. apply stream_sample_local. assumption.
Qed.

(* 3a/3b routing of the third sample by the channel-select bits, all values 0..3 *)
Theorem C02_routing : forall sw a b c d e,
  route sw [a; b; c; d; e] =
  [a; b; (if (sw =? 1)%Z then c else 0%Z); (if (sw =? 0)%Z then c else 0%Z); d; e].
Proof. exact route_spec. Qed.
Theorem C02_switch_range : forall bf, (0 <= ch3_switch bf <= 3)%Z.
Proof. exact ch3_switch_range. Qed.

(* telemetry: the code's slices select the frame words 18-20 (PRT), 23-52 (ICT, ch 3/4/5 interleaved),
   53-102 (space, five channels interleaved, ch 3/4/5 used); index = word number - 1 *)
Theorem C02_pod_telemetry_words :
  pod_prt_idx = [17; 18; 19] /\
  (forall j, j < 3 -> pod_ict_idx j = map (fun i => 22 + j + 3 * i) (seq 0 10)) /\
  (forall j, j < 3 -> pod_space_idx j = map (fun i => 52 + (2 + j) + 5 * i) (seq 0 10)) /\
  (forall words k, k < 105 -> 35 <= length words -> nth k (pod_decode_tele words) 0%Z = stream_sample words k).
Proof. repeat split; [exact pod_ict_words | exact pod_space_words | exact pod_tele_sample]. Qed.

Theorem C02_klm_telemetry_words :
  (forall j, j < 3 -> klm_ict_idx j = map (fun i => j + 3 * i) (seq 0 10)) /\
  (forall j, j < 3 -> klm_space_idx j = map (fun i => (2 + j) + 5 * i) (seq 0 10)).
Proof. split; [exact klm_ict_words | exact klm_space_words]. Qed.

(* non-vacuity: a 2-pixel line (10 samples in 4 words), top bits set in word 0 *)
Example C02_example :
  unpack_line 2 [3221225472 + (1 * 1048576 + 2 * 1024 + 3); (4 * 1048576 + 5 * 1024 + 6);
                 (7 * 1048576 + 8 * 1024 + 9); (10 * 1048576)]%Z = [1; 2; 3; 4; 5; 6; 7; 8; 9; 10]%Z
  /\ mean [1; 2; 6]%Z == 3.
Proof. split; vm_compute; reflexivity. Qed.

Print Assumptions C02_counts_spec.
Print Assumptions C02_sample_bits.
Print Assumptions C02_top_bits_ignored.
Print Assumptions C02_locality.
Print Assumptions C02_routing.
Print Assumptions C02_switch_range.
Print Assumptions C02_pod_telemetry_words.
Print Assumptions C02_klm_telemetry_words.
Print Assumptions C02_example.
