(* C20 -- Legacy HDF5 output holds the selected rows of every product, consistently.
   Statements only; proofs in Proofs/P_C20.v.  Call tables regenerated on every run by TRACING Reader.save,
   gac_io.save_gac, slice_channel and the HDF5 writer on tagged inputs (Gen_SaveGac). *)
From Coq Require Import String ZArith QArith List Bool Arith.
From PV Require Import M_Io Gen_SaveGac Gen_Consts P_C20.
Import ListNotations.
Open Scope Z_scope.

(* all fifteen products (six channels, five angles, lon, lat, quality summary, times) are cut by slice_channel with
   the same start/end/first-valid/last-valid arguments; the meta data are re-indexed by one call with the same selection *)
Theorem C20_uniform : uniform_ok = true.
Proof. exact uniform. Qed.

(* argument order between the reader and save_gac: every quantity arrives under the parameter that stands for it
   (channels 0..5 as ref1, ref2, ref3, bt3, bt4, bt5; each angle under its own name) *)
Theorem C20_argument_order : strs_eqb save_gac_params expected_params && kw_eqb reader_save_roles expected_roles = true.
Proof. exact argument_order. Qed.

(* which product is found in which dataset of which file with which integer type; scaling and fill values *)
Theorem C20_datasets : ds_eqb io_datasets expected_datasets = true.
Proof. exact datasets. Qed.
Theorem C20_scaling : scaling_ok = true /\ missing_data = -32001 /\ missing_data_latlon = -999999.
Proof. exact scaling. Qed.

(* the rows: from the start line to the end line counted from the first line with a valid latitude, clamped to the valid range *)
Theorem C20_rows : forall A (ch : list A) start end_ fv lv mid miss qn,
  0 <= fv -> fv <= lv -> lv < Z.of_nat (length ch) -> 0 <= start ->
  let nv := lv - fv + 1 in
  let s' := Z.min start (nv - 1) in let e' := Z.min end_ (nv - 1) in
  s' <= e' ->
  sl_rows (slice_channel ch start end_ fv lv mid miss qn) = firstn (Z.to_nat (e' - s' + 1)) (skipn (Z.to_nat (fv + s')) ch).
Proof. intros. apply slice_rows; assumption. Qed.

(* end 0 or beyond the range means the last valid line; a start at or beyond the range is rejected (ValueError) *)
Theorem C20_end_rule : forall start end_ fv lv, start < lv - fv + 1 ->
  check_user_scanlines start end_ fv lv = Checked start (if (end_ =? 0) || (lv - fv + 1 <=? end_) then lv - fv else end_).
Proof. exact end_rule. Qed.
Theorem C20_start_rejected : forall start end_ fv lv, lv - fv + 1 <= start -> check_user_scanlines start end_ fv lv = CheckError.
Proof. exact start_rejected. Qed.

(* the midnight line is re-indexed to the cut, or absent when it lies outside the written rows *)
Theorem C20_midnight : forall A (ch : list A) start end_ fv lv m miss qn,
  0 <= fv -> fv <= lv -> lv < Z.of_nat (length ch) -> 0 <= start ->
  let nv := lv - fv + 1 in
  let s' := Z.min start (nv - 1) in let e' := Z.min end_ (nv - 1) in
  s' <= e' ->
  sl_midnight (slice_channel ch start end_ fv lv (Some m) miss qn) =
  if (fv + s' <=? m) && (m <=? fv + e') then Some (m - (fv + s')) else None.
Proof. intros. apply midnight_reindexed; assumption. Qed.

(* integer encoding *)
Theorem C20_encoding :
  (forall scale offset fill (v : Q), encode scale offset fill (Some v) =
     let y := ((v - offset) * inject_Z scale)%Q in Z.quot (Qnum y) (Zpos (Qden y))) /\
  (forall scale offset fill, encode scale offset fill None = fill) /\
  encode_bt (-32001) (Some (27315 # 100)%Q) = 0 /\ encode_bt (-32001) (Some (30000 # 100)%Q) = 2685 /\
  encode_bt (-32001) (Some (20000 # 100)%Q) = -7315 /\
  encode_refl (-32001) (Some (123456 # 1000)%Q) = 12345 /\
  encode_latlon (-999999) (Some (-1234567 # 10000)%Q) = -123456.
Proof. exact encoding. Qed.

Example C20_example :
  save_select [10; 11; 12; 13; 14; 15; 16] [false; true; true; true; true; true; false] 1 3 (Some 3) [7] [1; 2; 3; 4; 5; 6; 8]
  = Saved (mkSliced [12; 13; 14] (Some [1; 7; 8]) (Some 1)) 1 3 /\
  save_select [10; 11; 12] [true; true; true] 3 0 None [] [1; 2; 3] = SaveValueError.
Proof. vm_compute. repeat split. Qed.

Print Assumptions C20_uniform.
Print Assumptions C20_argument_order.
Print Assumptions C20_datasets.
Print Assumptions C20_scaling.
Print Assumptions C20_rows.
Print Assumptions C20_end_rule.
Print Assumptions C20_start_rejected.
Print Assumptions C20_midnight.
Print Assumptions C20_encoding.
Print Assumptions C20_example.
