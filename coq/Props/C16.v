(* C16 -- Calibration coefficients are a pure function of spacecraft, overrides and file.
   Statements only; proofs in Proofs/P_C16.v.  Entry values and the array-building function are abstract. *)
From Coq Require Import String List Bool.
From PV Require Import M_Coeffs Gen_Coeffs Gen_Consts P_C16.
Import ListNotations.
Open Scope string_scope.

(* for ALL sequences of requests (mixing spacecraft, default / alternative / unreadable files, custom overrides),
   starting from an empty cache: request k returns spec(spacecraft_k, custom_k, content(file_k)) -- nothing else *)
Theorem C16_pure : forall V Arr (build : string -> list (string * V) -> Arr) (F : fs V) reqs,
  snd (run_requests V Arr build F (c_init V) reqs) = map (fun r => let '(sc, cu, f) := r in spec V Arr build F sc cu f) reqs.
Proof. intros. apply (proj2 (history_pure V Arr build F reqs (c_init V) I)). Qed.

(* custom coefficients replace exactly the top-level entries they name; all other entries are the file's *)
Theorem C16_override_exact : forall V (d c : list (string * V)) k,
  lookup k (update V d c) = match lookup k (rev c) with Some v => Some v | None => lookup k d end.
Proof. intros. apply update_exact. Qed.

(* version: the file's registered name iff no custom coefficients are given, absent otherwise *)
Theorem C16_version : forall V Arr (build : string -> list (string * V) -> Arr) (F : fs V) sc cu f c defaults,
  F f = Some c -> lookup sc (c_table V c) = Some defaults ->
  spec V Arr build F sc cu f = Result Arr (build sc (update V defaults cu)) (match cu with [] => c_version V c | _ => None end).
Proof. intros. eapply version_rule; eassumption. Qed.

(* every spacecraft either reader family can report has a complete coefficient set in the shipped file
   (17 complete sets; tables regenerated from the file and from the reader classes on every run) *)
Theorem C16_complete :
  forallb (fun p => has_complete (snd p)) pod_spacecraft_names = true /\
  forallb (fun p => has_complete (snd p)) klm_spacecraft_names = true /\
  length (filter sc_complete all_coeffs) = 17%nat.
Proof. destruct shipped_complete as [H1 H2]. split; [exact H1|]. split; [exact H2|exact seventeen]. Qed.

Theorem C16_shipped_version_known : lookup_s coeff_file_md5 version_hashs <> None.
Proof. exact shipped_version_known. Qed.

(* non-vacuity: a two-request history with a custom override in between *)
Example C16_example :
  let F := fun f : option string => match f with None => Some (mkContent nat [("sat", [("a", 1); ("b", 2)])] (Some "v1")) | _ => None end in
  snd (run_requests nat (list (string * nat)) (fun _ e => e) F (c_init nat)
         [("sat", [("b", 9)], None); ("sat", [], None); ("sat", [], Some "missing.json"); ("sat", [], Some "missing.json")])
  = [Result _ [("a", 1); ("b", 9)] None; Result _ [("a", 1); ("b", 2)] (Some "v1"); ReadError _; ReadError _].
Proof. reflexivity. Qed.

Print Assumptions C16_pure.
Print Assumptions C16_override_exact.
Print Assumptions C16_version.
Print Assumptions C16_complete.
Print Assumptions C16_shipped_version_known.
Print Assumptions C16_example.
