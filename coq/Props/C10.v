(* C10 -- Exactly one reader accepts a file, chosen by its data-set name alone.
   Statements only; proofs in Proofs/P_C10.v.  Names are lists of Unicode code points; \w and \d are arbitrary
   predicates (the theorems hold whatever Unicode makes of them). *)
From Coq Require Import String Ascii List Bool Arith Sorting.Permutation.
From PV Require Import M_Select Gen_Consts P_C10.
Import ListNotations.

(* the model's token pattern IS the source's regular expression; the accepted transfer modes and platform ids
   (regenerated from the four _validate_header methods) ARE the format's lists; every class runs all three tests *)
Theorem C10_constants :
  render pattern = data_set_pattern /\
  gac_transfer_modes = ["GHRR"]%string /\ lac_transfer_modes = ["LHRR"; "HRPT"; "FRAC"]%string /\
  pod_platform_ids = ["TN"; "NA"; "NB"; "NC"; "ND"; "NE"; "NF"; "NG"; "NH"; "NI"; "NJ"]%string /\
  klm_platform_ids = ["NK"; "NL"; "NM"; "NN"; "NP"; "M1"; "M2"; "M3"]%string.
Proof. split; [exact pattern_is_source|exact lists_are_spec]. Qed.

(* for ALL name strings: at most one of the four readers accepts *)
Theorem C10_core_exclusive : forall is_word is_digit name r f r' f',
  accepts is_word is_digit GM LM PI KI r f name = true ->
  accepts is_word is_digit GM LM PI KI r' f' name = true -> r = r' /\ f = f'.
Proof. exact core_exclusive. Qed.

(* ... and which one is decided by the transfer mode and the platform id of the name alone *)
Theorem C10_core_decision : forall is_word is_digit name r f,
  accepts is_word is_digit GM LM PI KI r f name = true <->
  (matches is_word is_digit name = true /\
   In (transfer_mode name) (match r with GAC => GM | LAC => LM end) /\
   In (platform_id name) (match f with POD => PI | KLM => KI end)).
Proof. exact core_decision. Qed.

(* for every initial candidate order and every sequence of earlier selections: if for each file at most one class
   accepts, the class returned for a file is a function of that file alone, and the candidate list stays a
   permutation of the classes *)
Theorem C10_history_independent : forall C (C_eqb : C -> C -> bool), (forall a b, C_eqb a b = true <-> a = b) ->
  forall all files order, Permutation order all ->
  Forall (fun acc : C -> bool => forall x y, acc x = true -> acc y = true -> x = y) files ->
  snd (run_selections C C_eqb order files) = map (choice C all) files /\
  Permutation (fst (run_selections C C_eqb order files)) all.
Proof. intros. apply history_independent; assumption. Qed.

(* can_read leaves the file object at its original position whatever happens, and absorbs exactly
   ReaderError / ValueError / EOFError / zlib.error *)
Theorem C10_position_restored : forall o pos, snd (can_read o pos) = pos.
Proof. exact can_read_position. Qed.
Theorem C10_exception_filter : forall o pos, match fst (can_read o pos) with
  | CR_bool b => b = true <-> o = RO_ok
  | CR_raises n => o = RO_other n
  end.
Proof. exact can_read_filter. Qed.
Theorem C10_mro : In "GACReader"%string gac_klm_mro /\ In "KLMReader"%string gac_klm_mro /\
  In "LACReader"%string lac_klm_mro /\ In "KLMReader"%string lac_klm_mro /\
  In "GACReader"%string gac_pod_mro /\ In "PODReader"%string gac_pod_mro /\
  In "LACReader"%string lac_pod_mro /\ In "PODReader"%string lac_pod_mro.
Proof. exact (proj2 mro_complete). Qed.

Example C10_example :
  accepts ascii_word ascii_digit GM LM PI KI GAC POD (of_string "NSS.GHRR.NJ.D96144.S2000.E2148.B0720102.GC") = true /\
  accepts ascii_word ascii_digit GM LM PI KI LAC KLM (of_string "NSS.FRAC.M2.D12345.S2000.E2148.B0720102.SV") = true /\
  accepts ascii_word ascii_digit GM LM PI KI GAC KLM (of_string "NSS.GHRR.NJ.D96144.S2000.E2148.B0720102.GC") = false /\
  snd (run_selections nat Nat.eqb [0; 1; 2; 3] [(fun c => Nat.eqb c 2); (fun c => Nat.eqb c 3); (fun _ => false)])
    = [Some 2; Some 3; None].
Proof. vm_compute. repeat split. Qed.

Print Assumptions C10_constants.
Print Assumptions C10_core_exclusive.
Print Assumptions C10_core_decision.
Print Assumptions C10_history_independent.
Print Assumptions C10_position_restored.
Print Assumptions C10_exception_filter.
Print Assumptions C10_mro.
Print Assumptions C10_example.
