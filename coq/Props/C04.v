(* C04 -- Solar channels follow the PATMOS-x calibration for every spacecraft and date.
   Statements only; proofs in Proofs/P_C04.v (exact rational arithmetic) and P_C04_R.v (the cosine).
   all_coeffs is regenerated from calibration.json on every run (exact decimals). *)
From Coq Require Import ZArith QArith List Bool Reals.
From PV Require Import Gen_Coeffs M_Solar P_C04 P_C04_R.
Import ListNotations.
Open Scope Q_scope.

(* the model (which mirrors calibrate_solar: np.where, the isnan(gain_switch).all() test, corr != 1, r < 0 -> NaN)
   equals the PATMOS-x formula: slope round3(g*S0)*(100+S1 t+S2 t^2)/100 applied piecewise-linearly about the dark count
   and the dual-gain switch, times the distance factor, negative results NaN *)
Theorem C04_formula_dual : forall rows ch t corr c row b,
  nth_error rows ch = Some row -> single_gain rows = false -> v_switch row = Some b ->
  solar rows ch t corr c =
  mask_neg (apply_corr corr (spec_radiance (slope (round_dec 3 (glow ch * v_s0 row)) (v_s1 row) (v_s2 row) t)
                                           (slope (round_dec 3 (ghigh ch * v_s0 row)) (v_s1 row) (v_s2 row) t)
                                           (v_dark row) (Some b) c)).
Proof. exact solar_formula_dual. Qed.
Theorem C04_formula_single : forall rows ch t corr c row,
  nth_error rows ch = Some row -> single_gain rows = true ->
  solar rows ch t corr c =
  mask_neg (apply_corr corr (spec_radiance (slope (round_dec 3 (1 * v_s0 row)) (v_s1 row) (v_s2 row) t)
                                           (slope (round_dec 3 (1 * v_s0 row)) (v_s1 row) (v_s2 row) t)
                                           (v_dark row) None c)).
Proof. exact solar_formula_single. Qed.
Theorem C04_gain_factors : glow 0 == 1 # 2 /\ glow 1 == 1 # 2 /\ glow 2 == 1 # 4 /\ ghigh 0 == 3 # 2 /\ ghigh 1 == 3 # 2 /\ ghigh 2 == 7 # 4.
Proof. repeat split; reflexivity. Qed.

(* zero at the dark count, for every complete spacecraft / channel of the shipped table *)
Theorem C04_zero_at_dark : forall sc ch t corr row,
  In sc all_coeffs -> sc_complete sc = true -> nth_error (sc_vis sc) ch = Some row ->
  (single_gain (sc_vis sc) = true \/ v_switch row <> None) ->
  exists x, solar (sc_vis sc) ch t corr (v_dark row) = Some x /\ x == 0.
Proof. exact solar_zero_at_dark. Qed.

(* continuous at the gain switch: the two branches agree there *)
Theorem C04_continuous_at_switch : forall sl sh d b, (b - d) * sl == (b - d) * sl + (b - b) * sh.
Proof. exact continuous_at_switch. Qed.

(* non-decreasing in the count during the first ten years after launch: all 17 x 3 rows of the table, every
   t in [0, 10], every non-negative distance factor, every pair of counts (real-valued, in particular 0..1023) *)
Theorem C04_monotone : forall sc ch t corr c c' x y,
  In sc all_coeffs -> sc_complete sc = true -> 0 <= t <= 10 -> 0 <= corr -> c <= c' ->
  solar (sc_vis sc) ch t corr c = Some x -> solar (sc_vis sc) ch t corr c' = Some y -> x <= y.
Proof. exact solar_monotone. Qed.

(* the table check behind it (dark <= switch, rounded gains >= 0, quadratic >= 0 on [0,10], launch date = date2float) *)
Theorem C04_table_ok : forallb sc_ok all_coeffs = true.
Proof. exact all_rows_ok. Qed.

(* the distance factor of any day is within [0.9666, 1.0334] (in particular non-negative) *)
Theorem C04_corr_range : forall x : R, (0.9666 <= 1 - 0.0334 * cos x <= 1.0334)%R.
Proof. exact corr_range. Qed.

(* non-vacuity: NOAA-19-like dual-gain row evaluated at three counts *)
Example C04_example : exists sc, In sc all_coeffs /\ sc_complete sc = true /\
  exists x y, solar (sc_vis sc) 0 5 1 100 = Some x /\ solar (sc_vis sc) 0 5 1 900 = Some y /\ x < y.
Proof.
  exists coeffs_noaa19. split; [vm_compute; tauto|]. split; [reflexivity|].
  eexists. eexists. split; [vm_compute; reflexivity|]. split; [vm_compute; reflexivity|]. vm_compute. reflexivity.
Qed.

Print Assumptions C04_formula_dual.
Print Assumptions C04_formula_single.
Print Assumptions C04_gain_factors.
Print Assumptions C04_zero_at_dark.
Print Assumptions C04_continuous_at_switch.
Print Assumptions C04_monotone.
Print Assumptions C04_table_ok.
Print Assumptions C04_corr_range.
Print Assumptions C04_example.
