(* C03 -- Recorded scan-line times are decoded exactly and consistent ones preserved.
   Statements only; proofs in Proofs/P_C03.v.  Times of day in the stage models are in units u = 1/24 ms. *)
From Coq Require Import ZArith List Bool Arith.
From PV Require Import Median Calendar M_Times P_C03 P_C03_J.
Import ListNotations.
Open Scope Z_scope.

(* ---- decoding: exact, for all bit patterns ---- *)
(* POD time code, all 16-bit word triples: 7-bit year with the 1900/2000 pivot at 75, 9-bit day of year,
   27-bit millisecond of day; the upper five bits of the second word are ignored *)
Theorem C03_pod_decode : forall w0 w1 w2, 0 <= w0 < 65536 -> 0 <= w1 < 65536 -> 0 <= w2 < 65536 ->
  pod_decode w0 w1 w2 =
  ((if 75 <? w0 / 512 then w0 / 512 + 1900 else w0 / 512 + 2000), w0 mod 512, (w1 mod 2048) * 65536 + w2).
Proof. exact pod_decode_spec. Qed.

(* (year, day, ms) denotes 1 January of the year + (day-1) days + ms, Gregorian calendar *)
Theorem C03_instant : forall y j ms, 0 <= ms ->
  to_ms y j (U * ms) = (days_before_year y + (j - 1)) * 86400000 + ms.
Proof. exact to_ms_spec. Qed.
Theorem C03_calendar : days_before_year 1970 = 0 /\
  forall y, days_before_year (y + 1) = days_before_year y + (if is_leap y then 366 else 365).
Proof. split; [reflexivity|exact days_before_year_succ]. Qed.

(* ---- stage 1 (median sanitising) is the identity on quiet input, whatever the first line number ---- *)
(* quiet = days in 1..366 and non-decreasing, no millisecond field equal to 0, years within [1978, now], and every
   line that follows a millisecond jump of more than 1 s (a data gap) without a day increment carries exactly the
   time extrapolated from the first line present *)
Theorem C03_stage1_quiet : forall tp nums years jdays msecs, quiet tp nums years jdays msecs ->
  stage1 tp nums years jdays msecs = (years, jdays, map (fun x => U * x) msecs).
Proof. exact stage1_quiet. Qed.

(* ---- stage 2 (threshold repair): exact lines are never moved, all others end within the threshold ---- *)
Theorem C03_stage2_repairs : forall tp th nums times truth h c,
  monotone nums = true -> length times = length nums -> length truth = length nums ->
  0 <= max_diff_ideal th ->
  (forall i, (i < length nums)%nat -> U * nth i truth 0 = (nth i nums 0 - 1) * period_u tp + c) ->
  let near := near_of tp th nums times h in
  (2 * count_occ Z.eq_dec near c > length near)%nat ->
  (min_frac_num th * Z.of_nat (length nums) <= Z.of_nat (length near) * min_frac_den th) ->
  exists out, stage2 tp th nums times (Some h) = S2_ok out /\ length out = length nums /\
  forall i, (i < length nums)%nat ->
    Z.abs (nth i out 0 - nth i truth 0) <= max_diff_ideal th /\
    (nth i times 0 = nth i truth 0 -> nth i out 0 = nth i truth 0).
Proof. exact stage2_repairs. Qed.

(* ---- the composition.  Full statement of the property ("every consistent pass is returned unchanged") is
   FALSE of the faithful model, see C03_clean_identity_refuted; what is proved is the statement under the
   hypothesis `quiet` (named _partial).  The complement of `quiet` among clean passes is the known finding
   F-C03-1 (known_findings.json). ---- *)
Theorem C03_clean_identity_partial : forall tp th nums years jdays msecs h c,
  quiet tp nums years jdays msecs -> monotone nums = true -> nums <> [] ->
  0 <= max_diff_ideal th -> 0 < min_frac_den th -> min_frac_num th <= min_frac_den th ->
  let rec := recorded years jdays msecs in
  (forall i, (i < length nums)%nat -> U * nth i rec 0 = (nth i nums 0 - 1) * period_u tp + c) ->
  Z.abs (c - U * h) <= U * max_diff_t0 th ->
  get_times tp th nums years jdays msecs (Some h) = rec.
Proof. exact clean_identity. Qed.

(* the same for recorded milliseconds that are ROUNDED nominal times (LAC: period 1000/6 ms, J = 12 u = 1/2 ms): a quiet pass
   whose every line lies within J of an exactly periodic time, with 2 J within the repair threshold, is returned unchanged *)
Theorem C03_clean_identity_rounded_partial : forall tp th nums years jdays msecs h c J,
  quiet tp nums years jdays msecs -> monotone nums = true -> nums <> [] ->
  0 <= J -> 2 * J <= U * max_diff_ideal th -> Z.abs (c - U * h) + J <= U * max_diff_t0 th ->
  0 < min_frac_den th -> min_frac_num th <= min_frac_den th ->
  let rec := recorded years jdays msecs in
  (forall i, (i < length nums)%nat -> Z.abs (U * nth i rec 0 - ((nth i nums 0 - 1) * period_u tp + c)) <= J) ->
  get_times tp th nums years jdays msecs (Some h) = rec.
Proof. exact clean_identity_band. Qed.
Print Assumptions C03_clean_identity_rounded_partial.

Example C03_example_lac : quiet lac_tp lac_nums lac_years lac_jdays lac_msecs /\
  (forall i, (i < length lac_nums)%nat ->
     Z.abs (U * nth i (recorded lac_years lac_jdays lac_msecs) 0 - ((nth i lac_nums 0 - 1) * period_u lac_tp + (U * 981280800123 - 2 * 4000))) <= 12) /\
  get_times lac_tp ex_th lac_nums lac_years lac_jdays lac_msecs (Some 981280799790) = recorded lac_years lac_jdays lac_msecs.
Proof. split; [exact lac_quiet|]. split; [exact lac_band|]. vm_compute. reflexivity. Qed.

Theorem C03_clean_identity_refuted :
  recorded w_years w_jdays w_msecs = w_rec_ms /\ monotone w_nums = true /\ nth 1%nat w_msecs 1 = 0 /\
  nth 10%nat (get_times ex_tp ex_th w_nums w_years w_jdays w_msecs (Some 992563199500)) 0
    = nth 10%nat w_rec_ms 0 + 86400000.
Proof. exact clean_identity_refuted. Qed.

(* non-vacuity: a concrete pass (first line 7, one 10-line gap) is quiet and is returned unchanged *)
Example C03_example : quiet ex_tp ex_nums ex_years ex_jdays ex_msecs /\
  get_times ex_tp ex_th ex_nums ex_years ex_jdays ex_msecs (Some 981280797123) = recorded ex_years ex_jdays ex_msecs.
Proof. split; [exact ex_quiet|exact ex_identity]. Qed.

Print Assumptions C03_pod_decode.
Print Assumptions C03_instant.
Print Assumptions C03_calendar.
Print Assumptions C03_stage1_quiet.
Print Assumptions C03_stage2_repairs.
Print Assumptions C03_clean_identity_partial.
Print Assumptions C03_clean_identity_refuted.
Print Assumptions C03_example.
