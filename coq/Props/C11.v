(* C11 -- Scan-line-number sanitising only removes records, and only implausible ones.
   Records are (number, payload) with an arbitrary payload type A: the model never inspects or builds
   payloads, so surviving records are the file's records.  Statements only; proofs in Proofs/P_C11.v. *)
From Coq Require Import ZArith List Bool Arith Lia.
From PV Require Import Median M_ScanNo P_C11.
Import ListNotations.
Open Scope Z_scope.

(* KLM: the result is an order-preserving sublist of the file's records, for ALL sequences *)
Theorem C11_subsequence : forall A max (l : list (Z * A)), Sublist (klm_sanitize max l) l.
Proof. exact klm_sublist. Qed.

(* POD: the result is a rotation (or a tail) of an order-preserving sublist of the file's records ... *)
Theorem C11_pod_rotation : forall A max (l : list (Z * A)) out, pod_sanitize max l = Some out ->
  Sublist (pod_base A max l) l /\
  exists k, out = skipn k (pod_base A max l) ++ firstn k (pod_base A max l) \/ out = skipn k (pod_base A max l).
Proof. intros. split; [apply pod_base_sublist|apply pod_rotation; assumption]. Qed.

(* ... in which the lowest number comes first *)
Theorem C11_pod_lowest_first : forall A max (l : list (Z * A)) out, pod_sanitize max l = Some out ->
  exists r rest, out = r :: rest /\ forall x, In x out -> fst r <= fst x.
Proof. exact pod_lowest_first. Qed.

(* all surviving numbers are in range: KLM 0..max-1, POD 1..max-1 *)
Theorem C11_range_klm : forall A max (l : list (Z * A)) r, In r (klm_sanitize max l) -> 0 <= fst r < max.
Proof. exact base_range. Qed.
Theorem C11_range_pod : forall A max (l : list (Z * A)) out r, pod_sanitize max l = Some out -> In r out -> 1 <= fst r < max.
Proof. exact pod_range. Qed.

(* a gap-free pass (numbers first, first+1, ...; all in range) is kept whole *)
Theorem C11_gapfree_kept : forall A max first (l : list (Z * A)),
  l <> [] -> Forall (fun r => 0 <= fst r < max) l -> gapfree_from first (map fst l) ->
  klm_sanitize max l = l.
Proof. exact base_gapfree_kept. Qed.

(* otherwise gap-free pass, fewer than 50 corrupted in-range numbers forming a strict minority:
   exactly the records deviating by more than 500 lines from their expected number are removed *)
Theorem C11_exact_500 : forall A max first (l : list (Z * A)),
  let ns := map fst l in
  Forall (fun r => 0 <= fst r < max) l ->
  (corrupt_count (first - 1) 1 ns < 50)%nat -> (2 * corrupt_count (first - 1) 1 ns < length ns)%nat ->
  klm_sanitize max l = filter_by (keep500_from first ns) l.
Proof. exact base_exact_500. Qed.

(* why the minority hypothesis is there: with two of three entries corrupted the intact one is removed *)
Theorem C11_exact_500_minority_needed :
  map fst (klm_sanitize 15000 [(1, 0%nat); (700, 1%nat); (701, 2%nat)]) = [700; 701].
Proof. exact exact_500_minority_needed. Qed.

(* non-vacuity: 8-line pass from line 7 with one spike of +501 and one of +500 *)
Example C11_example :
  let l := tag [7; 8; 9; 511; 11; 12; 513; 14] in
  (corrupt_count 6 1 (map fst l) < 50)%nat /\ (2 * corrupt_count 6 1 (map fst l) < length l)%nat /\
  map fst (klm_sanitize 15000 l) = [7; 8; 9; 11; 12; 513; 14] /\
  option_map (map snd) (pod_sanitize 15000 (tag [5; 6; 0; 1; 2; 3; 4])) = Some [3; 4; 5; 6; 0; 1]%nat.
Proof. vm_compute. repeat split; lia. Qed.

Print Assumptions C11_subsequence.
Print Assumptions C11_pod_rotation.
Print Assumptions C11_range_klm.
Print Assumptions C11_range_pod.
Print Assumptions C11_gapfree_kept.
Print Assumptions C11_exact_500.
Print Assumptions C11_pod_lowest_first.
Print Assumptions C11_exact_500_minority_needed.
Print Assumptions C11_example.
