(* C01 -- Header and scan-line fields are decoded at the format's byte layout.
   Statements only; proofs in Proofs/P_C01.v and Lib/Layout.v.
   spec_*  : the NOAA format tables (frozen transcription, /verif/spec/formats.json)
   klm_gac, ... : the record layouts regenerated from pygac's dtypes on every run (Gen_Layout)
   *_offset, *_itemsize : regenerated from the reader classes (Gen_Consts) *)
From Coq Require Import ZArith List Bool Arith.
From PV Require Import Bytes Layout M_Read Spec_Layout Gen_Layout Gen_Consts P_C01.
Import ListNotations.
Open Scope nat_scope.

(* 1. every field of the format tables is found in pygac's dtype with the same name, offset, width, kind,
      byte order, count and stride; record size = dtype itemsize = reader offset = format stride *)
Theorem C01_layout_klm_gac : fmt_ok spec_klm_gac klm_gac spec_klm_gac_size klm_gac_size gac_klm_offset gac_klm_itemsize = true.
Proof. exact klm_gac_ok. Qed.
Theorem C01_layout_klm_lac : fmt_ok spec_klm_lac klm_lac spec_klm_lac_size klm_lac_size lac_klm_offset lac_klm_itemsize = true.
Proof. exact klm_lac_ok. Qed.
Theorem C01_layout_pod_gac : fmt_ok spec_pod_gac pod_gac spec_pod_gac_size pod_gac_size gac_pod_offset gac_pod_itemsize = true.
Proof. exact pod_gac_ok. Qed.
Theorem C01_layout_pod_lac : fmt_ok spec_pod_lac pod_lac spec_pod_lac_size pod_lac_size lac_pod_offset lac_pod_itemsize = true.
Proof. exact pod_lac_ok. Qed.
Theorem C01_strides : spec_klm_gac_size = 4608%Z /\ spec_klm_lac_size = 15872%Z /\ spec_pod_gac_size = 3220%Z /\
  spec_pod_lac_size = 14800%Z /\ klm_ars_size = 512%Z /\ pod_tbm_size = 122%Z.
Proof. exact strides. Qed.
Theorem C01_headers : 
  hdr_ok spec_klm_header klm_header spec_klm_header_size klm_header_size
  && hdr_ok spec_klm_analog_v2 klm_analog_v2 spec_klm_analog_v2_size klm_analog_v2_size
  && hdr_ok spec_klm_analog_v5 klm_analog_v5 spec_klm_analog_v5_size klm_analog_v5_size
  && hdr_ok spec_klm_ars klm_ars spec_klm_ars_size klm_ars_size
  && hdr_ok spec_pod_header0 pod_header0 spec_pod_header0_size pod_header0_size
  && hdr_ok spec_pod_header1 pod_header1 spec_pod_header1_size pod_header1_size
  && hdr_ok spec_pod_header2 pod_header2 spec_pod_header2_size pod_header2_size
  && hdr_ok spec_pod_header3 pod_header3 spec_pod_header3_size pod_header3_size
  && hdr_ok spec_pod_tbm pod_tbm spec_pod_tbm_size pod_tbm_size = true.
Proof. exact headers_ok. Qed.

(* 2. the unbounded round trip: for ANY format whose tables pass the check above, any header region of the
      right length (one record, plus the archive header when present), any number of records written field by
      field from the spec with any in-range values, any partial trailing record and any header count:
      the reader model returns exactly those records, each cell decodes to the written value (and is a cell of
      pygac's dtype), the count only affects the warning flag. *)
Theorem C01_roundtrip : forall spec gen ss gs off isz asz has_arch hdr recs tail hc,
  fmt_ok spec gen ss gs off isz = true -> (0 < ss)%Z ->
  let size := Z.to_nat isz in
  let cs := layout_cells spec in
  Forall (vals_ok cs) recs -> length tail < size ->
  length hdr = data_start (Z.to_nat off) asz has_arch ->
  let file := hdr ++ concat (map (write_record size cs) recs) ++ tail in
  let sr := read_file (Z.to_nat off) asz size has_arch file hc in
  sr_n sr = length recs /\
  sr_warn sr = negb (Z.of_nat (length recs) =? hc)%Z /\
  (forall i vs, nth_error recs i = Some vs -> map (field_value sr i) cs = vs) /\
  (forall c, In c cs -> In c (layout_cells gen)).
Proof. exact format_roundtrip. Qed.

(* 3. generic cell round trip (used for headers): all cells written then read give back the values;
      cells that are not written keep their content *)
Theorem C01_cells_roundtrip : forall cs vs r, cells_wf (length r) cs = true -> vals_ok cs vs ->
  map (read_cell (write_cells cs vs r)) cs = vs.
Proof. exact read_write_cells. Qed.
Theorem C01_header_cells_wf :
  cells_wf (Z.to_nat gac_klm_offset) (klm_head_cells true) = true /\
  cells_wf (Z.to_nat gac_klm_offset) (klm_head_cells false) = true /\
  cells_wf (Z.to_nat gac_pod_offset) (layout_cells spec_pod_header1) = true /\
  cells_wf (Z.to_nat gac_pod_offset) (layout_cells spec_pod_header2) = true /\
  cells_wf (Z.to_nat gac_pod_offset) (layout_cells spec_pod_header3) = true.
Proof. destruct klm_head_wf, pod_head_wf as [? [? ?]]. repeat split; assumption. Qed.

(* non-vacuity: two records of a tiny layout (a signed 16-bit and an unsigned 8-bit field, one pad byte) *)
Example C01_example :
  let cs := [mkCell 0 2 true true; mkCell 3 1 false true] in
  let file := [9; 9]%Z ++ concat (map (write_record 4 cs) [[-2; 200]; [258; 7]]%Z) ++ [1; 2; 3]%Z in
  let sr := read_file 2 0 4 false file 5 in
  sr_n sr = 2 /\ sr_warn sr = true /\ map (field_value sr 1) cs = [258; 7]%Z /\ map (field_value sr 0) cs = [-2; 200]%Z.
Proof. vm_compute. repeat split. Qed.

Print Assumptions C01_layout_klm_gac.
Print Assumptions C01_layout_klm_lac.
Print Assumptions C01_layout_pod_gac.
Print Assumptions C01_layout_pod_lac.
Print Assumptions C01_strides.
Print Assumptions C01_headers.
Print Assumptions C01_roundtrip.
Print Assumptions C01_cells_roundtrip.
Print Assumptions C01_header_cells_wf.
Print Assumptions C01_example.
