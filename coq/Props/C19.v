(* C19 -- Scan-motor masking acts only inside the listed intervals, on the defined pixels.
   Statements only; proofs in Proofs/P_C19.v.  Interval tables regenerated from the source (ms since 1970). *)
From Coq Require Import String ZArith QArith List Bool Arith.
From PV Require Import M_Tsm Gen_Tsm Gen_Consts Spec_Tables P_C19.
Import ListNotations.
Open Scope Z_scope.

(* the gate: the spacecraft id has a table AND the pass lies entirely inside one listed interval *)
Theorem C19_gate : forall table sc first last, is_tsm_affected table sc first last = true <->
  exists ivs, assoc sc table = Some ivs /\ exists iv, In iv ivs /\ fst iv <= first /\ last <= snd iv.
Proof. exact gate_spec. Qed.

(* only NOAA-14, NOAA-15 and NOAA-16 have tables *)
Theorem C19_tabled_spacecraft :
  map fst tsm_pod = [3] /\ lookup_name 3 pod_spacecraft_names = Some "noaa14"%string /\
  map fst tsm_klm = [4; 2] /\ lookup_name 4 klm_spacecraft_names = Some "noaa15"%string /\
  lookup_name 2 klm_spacecraft_names = Some "noaa16"%string /\
  pod_tsm_ids = [3] /\ klm_tsm_ids = [2; 4].
Proof. exact tabled_spacecraft. Qed.
(* the intervals in the source are the published ones (frozen copy spec/tables.json) *)
Theorem C19_listed_intervals : tsm_pod = spec_tsm_pod /\ tsm_klm = spec_tsm_klm.
Proof. split; vm_compute; reflexivity. Qed.
Print Assumptions C19_listed_intervals.

Theorem C19_other_spacecraft : forall table sc first last, assoc sc table = None -> is_tsm_affected table sc first last = false.
Proof. exact untabled. Qed.

(* outside the gate no pixel is altered *)
Theorem C19_outside_identity : forall f table sc first last planes,
  is_tsm_affected table sc first last = false -> mask_tsm f table sc first last planes = planes.
Proof. exact outside_identity. Qed.

(* inside: a pixel of ANY plane is blanked iff it is flagged, and untouched otherwise *)
Theorem C19_all_channels : forall flag (p : img) i j, (i < length p)%nat -> (j < length (nth i p []))%nat ->
  nth j (nth i (blank_plane flag p) []) None = if flag (Z.of_nat i) (Z.of_nat j) then None else nth j (nth i p []) None.
Proof. exact blank_plane_spec. Qed.

(* flagged iff both 3x3 NaN-ignoring population standard deviations (of |ch1-ch2| and of 100 (ch4-ch5)/ch5) exceed 2,
   i.e. k sum x^2 - (sum x)^2 > 4 k^2 over the k valid values of the window clipped at the border; all-NaN: not flagged *)
Theorem C19_criterion : forall c1 c2 c4 c5 i j, flagged c1 c2 c4 c5 i j = true <->
  (std_gt2 (window (abs_d12 c1 c2) i j) = true /\ std_gt2 (window (rel_d45 c4 c5) i j) = true).
Proof. exact criterion_spec. Qed.
Theorem C19_variance_form : forall l, l <> [] -> (std_gt2 l = true <-> (0 < var_excess l)%Q).
Proof. exact std_gt2_spec. Qed.
Theorem C19_empty_window : std_gt2 [] = false.
Proof. exact empty_window_not_flagged. Qed.

(* channels 1, 2, 4, 5 in both families *)
Theorem C19_channel_choice : tsm_planes FKLM = (0, 1, 4, 5)%nat /\ tsm_planes FPOD = (0, 1, 3, 4)%nat.
Proof. exact channel_choice. Qed.

Example C19_example :
  is_tsm_affected tsm_klm 2 1074089600000 1074096000000 = true /\   (* NOAA-16, 2004-01-14 14:13:20 .. 16:00 *)
  is_tsm_affected tsm_klm 6 1074089600000 1074096000000 = false /\
  flagged [[Some 0; Some 9; Some 0]; [Some 9; Some 0; Some 9]; [Some 0; Some 9; Some 0]]%Q
          [[Some 0; Some 0; Some 0]; [Some 0; Some 0; Some 0]; [Some 0; Some 0; Some 0]]%Q
          [[Some 300; Some 280; Some 300]; [Some 280; Some 300; Some 280]; [Some 300; Some 280; Some 300]]%Q
          [[Some 270; Some 270; Some 270]; [Some 270; Some 270; Some 270]; [Some 270; Some 270; Some 270]]%Q 1 1 = true.
Proof. vm_compute. repeat split. Qed.

Print Assumptions C19_gate.
Print Assumptions C19_tabled_spacecraft.
Print Assumptions C19_other_spacecraft.
Print Assumptions C19_outside_identity.
Print Assumptions C19_all_channels.
Print Assumptions C19_criterion.
Print Assumptions C19_variance_form.
Print Assumptions C19_empty_window.
Print Assumptions C19_channel_choice.
Print Assumptions C19_example.
