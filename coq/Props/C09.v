(* C09 -- POD clock-drift correction shifts time and position consistently, exactly once.
   Statements only; proofs in Proofs/P_C09.v (arithmetic), Proofs/P_C09_R.v (great-circle formula over the reals)
   and Proofs/P_Cache.v (accessor histories).  Model: Model/M_Drift.v; the orbit computation and slerp's trigonometry
   are oracles (section variables); Gen_Drift ties the constants and the shape of the calls to the source. *)
From Coq Require Import String ZArith QArith Qround List Bool Reals.
From PV Require Import M_Drift P_C09 P_C09_R M_Cache P_Cache Gen_Drift Gen_Clock Spec_Tables.
Import ListNotations.
Open Scope Z_scope.

(* constants of the live objects (regenerated from /repo on every run): the line period as timedelta(milliseconds=1/scan_freq)
   in microseconds, the tie points' scan positions 23.5 + 40 k (GAC) / 24 + 40 k (LAC) in LAC pixel units, KLM no-op, one call
   site.  What _adjust_clock_drift computes from them is tied to the model by the correspondence (check_drift), including the
   nominal times and scan positions it hands to the orbit computation. *)
Theorem C09_source_shape :
  drift_gac_rate_us = 500000 /\ drift_lac_rate_us = 166667 /\
  drift_gac_tie_positions_twice = map (fun k => 47 + 80 * k) (zrange 0 51) /\
  drift_lac_tie_positions_twice = map (fun k => 48 + 80 * k) (zrange 0 51) /\
  drift_klm_noop = true /\ drift_adjust_call_sites = ["reader.py"%string].
Proof. repeat split; vm_compute; reflexivity. Qed.
Print Assumptions C09_source_shape.

(* the clock-error tables in the source are the published ones (frozen copy spec/tables.json) *)
Theorem C09_published_tables :
  clock_noaa14 = spec_clock_noaa14 /\ clock_noaa12 = spec_clock_noaa12 /\ clock_noaa11 = spec_clock_noaa11 /\
  clock_noaa9 = spec_clock_noaa9 /\ clock_noaa7 = spec_clock_noaa7 /\
  map fst clock_tables = ["noaa14"; "noaa12"; "noaa11"; "noaa7"; "noaa9"]%string.
Proof. repeat split; vm_compute; reflexivity. Qed.
Print Assumptions C09_published_tables.

(* time: each line's time is shifted by minus the (truncated to ms) clock error interpolated at that line's time ... *)
Theorem C09_time_shift : forall tab t, new_time tab t = t - Qtrunc (interp tab t * 1000).
Proof. reflexivity. Qed.
Print Assumptions C09_time_shift.

(* ... which is linear between neighbouring entries of a chronological table and constant beyond its ends *)
Theorem C09_interpolation : forall pre xa fa xb fb post x,
  Forall (fun p => fst p <= x) pre -> fst (hd (xa, fa) pre) < x -> xa <= x < xb ->
  interp (pre ++ (xa, fa) :: (xb, fb) :: post) x = lin xa fa xb fb x.
Proof. exact interp_between. Qed.
Print Assumptions C09_interpolation.

Theorem C09_constant_beyond_ends : forall x0 f0 r x,
  (x <= x0 -> interp ((x0, f0) :: r) x = f0) /\
  (sortedb ((x0, f0) :: r) = true -> x0 < x -> fst (last r (x0, f0)) <= x -> interp ((x0, f0) :: r) x = snd (last r (x0, f0))).
Proof. intros. split; [apply interp_left | apply interp_right]. Qed.
Print Assumptions C09_constant_beyond_ends.

(* for ANY table, chronological or not: the interpolated error (hence the shift) stays within the range of the tabulated errors *)
Theorem C09_error_bounded : forall tab x (lo hi : Q), tab <> nil ->
  Forall (fun p => (lo <= snd p)%Q /\ (snd p <= hi)%Q) tab ->
  (lo <= interp tab x)%Q /\ (interp tab x <= hi)%Q.
Proof. exact interp_bounded. Qed.
Print Assumptions C09_error_bounded.

(* position: the two rows interpolated and the weight are those of the fractional line number n - error / line period *)
Theorem C09_fractional_line : forall rate_us tab l,
  (inject_Z (fl rate_us tab l) + wt rate_us tab l == inject_Z (fst l) - offset tab (snd l) / rate rate_us)%Q /\
  (0 <= wt rate_us tab l)%Q /\ (wt rate_us tab l < 1)%Q.
Proof. exact fractional_line. Qed.
Print Assumptions C09_fractional_line.

(* for ALL errors, gap patterns and first line numbers: both partners of every line are rows inside the grid,
   each is filled (by a record of the file or by a recomputed line), and they carry the numbers floor and floor + 1 *)
Theorem C09_grid_safe : forall rate_us plus tab ls l, 1 <= plus -> In l ls ->
  0 <= row_lo rate_us tab ls l /\ row_hi rate_us tab ls l < num_lines rate_us plus tab ls /\
  exists s0 s1, grid_row rate_us plus tab ls (row_lo rate_us tab ls l) = Some s0 /\
                grid_row rate_us plus tab ls (row_hi rate_us tab ls l) = Some s1 /\
                src_line rate_us plus tab ls s0 = fl rate_us tab l /\ src_line rate_us plus tab ls s1 = fl rate_us tab l + 1.
Proof. exact grid_safe. Qed.
Print Assumptions C09_grid_safe.

(* the recomputed lines are exactly the numbers of the grid's range that no record carries; a record is never replaced *)
Theorem C09_missed_lines : forall rate_us plus tab ls m,
  In m (missed rate_us plus tab ls) <->
  (min_line rate_us tab ls <= m <= max_line rate_us plus tab ls /\ ~ In m (nums ls)).
Proof. exact missed_spec. Qed.
Print Assumptions C09_missed_lines.

Theorem C09_file_rows_kept : forall rate_us plus tab ls l, In l ls ->
  exists k, grid_row rate_us plus tab ls (fst l - min_line rate_us tab ls) = Some (FileRow k) /\ nth k (nums ls) 0 = fst l.
Proof. exact file_rows_kept. Qed.
Print Assumptions C09_file_rows_kept.

(* when no line of the interpolation range is absent (e.g. a gap-free pass during which the error crosses zero upwards) the orbit
   computation is not needed: every row of the grid is a record of the file *)
Theorem C09_nothing_missing : forall rate_us plus tab ls r s,
  missed rate_us plus tab ls = [] -> grid_row rate_us plus tab ls r = Some s -> exists k, s = FileRow k.
Proof. exact nothing_missing. Qed.
Print Assumptions C09_nothing_missing.

(* nominal time (us) of an absent line m: the first record's time plus (m - its number) line periods *)
Theorem C09_missed_times : forall step_us n0 t0 rest m,
  missed_time_us step_us ((n0, t0) :: rest) m = t0 * 1000 + (m - n0) * step_us.
Proof. reflexivity. Qed.
Print Assumptions C09_missed_times.

(* zero error: times and positions unchanged (slerp contract: weight 0 returns the first point) *)
Theorem C09_zero_error_identity : forall rate_us step_us plus tab (Pos : Type) file_pos orbit (slerp : Pos -> Pos -> Q -> Pos) nan_row,
  (forall p q t, (t == 0)%Q -> slerp p q t = p) ->
  forall ls i l, NoDup (nums ls) -> nth_error ls i = Some l -> (offset tab (snd l) == 0)%Q ->
  new_time tab (snd l) = snd l /\
  adjusted rate_us step_us plus tab Pos file_pos orbit slerp nan_row ls l = file_pos i.
Proof. intros. eapply zero_error_identity; eassumption. Qed.
Print Assumptions C09_zero_error_identity.

Theorem C09_zero_table : forall tab x, Forall (fun p => (snd p == 0)%Q) tab -> (interp tab x == 0)%Q.
Proof. exact interp_zero. Qed.
Print Assumptions C09_zero_table.

(* the great-circle formula: weight 0 / 1 reproduce the end points, the result stays on the unit sphere *)
Theorem C09_slerp_endpoints : forall w a b, sin w <> 0%R -> sl w 0 a b = a /\ sl w 1 a b = b.
Proof. intros. split; [apply sl_0 | apply sl_1]; assumption. Qed.
Print Assumptions C09_slerp_endpoints.

Theorem C09_slerp_on_sphere : forall w t a1 a2 a3 b1 b2 b3, sin w <> 0%R ->
  (a1 * a1 + a2 * a2 + a3 * a3 = 1 -> b1 * b1 + b2 * b2 + b3 * b3 = 1 -> a1 * b1 + a2 * b2 + a3 * b3 = cos w ->
   sl w t a1 b1 * sl w t a1 b1 + sl w t a2 b2 * sl w t a2 b2 + sl w t a3 b3 * sl w t a3 b3 = 1)%R.
Proof. exact sl_unit. Qed.
Print Assumptions C09_slerp_on_sphere.

(* exactly once, for ALL histories of accessor calls: the times are shifted iff the correction applies and a
   coordinate-producing call has occurred -- never twice *)
Theorem C09_exactly_once : forall Times LonLat Meta (T0 : Times) (L0 : LonLat) (c : cfg) shift_t shift_l finish
  (meta_of : Times -> Meta) ops,
  let s := fst (run Times LonLat Meta T0 L0 (applies c) shift_t shift_l finish meta_of (r_init _ _ _) ops) in
  r_shifted _ _ _ s = applies c && existsb coord_op ops /\
  (r_times _ _ _ s = None \/
   r_times _ _ _ s = Some (if existsb coord_op ops then final_times Times T0 (applies c) shift_t else T0)).
Proof. intros. apply shift_exactly_once. Qed.
Print Assumptions C09_exactly_once.

(* skipped without effect: KLM, disabled, no table, no usable TLE -- every observation of every history is that of the file *)
Theorem C09_skips : forall Times LonLat Meta (T0 : Times) (L0 : LonLat) (c : cfg) shift_t shift_l finish
  (meta_of : Times -> Meta) ops,
  (is_pod c = false \/ enabled c = false \/ has_table c = false \/ tle_usable c = false) ->
  applies c = false /\
  final_times Times T0 (applies c) shift_t = T0 /\
  final_lonlat Times LonLat T0 L0 (applies c) shift_l finish = finish L0 /\
  r_shifted _ _ _ (fst (run Times LonLat Meta T0 L0 (applies c) shift_t shift_l finish meta_of (r_init _ _ _) ops)) = false.
Proof.
  intros Times LonLat Meta T0 L0 c shift_t shift_l finish meta_of ops H.
  assert (A : applies c = false).
  { unfold applies. destruct H as [H|[H|[H|H]]]; rewrite H; repeat rewrite ?andb_false_r, ?andb_false_l; reflexivity. }
  split; [exact A|]. rewrite A. split; [reflexivity|]. split; [reflexivity|].
  apply (proj1 (shift_exactly_once Times LonLat Meta T0 L0 false shift_t shift_l finish meta_of ops)).
Qed.
Print Assumptions C09_skips.

(* non-vacuity: the pass of the package's own unit test (lines 15-18, 22-25, GAC, constant 3.75 s error):
   7.5 lines back -> floor n - 8, weight 1/2; lines 7..14 and 19..21 are recomputed; a negative error larger
   than a line period on a LAC pass looks forward *)
Example C09_example :
  let tab := [(0, 375 # 100); (1000000, 375 # 100)] in
  let ls := [(15, 1000); (16, 1500); (17, 2000); (18, 2500); (22, 4500); (23, 5000); (24, 5500); (25, 6000)] in
  map (fl 500000 tab) ls = [7; 8; 9; 10; 14; 15; 16; 17] /\
  forallb (fun l => Qeq_bool (wt 500000 tab l) (1 # 2)) ls = true /\
  missed 500000 1 tab ls = [7; 8; 9; 10; 11; 12; 13; 14; 19; 20; 21] /\
  map (new_time tab) (map snd ls) = [-2750; -2250; -1750; -1250; 750; 1250; 1750; 2250] /\
  grid_row 500000 1 tab ls (row_lo 500000 tab ls (22, 4500)) = Some (OrbitRow 7) /\
  grid_row 500000 1 tab ls (row_hi 500000 tab ls (22, 4500)) = Some (FileRow 0) /\
  fl 166667 [(0, (-1) # 2)] (100, 5000) = 102 /\ sortedb tab = true.
Proof. vm_compute. repeat split. Qed.
