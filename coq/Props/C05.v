(* C05 placeholder -- extended below *)
From Coq Require Import ZArith QArith List.
From PV Require Import M_Thermal.
Theorem C05_constants : (c1 == 11910427 # 1000000000000)%Q /\ (c2 == 14387752 # 10000000)%Q.
Proof. split; reflexivity. Qed.
Print Assumptions C05_constants.
