(* C05 -- Thermal channels follow the documented NOAA KLM (section 7.1.2.4) calibration procedure.
   Statements only; proofs in Proofs/P_C05.v and Lib/Median.v.
   PRT readings enter as 3 x mean (integers), so "below 50 counts" is "< 150". *)
From Coq Require Import ZArith QArith List Bool Arith.
From PV Require Import Median NumSig Gen_Coeffs M_Thermal P_C05.
Import ListNotations.

(* PRT cycle location: the search returns the reset residue r whenever class r has a strict majority of readings
   below 50 and every earlier class a strict majority of readings not below 50 (or no line at all) -- for every
   first line number, every gap pattern, every pass length *)
Theorem C05_phase : forall cls prt3 r, (0 <= r <= 4)%Z ->
  (2 * count_lt 150 (class_sel cls prt3 r) > length (class_sel cls prt3 r))%nat ->
  (forall k, (0 <= k < r)%Z ->
     (2 * (length (class_sel cls prt3 k) - count_lt 150 (class_sel cls prt3 k)) > length (class_sel cls prt3 k))%nat \/
     class_sel cls prt3 k = []) ->
  find_offset cls prt3 = Some r.
Proof. exact find_offset_spec. Qed.

(* the thermometer of a line is determined by its absolute scan line number and the absolute reset residue *)
Theorem C05_thermometer_index : forall lns offset,
  iprt_of (line_class lns) offset = map (fun l => ((l - (hd 0%Z lns + offset)) mod 5)%Z) lns.
Proof. exact iprt_absolute. Qed.

(* the median test behind it (all integer lists) *)
Theorem C05_median_threshold : forall l c,
  ((2 * count_lt c l > length l)%nat -> (median2 l < 2 * c)%Z) /\
  ((2 * (length l - count_lt c l) > length l)%nat -> (2 * c <= median2 l)%Z).
Proof. intros. split; [apply median2_lt|apply median2_ge]. Qed.

(* gap filling (np.interp over the line index): exact at a valid reading, end values held *)
Theorem C05_gapfill_ends : forall nodes x0 f0 x, (x <= x0)%nat -> interp ((x0, f0) :: nodes) x = Some f0.
Proof. exact interp_first. Qed.
Theorem C05_gapfill_node : forall x prev xi fi r, x = xi -> interp_go x prev ((xi, fi) :: r) = fi.
Proof. exact interp_go_at_node. Qed.

(* boxcar smoothing with edge replication, for EVERY pass length >= 3: line i gets the mean of the w lines centred
   on clamp(i, h, L-1-h); w = 51 for passes longer than 51 lines, 3 otherwise *)
Theorem C05_boxcar : forall x i, (3 <= length x)%nat -> (i < length x)%nat ->
  let L := length x in
  let w := if (51 <? L)%nat then 51%nat else 3%nat in
  let h := ((w - 1) / 2)%nat in
  nth i (smooth x) 0%Q = window_mean x (clamp i h (L - 1 - h)) h w.
Proof. exact smooth_spec. Qed.

(* the radiance chain: Ts_BB = A + B T; N_BB = c1 nu^3 / (exp(c2 nu / Ts_BB) - 1);
   N_lin = N_S + (N_BB - N_S)(C_S - C_E)/(C_S - C_BB); N_E = N_lin + b0 + b1 N_lin + b2 N_lin^2;
   T_E = (c2 nu / ln(1 + c1 nu^3 / N_E) - A) / B   -- over any numeric instance *)
Theorem C05_radiance_chain : forall (N : NumSig) r tbb cs cbb ce,
  let q := ofQ N in
  let tsbb := add N (q (i_a r)) (mul N (q (i_b r)) tbb) in
  let nbb := div N (q (c1 * i_nu r * i_nu r * i_nu r)) (sub N (expT N (div N (q (c2 * i_nu r)) tsbb)) (q 1)) in
  let nlin := add N (q (i_ns r)) (div N (mul N (sub N nbb (q (i_ns r))) (sub N cs ce)) (sub N cs cbb)) in
  let ne := add N nlin (add N (add N (q (i_b0 r)) (mul N (q (i_b1 r)) nlin)) (mul N (mul N (q (i_b2 r)) nlin) nlin)) in
  bt_raw N r tbb cs cbb ce =
  div N (sub N (div N (q (c2 * i_nu r)) (lnT N (add N (q 1) (div N (q (c1 * i_nu r * i_nu r * i_nu r)) ne)))) (q (i_a r))) (q (i_b r)).
Proof. exact chain_formula. Qed.
Theorem C05_constants : (c1 == 11910427 # 1000000000000)%Q /\ (c2 == 14387752 # 10000000)%Q.
Proof. split; reflexivity. Qed.

(* values outside 170..350 K are reported as NaN *)
Theorem C05_range_mask : forall (N : NumSig) chan3 r tbb cs cbb ce v,
  bt N chan3 r tbb cs cbb ce = Some v -> ltb N v (ofQ N 170) = false /\ ltb N (ofQ N 350) v = false.
Proof. exact range_mask. Qed.

(* non-vacuity: a 7-line pass starting at line 3 whose reset lines are 5 and 10 (residue 0): offset 2 *)
Example C05_example :
  find_offset (line_class [3; 4; 5; 6; 7; 8; 10]%Z) [1200; 1210; 0; 1190; 1200; 1210; 3]%Z = Some 2%Z /\
  (nth 0 (smooth [1; 2; 3; 4; 5; 6]%Q) 0 == 2)%Q /\ (nth 5 (smooth [1; 2; 3; 4; 5; 6]%Q) 0 == 5)%Q.
Proof. vm_compute. repeat split. Qed.

Print Assumptions C05_phase.
Print Assumptions C05_thermometer_index.
Print Assumptions C05_median_threshold.
Print Assumptions C05_gapfill_ends.
Print Assumptions C05_gapfill_node.
Print Assumptions C05_boxcar.
Print Assumptions C05_radiance_chain.
Print Assumptions C05_constants.
Print Assumptions C05_range_mask.
Print Assumptions C05_example.
