(* C08 -- Corrupt scan-line times are repaired, and times are always returned.
   Statements only; proofs in Proofs/P_C08.v and Proofs/P_C03.v. *)
From Coq Require Import ZArith List Bool Arith Lia.
From PV Require Import Median Calendar M_Times M_ScanNo P_C03 P_C08.
Import ListNotations.
Open Scope Z_scope.

(* Fallback clause (full): get_times is total and returns exactly one time per line -- for every header (usable or
   not: h = None models the documented ValueError), every line-number order and every content of the time fields;
   when stage 2 refuses, the individually sanitised (stage-1) times are what is returned. *)
Theorem C08_total : forall tp th nums years jdays msecs h,
  length years = length nums -> length jdays = length nums -> length msecs = length nums ->
  length (get_times tp th nums years jdays msecs h) = length nums.
Proof. exact get_times_total. Qed.
Theorem C08_fallback : forall tp th nums years jdays msecs h,
  (monotone nums = false \/ h = None) ->
  get_times tp th nums years jdays msecs h = stage1_times tp nums years jdays msecs.
Proof. exact get_times_fallback. Qed.

(* Repair clause, stage 2 (full): if the lines that carry the true time are the majority of the lines within
   6 min of the header (and at least the minimum fraction of all lines), every returned time is within the
   threshold (10 s) of the truth and every exact line is returned exactly. *)
Theorem C08_stage2_repairs : forall tp th nums times truth h c,
  monotone nums = true -> length times = length nums -> length truth = length nums ->
  0 <= max_diff_ideal th ->
  (forall i, (i < length nums)%nat -> U * nth i truth 0 = (nth i nums 0 - 1) * period_u tp + c) ->
  let near := near_of tp th nums times h in
  (2 * count_occ Z.eq_dec near c > length near)%nat ->
  (min_frac_num th * Z.of_nat (length nums) <= Z.of_nat (length near) * min_frac_den th) ->
  exists out, stage2 tp th nums times (Some h) = S2_ok out /\ length out = length nums /\
  forall i, (i < length nums)%nat ->
    Z.abs (nth i out 0 - nth i truth 0) <= max_diff_ideal th /\
    (nth i times 0 = nth i truth 0 -> nth i out 0 = nth i truth 0).
Proof. exact stage2_repairs. Qed.

(* Repair clause, end to end: the statement "garbage in fewer than 40 % of the lines is always repaired to within
   10 s" is FALSE of the faithful model: 19 of 49 non-first lines (38.8 %) carry mutually consistent garbage, each
   spoils its successor in stage 1, and every line -- intact ones included -- is returned 30 s late.
   The proved part is C08_stage2_repairs applied to the stage-1 output (its majority hypothesis is the H of the
   partial statement); the complement is the known finding F-C08-1. *)
Theorem C08_repairs_refuted :
  length (filter (fun n => r_garbage (n - 1)) r_nums) = 19%nat /\ 100 * 19 < 40 * 49 /\
  nth 0%nat (get_times ex_tp ex_th r_nums r_years r_jdays r_msecs (Some 992563170000)) 0 - nth 0%nat r_truth 0 = 30000 /\
  nth 45%nat (get_times ex_tp ex_th r_nums r_years r_jdays r_msecs (Some 992563170000)) 0 - nth 45%nat r_truth 0 = 30000.
Proof. exact repairs_refuted. Qed.

(* A second way in which the end-to-end statement is false (finding F-C08-3): all line numbers, the header and the
   first record intact, 2 of 200 records with garbage times -- the line-number sanitising removes the intact FIRST record
   of this pass with two data gaps, the repair anchors on the corrupted second record, and all 199 returned times are
   12 h 43 min off.  f3_out / f3_times compose pod_sanitize and get_times as the reader does. *)
Theorem C08_first_record_refuted :
  length f3_nums = 200%nat /\ monotone f3_nums = true /\
  length (filter (fun r => negb (trip_eqb (snd r) (2000, 236, 54136620 + (fst r - 30) * 500))) f3_recs) = 2%nat /\
  option_map snd (hd_error f3_recs) = Some (2000, 236, 54136620) /\
  map fst f3_out = tl f3_nums /\
  length f3_times = 199%nat /\
  forallb (fun p => snd p - f3_truth (fst p) =? 45781335) (combine (tl f3_nums) f3_times) = true.
Proof. exact first_record_refuted. Qed.

Theorem C08_repairs_partial : forall tp th nums years jdays msecs truth h c,
  length years = length nums -> length jdays = length nums -> length msecs = length nums ->
  monotone nums = true -> length truth = length nums -> 0 <= max_diff_ideal th ->
  (forall i, (i < length nums)%nat -> U * nth i truth 0 = (nth i nums 0 - 1) * period_u tp + c) ->
  let t1 := stage1_times tp nums years jdays msecs in
  let near := near_of tp th nums t1 h in
  (2 * count_occ Z.eq_dec near c > length near)%nat ->
  (min_frac_num th * Z.of_nat (length nums) <= Z.of_nat (length near) * min_frac_den th) ->
  forall i, (i < length nums)%nat ->
    Z.abs (nth i (get_times tp th nums years jdays msecs (Some h)) 0 - nth i truth 0) <= max_diff_ideal th.
Proof.
  intros tp th nums years jdays msecs truth h c Hy Hj Hm Hmono Hl Hpos Htruth t1 near Hmaj Hfrac i Hi.
  pose proof (stage1_times_length tp nums years jdays msecs Hy Hj Hm) as Hl1.
  destruct (stage2_repairs tp th nums t1 truth h c Hmono Hl1 Hl Hpos Htruth Hmaj Hfrac) as [out [Hout [_ Hn]]].
  unfold get_times. fold t1. rewrite Hout. apply (proj1 (Hn i Hi)).
Qed.

Print Assumptions C08_total.
Print Assumptions C08_fallback.
Print Assumptions C08_stage2_repairs.
Print Assumptions C08_repairs_refuted.
Print Assumptions C08_first_record_refuted.
Print Assumptions C08_repairs_partial.

(* non-vacuity of the partial statement: a 40-line GAC pass from 2001-06-14 10:00:00 whose lines 9, 10 and 23 carry garbage
   milliseconds meets the majority hypothesis (all lines near the header agree on the pass's offset after stage 1), and
   every line is returned exactly *)
Definition g_nums := zrange 1 40.
Definition g_t0 := 992512800000.
Definition g_truth := map (fun n => g_t0 + (n - 1) * 500) g_nums.
Definition g_bad (n : Z) : bool := (n =? 9) || (n =? 10) || (n =? 23).
Definition g_years := map (fun _ => 2001) g_nums.
Definition g_jdays := map (fun _ => 165) g_nums.
Definition g_msecs := map (fun n => if g_bad n then 36000000 + 7654321 + n else 36000000 + (n - 1) * 500) g_nums.
Example C08_example :
  let t1 := stage1_times ex_tp g_nums g_years g_jdays g_msecs in
  let near := near_of ex_tp ex_th g_nums t1 g_t0 in
  monotone g_nums = true /\
  (2 * count_occ Z.eq_dec near (U * g_t0)%Z > length near)%nat /\
  (min_frac_num ex_th * Z.of_nat (length g_nums) <= Z.of_nat (length near) * min_frac_den ex_th) /\
  forallb (fun n => (U * (g_t0 + (n - 1) * 500) =? (n - 1) * period_u ex_tp + U * g_t0)) g_nums = true /\
  get_times ex_tp ex_th g_nums g_years g_jdays g_msecs (Some g_t0) = g_truth.
Proof.
  vm_compute. split; [reflexivity|]. split; [lia|]. split; [intros H; discriminate H|]. split; reflexivity.
Qed.
