(* C18 -- Pass metadata describe the data that are returned.
   Statements only; proofs in Proofs/P_C18.v (functions of a time vector) and Proofs/P_Cache.v (histories). *)
From Coq Require Import ZArith List Bool Arith Sorting.Sorted.
From PV Require Import Calendar M_Meta M_Cache P_C18 P_Cache.
Import ListNotations.
Open Scope Z_scope.

(* midnight scan line = the one and only index at which the UTC date of the times increases by one day;
   absent when there is no such step or more than one *)
Theorem C18_midnight : forall times i, midnight_scanline times = Some i <->
  ((S i < length times)%nat /\ day_of (nth (S i) times 0) - day_of (nth i times 0) = 1 /\
   forall j, (S j < length times)%nat -> day_of (nth (S j) times 0) - day_of (nth j times 0) = 1 -> j = i).
Proof. exact midnight_spec. Qed.

(* missing scan lines = exactly the numbers between 1 and the last line number that are absent, in order *)
Theorem C18_missing : forall nums x, In x (miss_lines nums) <-> (1 <= x <= last nums 0 /\ ~ In x nums).
Proof. exact miss_lines_spec. Qed.
Theorem C18_missing_sorted : forall nums, StronglySorted Z.lt (miss_lines nums).
Proof. exact miss_lines_sorted. Qed.

(* the day of year entering the Earth-Sun distance factor is that of the first returned time
   (every instant from 1970-01-01 to 2100-12-31) *)
Theorem C18_distance_day : forall times, 0 <= hd 0 times < 47847 * 86400000 ->
  let t := hd 0 times in let y := year_of_day (day_of t) in
  days_before_year y <= day_of t < days_before_year (y + 1) /\
  distance_jday times = day_of t - days_before_year y + 1 /\ 1 <= distance_jday times <= 366.
Proof. intros times H. apply (day_of_year_spec (hd 0 times) H). Qed.

(* for every history of accessor calls on a reader (whichever accessor triggers the computation, with or without
   clock drift correction): stored meta data = meta_of (the times returned from then on), and every dataset's
   attributes = meta_of (its own times coordinate) *)
Theorem C18_describes_returned : forall Times LonLat Meta (T0 : Times) (L0 : LonLat) drift shift_t shift_l finish
  (meta_of : Times -> Meta) ops m,
  let final := final_times Times T0 drift shift_t in
  let s := fst (run Times LonLat Meta T0 L0 drift shift_t shift_l finish meta_of (r_init _ _ _) ops) in
  r_meta _ _ _ s = Some m -> m = meta_of final /\ r_times _ _ _ s = Some final.
Proof. intros. eapply meta_describes_final. eassumption. Qed.

Theorem C18_observations_canonical : forall Times LonLat Meta (T0 : Times) (L0 : LonLat) drift shift_t shift_l finish
  (meta_of : Times -> Meta) ops,
  snd (run Times LonLat Meta T0 L0 drift shift_t shift_l finish meta_of (r_init _ _ _) ops) =
  canon_run Times LonLat Meta T0 L0 drift shift_t shift_l finish meta_of false ops.
Proof.
  intros. destruct (run_canonical Times LonLat Meta T0 L0 drift shift_t shift_l finish meta_of ops (r_init _ _ _)
                      (inv_init _ _ _ _ _ _ _ _ _ _)) as [_ [H _]]. exact H.
Qed.

(* non-vacuity *)
Example C18_example :
  midnight_scanline [86399000; 86399500; 86400000; 86400500] = Some 1%nat /\
  midnight_scanline [86399000; 86400000; 172800000] = None /\
  miss_lines [2; 3; 6] = [1; 4; 5] /\ distance_jday [951782400000] = 60 /\ distance_jday [978307199999] = 366.
Proof. vm_compute. repeat split. Qed.

Print Assumptions C18_midnight.
Print Assumptions C18_missing.
Print Assumptions C18_missing_sorted.
Print Assumptions C18_distance_day.
Print Assumptions C18_describes_returned.
Print Assumptions C18_observations_canonical.
Print Assumptions C18_example.
