(* C14 -- Each KLM line delivers channel 3a or 3b, never both, never the wrong one.
   Statements only; proofs in Proofs/P_C14.v.  solar3a / thermal3 are arbitrary calibration functions. *)
From Coq Require Import ZArith List Bool.
From PV Require Import Bits M_Counts M_Ch3 P_C14.
Import ListNotations.
Open Scope Z_scope.

(* for all per-line sequences of channel-select values in {0 = 3b, 1 = 3a, 2 = transition} and all counts:
   3a carries the solar calibration of the line's third sample iff the line says 3a (else NaN),
   3b carries the thermal calibration of that sample with the line's telemetry iff the line says 3b (else NaN) *)
Theorem C14_klm_lines : forall V Tele (solar3a : Z -> option V) (thermal3 : Tele -> Z -> option V) lines,
  Forall (fun l => 0 <= fst (fst l) <= 2) lines ->
  klm_ch3_pass V Tele solar3a thermal3 lines =
  map (fun l => let '(sw, tele, thirds) := l in
                map (fun c => ((if sw =? 1 then solar3a c else None), (if sw =? 0 then thermal3 tele c else None))) thirds) lines.
Proof. exact pass_spec. Qed.

Theorem C14_never_both : forall V Tele (solar3a : Z -> option V) (thermal3 : Tele -> Z -> option V) sw tele c, 0 <= sw <= 2 ->
  fst (klm_ch3_pixel V Tele solar3a thermal3 sw tele c) = None \/ snd (klm_ch3_pixel V Tele solar3a thermal3 sw tele c) = None.
Proof. exact never_both. Qed.

(* the channel-select value is the low two bits of the scan line bit field (other bits inert) *)
Theorem C14_switch_bits : forall bf, ch3_switch bf = bf mod 4.
Proof. intros. unfold ch3_switch. change 3 with (Z.ones 2). rewrite Z.land_ones by (compute; discriminate). reflexivity. Qed.

(* value 3 is not defined by the format: reported, outside the quantifier *)
Theorem C14_switch3_observation : forall V Tele (solar3a : Z -> option V) (thermal3 : Tele -> Z -> option V) tele c,
  klm_ch3_pixel V Tele solar3a thermal3 3 tele c = (solar3a 0, thermal3 tele 0).
Proof. exact switch3. Qed.

(* POD: five channels; the six-channel output layout is (1, 2, NaN, 3, 4, 5) *)
Theorem C14_pod_layout : forall V (c1 c2 c3 c4 c5 : option V), pod_uniform V [c1; c2; c3; c4; c5] = [c1; c2; None; c3; c4; c5].
Proof. exact pod_uniform_spec. Qed.

Example C14_example : klm_ch3_pass Z unit (fun c => Some (2 * c)) (fun _ c => Some (c + 1)) [(0, tt, [5; 6]); (1, tt, [7]); (2, tt, [8])]
  = [[(None, Some 6); (None, Some 7)]; [(Some 14, None)]; [(None, None)]].
Proof. reflexivity. Qed.

Print Assumptions C14_klm_lines.
Print Assumptions C14_never_both.
Print Assumptions C14_switch_bits.
Print Assumptions C14_switch3_observation.
Print Assumptions C14_pod_layout.
Print Assumptions C14_example.
