(* C07 -- Flagged scan lines are blanked in every product and only those.
   Only statements here; proofs are in Proofs/P_C07.v.  All q : Z (in particular all 2^32 quality words). *)
From Coq Require Import String ZArith List Bool.
From PV Require Import Bits M_Flags Gen_Flags P_C07.
Import ListNotations.
Open Scope Z_scope.

(* mask <-> the three bits, with the flag values regenerated from the source enums *)
Theorem C07_mask_bits_klm : forall q, line_mask klm_flags q = Z.testbit q 31 || Z.testbit q 28 || Z.testbit q 27.
Proof. exact mask_bits_klm. Qed.
Theorem C07_mask_bits_pod : forall q, line_mask pod_flags q = Z.testbit q 31 || Z.testbit q 27 || Z.testbit q 26.
Proof. exact mask_bits_pod. Qed.

(* quality summary columns *)
Theorem C07_summary_klm : forall n q, qual_row klm_flags n q =
  [ n; b2z (Z.testbit q 31); b2z (Z.testbit q 28); b2z (Z.testbit q 27);
    b2z (Z.testbit q 7 || Z.testbit q 6); b2z (Z.testbit q 5 || Z.testbit q 4);
    b2z (Z.testbit q 3 || Z.testbit q 2) ].
Proof. exact summary_klm. Qed.
Theorem C07_summary_pod : forall n q, qual_row pod_flags n q =
  [ n; b2z (Z.testbit q 31); b2z (Z.testbit q 27); b2z (Z.testbit q 26);
    b2z (Z.testbit q 18); b2z (Z.testbit q 17); b2z (Z.testbit q 16) ].
Proof. exact summary_pod. Qed.

(* every product row of a masked line is all-NaN; an unmasked line is returned as computed *)
Theorem C07_blanking : forall A Other (F : Other -> list (list (option A))) tbl q o,
  (line_mask tbl q = true ->
     Forall (fun row => Forall (fun x => x = None) row) (line_products A Other F tbl q o)) /\
  (line_mask tbl q = false -> line_products A Other F tbl q o = F o).
Proof. exact products_blanked. Qed.

(* no other bit of the quality word changes any product *)
Theorem C07_other_bits_inert_klm : forall A Other (F : Other -> list (list (option A))) q q' o,
  Z.testbit q 31 = Z.testbit q' 31 -> Z.testbit q 28 = Z.testbit q' 28 -> Z.testbit q 27 = Z.testbit q' 27 ->
  line_products A Other F klm_flags q o = line_products A Other F klm_flags q' o.
Proof. intros. apply other_bits_inert. apply same_mask_bits_klm; assumption. Qed.
Theorem C07_other_bits_inert_pod : forall A Other (F : Other -> list (list (option A))) q q' o,
  Z.testbit q 31 = Z.testbit q' 31 -> Z.testbit q 27 = Z.testbit q' 27 -> Z.testbit q 26 = Z.testbit q' 26 ->
  line_products A Other F pod_flags q o = line_products A Other F pod_flags q' o.
Proof. intros. apply other_bits_inert. apply same_mask_bits_pod; assumption. Qed.

(* non-vacuity: a word with only bit 28 set is masked for KLM and not for POD *)
Example C07_example : line_mask klm_flags (2 ^ 28) = true /\ line_mask pod_flags (2 ^ 28) = false
  /\ qual_row klm_flags 7 (2 ^ 28 + 2 ^ 6) = [7; 0; 1; 0; 1; 0; 0].
Proof. vm_compute. repeat split. Qed.

Print Assumptions C07_mask_bits_klm.
Print Assumptions C07_mask_bits_pod.
Print Assumptions C07_summary_klm.
Print Assumptions C07_summary_pod.
Print Assumptions C07_blanking.
Print Assumptions C07_other_bits_inert_klm.
Print Assumptions C07_other_bits_inert_pod.
Print Assumptions C07_example.
