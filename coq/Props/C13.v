(* C13 -- Brightness temperatures behave physically: monotone, anchored, phase-free.
   Statements only; proofs in Proofs/P_C13.v (real numbers; bounds by coq-interval) and Proofs/P_C05.v.
   RSig instantiates the numeric signature of the thermal model with Coq's reals, exp and ln. *)
From Coq Require Import Reals QArith Qreals List Bool.
From PV Require Import NumSig Gen_Coeffs M_Thermal P_C05 P_C13.
Import ListNotations.
Open Scope R_scope.

(* on every line the brightness temperature never increases with the earth count: for every coefficient row,
   line telemetry with C_S > C_BB and N_BB >= N_S, and counts c <= c' whose outputs are numbers (not NaN) *)
Theorem C13_monotone : forall chan3 r tbb cs cbb ce ce' v v',
  0 < K1 r -> 0 < K2 r -> 0 < Q2R (i_b r) -> cbb < cs -> Q2R (i_ns r) <= nbb_of r tbb -> ce <= ce' ->
  let x := nlin_of r (nbb_of r tbb) cs cbb ce in let y := nlin_of r (nbb_of r tbb) cs cbb ce' in
  0 <= 1 + Q2R (i_b1 r) + Q2R (i_b2 r) * (x + y) -> 0 < ne_of r y ->
  bt RSig chan3 r tbb cs cbb ce = Some v -> bt RSig chan3 r tbb cs cbb ce' = Some v' -> v' <= v.
Proof. exact bt_monotone. Qed.

(* the side conditions hold for all 51 rows of the regenerated table over the channel's radiance range *)
Theorem C13_table : forallb row_phys_ok ir_rows = true /\ length ir_rows = 51%nat.
Proof. exact table_phys_ok. Qed.
Theorem C13_row_constants : forall r, row_phys_ok r = true ->
  0 < K1 r /\ 0 < K2 r /\ 0 < Q2R (i_b r) /\
  forall x y, 0 <= x <= Q2R (nmax r) -> 0 <= y <= Q2R (nmax r) -> 0 <= 1 + Q2R (i_b1 r) + Q2R (i_b2 r) * (x + y).
Proof. exact row_consts. Qed.

(* anchor: a scene whose count equals the smoothed internal-target count reads the internal-target temperature to
   within 1 K, for every row of the table and every target temperature in 285..305 K; at that count the linear
   radiance estimate is exactly the blackbody radiance, the residue is the non-linearity correction *)
Theorem C13_anchor : forall r, In r ir_rows -> forall Tb cs cbb, 285 <= Tb <= 305 -> cs <> cbb ->
  Rabs (bt_raw RSig r Tb cs cbb cbb - Tb) <= 1.
Proof. exact anchor_all. Qed.
Theorem C13_anchor_exact_radiance : forall r nbb cs cbb, cs <> cbb -> nlin_of r nbb cs cbb cbb = nbb.
Proof. exact nlin_at_bb. Qed.

(* phase-free: the thermometer (hence the polynomial) of a line depends on its absolute line number and the
   absolute reset residue only, not on the line at which the file happens to start; per-pixel evaluation:
   bt takes only the pixel's own count and its line's telemetry *)
Theorem C13_phase_free : forall lns offset,
  iprt_of (line_class lns) offset = map (fun l => ((l - (hd 0%Z lns + offset)) mod 5)%Z) lns.
Proof. exact iprt_absolute. Qed.

Print Assumptions C13_monotone.
Print Assumptions C13_table.
Print Assumptions C13_row_constants.
Print Assumptions C13_anchor.
Print Assumptions C13_anchor_exact_radiance.
Print Assumptions C13_phase_free.
