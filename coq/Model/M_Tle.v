(* M_Tle: model of Reader.tle2datetime64 and Reader.get_tle_lines (reader.py).  Executable; no proofs. *)
From Coq Require Import ZArith QArith List Bool Arith.
From PV Require Import Calendar.
Import ListNotations.
Open Scope Z_scope.

(* ---------- epoch decoding ---------- *)
(* The 14-character field YYDDD.DDDDDDDD read as an exact decimal: e = YYDDD * 10^8 + DDDDDDDD (units 1e-8 day) *)
Definition round_half_even_div (a b : Z) : Z :=   (* rint(a / b), b > 0 *)
  let q := a / b in let r := a mod b in
  if 2 * r <? b then q else if b <? 2 * r then q + 1 else if Z.even q then q else q + 1.

Definition tle_epoch_ms (e : Z) : Z :=
  let yyddd := e / 100000000 in
  let frac := e mod 100000000 in
  (* np.where(times > 50000, times + 1900000, times + 2000000) *)
  let full := if 5000000000000 <? e then yyddd + 1900000 else yyddd + 2000000 in
  let year := full / 1000 in
  let doy := full mod 1000 in
  (days_before_year year + (doy - 1)) * 86400000 + round_half_even_div (86400000 * frac) 100000000.

(* ---------- selection ---------- *)
(* np.searchsorted(dates, sdate) (side='left'): number of elements < sdate in a sorted array *)
Definition searchsorted (dates : list Z) (s : Z) : nat := length (filter (fun d => d <? s) dates).

Inductive tle_result := NoTLEData | Selected (i : nat).

(* thresh in days as a rational tn/td (td > 0) *)
Definition select_tle (dates : list Z) (s : Z) (tn td : Z) : tle_result :=
  let n := length dates in
  let k := searchsorted dates s in
  let i :=
    if (k =? 0)%nat || (k =? n)%nat then (if (k =? n)%nat then (k - 1)%nat else k)
    else if Z.abs (s - nth (k - 1) dates 0) <? Z.abs (s - nth k dates 0) then (k - 1)%nat else k in
  (* delta_days = |sdate - dates[i]| / 1 day  >  thresh *)
  if tn * 86400000 <? Z.abs (s - nth i dates 0) * td then NoTLEData else Selected i.

(* tle1 = tle_data[2 i], tle2 = tle_data[2 i + 1] *)
Definition tle_line_indices (i : nat) : nat * nat := ((2 * i)%nat, (2 * i + 1)%nat).

(* ---------- correspondence ---------- *)
(* c = (epoch fields as integers, pass start ms, thresh num, thresh den, implementation: None = NoTLEData | Some (index of line 1, index of line 2)) *)
Definition check_tle (c : list Z * Z * Z * Z * option (nat * nat)) : bool :=
  let '(es, s, tn, td, got) := c in
  match select_tle (map tle_epoch_ms es) s tn td, got with
  | NoTLEData, None => true
  | Selected i, Some (a, b) => let '(x, y) := tle_line_indices i in Nat.eqb x a && Nat.eqb y b
  | _, _ => false
  end.

(* decoding alone: implementation's datetime64 of every epoch, to within 1 ms *)
Fixpoint close1 (a b : list Z) : bool :=
  match a, b with [], [] => true | x :: a', y :: b' => (Z.abs (x - y) <=? 1) && close1 a' b' | _, _ => false end.
Definition check_epochs (c : list Z * list Z) : bool := let '(es, got) := c in close1 (map tle_epoch_ms es) got.
