(* C09 -- POD clock-drift correction: the arithmetic of pod_reader.PODReader._adjust_clock_drift.
   Exact rationals; the orbit computation and the great-circle interpolation are section variables (oracles).
   Times are integer milliseconds (recorded scan times) / microseconds (nominal times of recomputed lines). *)
From Coq Require Import ZArith QArith Qround List Bool.
Import ListNotations.
Open Scope Z_scope.

(* ---------- np.interp(x, xp, fp) for an increasing xp: constant beyond the ends, linear in between ---------- *)
Definition lin (x0 : Z) (f0 : Q) (x1 : Z) (f1 : Q) (x : Z) : Q :=
  ((f1 - f0) / inject_Z (x1 - x0)) * inject_Z (x - x0) + f0.

Fixpoint interp_from (x0 : Z) (f0 : Q) (rest : list (Z * Q)) (x : Z) : Q :=
  match rest with
  | [] => f0
  | (x1, f1) :: r => if x <? x1 then lin x0 f0 x1 f1 x else interp_from x1 f1 r x
  end.

Definition interp (tab : list (Z * Q)) (x : Z) : Q :=
  match tab with
  | [] => 0%Q
  | (x0, f0) :: r => if x <=? x0 then f0 else interp_from x0 f0 r x
  end.

Fixpoint sortedb (tab : list (Z * Q)) : bool :=
  match tab with
  | (x0, _) :: r => match r with (x1, _) :: _ => (x0 <=? x1) && sortedb r | [] => true end
  | [] => true
  end.

(* positions i such that entry i+1 is dated before entry i *)
Fixpoint inversions_from (i : nat) (tab : list (Z * Q)) : list nat :=
  match tab with
  | (x0, _) :: r => match r with
                    | (x1, _) :: _ => (if x1 <? x0 then [i] else []) ++ inversions_from (S i) r
                    | [] => []
                    end
  | [] => []
  end.
Definition inversions := inversions_from 0.

(* truncation toward zero: float -> timedelta64 conversion *)
Definition Qtrunc (q : Q) : Z := Z.quot (Qnum q) (Zpos (Qden q)).

Definition lmin (l : list Z) : Z := match l with [] => 0 | a :: r => fold_left Z.min r a end.
Definition lmax (l : list Z) : Z := match l with [] => 0 | a :: r => fold_left Z.max r a end.
Definition zrange (a : Z) (n : nat) : list Z := map (fun k => a + Z.of_nat k) (seq 0 n).
Definition memz (x : Z) (l : list Z) : bool := existsb (Z.eqb x) l.

(* numpy fancy assignment a[idx] = rows: a later write to the same row wins *)
Fixpoint last_index (x : Z) (l : list Z) (k : nat) (acc : option nat) : option nat :=
  match l with
  | [] => acc
  | y :: r => last_index x r (S k) (if y =? x then Some k else acc)
  end.

Inductive src := FileRow (k : nat) | OrbitRow (j : nat).

Section Drift.
  Variable rate_us : Z.         (* line period in microseconds (timedelta(milliseconds=1/scan_freq)) *)
  Variable step_us : Z.         (* the period used for the nominal times of absent lines *)
  Variable plus : Z.            (* max_line = max(max number, max floor + plus) *)
  Variable tab : list (Z * Q).  (* clock-error table: (ms since 1970, seconds) *)

  Definition rate : Q := inject_Z rate_us / 1000000.      (* seconds per line *)
  Definition offset (t : Z) : Q := interp tab t.           (* clock error at a recorded time, seconds *)
  Definition shift_ms (t : Z) : Z := Qtrunc (offset t * 1000).
  Definition new_time (t : Z) : Z := t - shift_ms t.

  (* a line = (scan line number, recorded time in ms) *)
  Definition shifted (l : Z * Z) : Q := inject_Z (fst l) - offset (snd l) / rate.
  Definition fl (l : Z * Z) : Z := Qfloor (shifted l).
  Definition wt (l : Z * Z) : Q := shifted l - inject_Z (fl l).

  Definition nums (ls : list (Z * Z)) : list Z := map fst ls.
  Definition floors (ls : list (Z * Z)) : list Z := map fl ls.
  Definition min_line ls : Z := Z.min (lmin (nums ls)) (lmin (floors ls)).
  Definition max_line ls : Z := Z.max (lmax (nums ls)) (lmax (floors ls) + plus).
  Definition num_lines ls : Z := max_line ls - min_line ls + 1.
  Definition missed ls : list Z :=
    filter (fun m => negb (memz m (nums ls))) (zrange (min_line ls) (Z.to_nat (num_lines ls))).
  Definition first_line (ls : list (Z * Z)) : Z * Z := match ls with [] => (0, 0) | l :: _ => l end.
  Definition missed_time_us ls (m : Z) : Z := snd (first_line ls) * 1000 + (m - fst (first_line ls)) * step_us.

  (* the complete grid: file rows written first, recomputed rows second; None = a row left at NaN *)
  Definition grid_row_with (mn : Z) (ms ns : list Z) (r : Z) : option src :=
    let line := r + mn in
    match last_index line ms 0 None with
    | Some j => Some (OrbitRow j)
    | None => match last_index line ns 0 None with Some k => Some (FileRow k) | None => None end
    end.
  Definition grid_row ls (r : Z) : option src := grid_row_with (min_line ls) (missed ls) (nums ls) r.
  Definition src_line ls (s : src) : Z :=
    match s with FileRow k => nth k (nums ls) 0 | OrbitRow j => nth j (missed ls) 0 end.
  Definition row_lo ls (l : Z * Z) : Z := fl l - min_line ls.
  Definition row_hi ls (l : Z * Z) : Z := fl l - min_line ls + 1.

  Section Positions.
    Variable Pos : Type.
    Variable file_pos : nat -> Pos.          (* tie points of the k-th record of the file *)
    Variable orbit : Z -> Pos.               (* tie points recomputed from the TLE at a nominal time (us) *)
    Variable slerp : Pos -> Pos -> Q -> Pos. (* great-circle interpolation *)
    Variable nan_row : Pos.

    Definition pos_of ls (s : option src) : Pos :=
      match s with
      | Some (FileRow k) => file_pos k
      | Some (OrbitRow j) => orbit (missed_time_us ls (nth j (missed ls) 0))
      | None => nan_row
      end.
    Definition adjusted ls (l : Z * Z) : Pos :=
      slerp (pos_of ls (grid_row ls (row_lo ls l))) (pos_of ls (grid_row ls (row_hi ls l))) (wt l).
    Definition adjust_all ls : list (Z * Pos) := map (fun l => (new_time (snd l), adjusted ls l)) ls.
  End Positions.
End Drift.

(* when the correction applies *)
Record cfg := mkCfg { is_pod : bool; enabled : bool; has_table : bool; tle_usable : bool }.
Definition applies (c : cfg) : bool := is_pod c && enabled c && has_table c && tle_usable c.

(* ---------- correspondence helpers (evaluated by the harness) ---------- *)
Definition Qabs_le (a b tol : Q) : bool := Qle_bool (a - b) tol && Qle_bool (b - a) tol.

(* case: rate_us, step_us, table, lines, implementation's new times (ms), decoded fractional line per line (Q),
   recorded missed lines and their nominal times (us) *)
Definition check_drift (c : Z * Z * list (Z * Q) * list (Z * Z) * list Z * list Q * list Z * list Z) : bool :=
  let '(rate_us, step_us, tab, ls, times', frac, missed', mtimes') := c in
  let m := missed rate_us 1 tab ls in
  (* times within 1 ms (float truncation of offset*1000) *)
  forallb (fun p => Z.abs (fst p - snd p) <=? 1) (combine (map (fun l => new_time tab (snd l)) ls) times') &&
  Nat.eqb (length times') (length ls) &&
  (* the decoded fractional line equals n - err/rate within 1e-4 line *)
  forallb (fun p => Qabs_le (fst p) (snd p) (1 # 10000)) (combine (map (shifted rate_us tab) ls) frac) &&
  Nat.eqb (length frac) (length ls) &&
  (* the absent lines and their nominal times *)
  forallb (fun p => fst p =? snd p) (combine m missed') && Nat.eqb (length m) (length missed') &&
  forallb (fun p => fst p =? snd p) (combine (map (missed_time_us step_us ls) m) mtimes') &&
  Nat.eqb (length mtimes') (length m) &&
  (* every interpolation partner is a filled row *)
  let mn := min_line rate_us tab ls in
  let ns := nums ls in
  forallb (fun l => match grid_row_with mn m ns (fl rate_us tab l - mn), grid_row_with mn m ns (fl rate_us tab l - mn + 1) with
                    | Some _, Some _ => true | _, _ => false end) ls.

Definition check_offsets (c : list (Z * Q) * list (Z * Q)) : bool :=
  let '(tab, samples) := c in forallb (fun p => Qabs_le (interp tab (fst p)) (snd p) (1 # 1000000000)) samples.
