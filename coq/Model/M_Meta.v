(* M_Meta: model of Reader.get_midnight_scanline, Reader.get_miss_lines and the day of year used by
   Reader.get_sun_earth_distance_correction (reader.py).  Executable; no proofs here. *)
From Coq Require Import ZArith List Bool Arith.
From PV Require Import Calendar.
Import ListNotations.
Open Scope Z_scope.

Definition day_of (t : Z) : Z := t / 86400000.          (* astype(datetime64[D]) - 1970-01-01 *)

(* indices i with days[i+1] - days[i] == 1 *)
Fixpoint day_steps (i : nat) (days : list Z) : list nat :=
  match days with
  | a :: ((b :: _) as r) => if b - a =? 1 then i :: day_steps (S i) r else day_steps (S i) r
  | _ => []
  end.

(* None unless the UTC date increases by one exactly once *)
Definition midnight_scanline (times : list Z) : option nat :=
  match day_steps 0 (map day_of times) with
  | [i] => Some i
  | _ => None
  end.

(* sorted(set(range(1, last+1)) - set(nums)) *)
Fixpoint zrange_from (start : Z) (n : nat) : list Z :=
  match n with O => [] | S k => start :: zrange_from (start + 1) k end.
Definition mem (x : Z) (l : list Z) : bool := existsb (Z.eqb x) l.
Definition miss_lines (nums : list Z) : list Z :=
  filter (fun x => negb (mem x nums)) (zrange_from 1 (Z.to_nat (last nums 0))).

(* day of year of an instant: (t - t.astype(datetime64[Y])).astype(timedelta64[D]) + 1 *)
Fixpoint find_year (fuel : nat) (y d : Z) : Z :=
  match fuel with
  | O => y
  | S f => if days_before_year (y + 1) <=? d then find_year f (y + 1) d else y
  end.
Definition year_of_day (d : Z) : Z := find_year 4 (1970 + d / 366) d.
Definition day_of_year (t : Z) : Z := let d := day_of t in d - days_before_year (year_of_day d) + 1.

(* the day of year entering the Earth-Sun distance factor: that of the first returned time *)
Definition distance_jday (times : list Z) : Z := day_of_year (hd 0 times).

(* correspondence: c = (times, nums, implementation: midnight (None/Some), missing lines, jday of the factor) *)
Definition opt_nat_eqb (a b : option nat) : bool :=
  match a, b with None, None => true | Some x, Some y => Nat.eqb x y | _, _ => false end.
Definition check_meta (c : list Z * list Z * option nat * list Z * Z) : bool :=
  let '(times, nums, mid, miss, jday) := c in
  opt_nat_eqb (midnight_scanline times) mid &&
  (if list_eq_dec Z.eq_dec (miss_lines nums) miss then true else false) &&
  (distance_jday times =? jday).
