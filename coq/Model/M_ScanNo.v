(* M_ScanNo: model of Reader.correct_scan_line_numbers (reader.py) and PODReader.correct_scan_line_numbers
   (pod_reader.py) on lists of records (number, payload).  Executable; no proofs here.
   All arithmetic is exact and integral: medians are kept in doubled units (Lib/Median.v). *)
From Coq Require Import ZArith List Bool Arith.
From PV Require Import Median.
Import ListNotations.
Open Scope Z_scope.

Section ScanNo.
Variable A : Type.
Notation rec := (Z * A)%type.

(* within_range = (n < max) & (n >= 0) *)
Definition in_range_b (max : Z) (r : rec) : bool := (fst r <? max) && (0 <=? fst r).

(* n_i - ideal_i with ideal = i0, i0+1, ...   (the code uses ideal = arange(1, len+1)) *)
Fixpoint offsets_from (i : Z) (ns : list Z) : list Z :=
  match ns with [] => [] | n :: r => (n - i) :: offsets_from (i + 1) r end.

(* 2 * |n_i - (ideal_i + med_offset)|, m2 = 2 * med_offset *)
Fixpoint diffs2_from (m2 i : Z) (ns : list Z) : list Z :=
  match ns with [] => [] | n :: r => Z.abs (2 * n - (2 * i + m2)) :: diffs2_from m2 (i + 1) r end.

Definition diffs2 (ns : list Z) : list Z := diffs2_from (median2 (offsets_from 1 ns)) 1 ns.

Definition zsum (l : list Z) : Z := fold_left Z.add l 0.

(* decision "diff <= thresh" for the three branches; d2, nz2 in doubled units *)
Definition keep_decision (nz2 : list Z) : Z -> bool :=
  let k := Z.of_nat (length nz2) in
  if k <? 50 then (fun d2 => d2 <=? 1000)                       (* thresh = 500 *)
  else
    let s1 := zsum nz2 in
    let m4 := median2 nz2 in                                    (* 4 * median(nz) *)
    if 2 * s1 <? 3 * m4 * k then                                (* mean / median < 3 *)
      (* diff <= mean + 3 std  <=>  y <= 0 \/ y^2 <= 9 (k S2 - S1^2),  y = k d2 - S1 *)
      let s2 := zsum (map (fun x => x * x) nz2) in
      let v := 9 * (k * s2 - s1 * s1) in
      (fun d2 => let y := k * d2 - s1 in (y <=? 0) || (y * y <=? v))
    else
      (* thresh = max(500, med + 3 mad); in units of 1/8: 4 d2 <= max(4000, 2 m4 + 3 mad8) *)
      let mad8 := median2 (map (fun x => Z.abs (2 * x - m4)) nz2) in
      let t8 := Z.max 4000 (2 * m4 + 3 * mad8) in
      (fun d2 => 4 * d2 <=? t8).

Fixpoint filter_by {B} (keep : list bool) (l : list B) : list B :=
  match keep, l with
  | k :: ks, x :: xs => if k then x :: filter_by ks xs else filter_by ks xs
  | _, _ => []
  end.

Definition base_sanitize (max : Z) (l : list rec) : list rec :=
  let l1 := filter (in_range_b max) l in
  let ns := map fst l1 in
  let d := diffs2 ns in
  let nz := filter (fun x => 0 <? x) d in
  filter_by (map (keep_decision nz) d) l1.

(* ---------- POD post-processing ---------- *)
Fixpoint index_of (m : Z) (ns : list Z) : nat :=
  match ns with
  | [] => O
  | x :: r => if x =? m then O else S (index_of m r)
  end.

Definition list_min (ns : list Z) : Z := fold_left Z.min ns (hd 0 ns).

(* records numbered 0 are dropped first; None = np.amin of an empty selection raises (no record left) *)
Definition nonzero (r : rec) : bool := negb (fst r =? 0).
Definition pod_sanitize (max : Z) (l : list rec) : option (list rec) :=
  let b := filter nonzero (base_sanitize max l) in
  match b with
  | [] => None
  | first :: _ =>
      let ns := map fst b in
      let mn := list_min (map Z.abs ns) in
      let k := index_of mn ns in
      let lastn := last ns 0 in
      Some (if fst first =? lastn + 1 then skipn k b ++ firstn k b else skipn k b)
  end.

Definition klm_sanitize (max : Z) (l : list rec) : list rec := base_sanitize max l.
End ScanNo.

Arguments base_sanitize {A}.
Arguments pod_sanitize {A}.
Arguments klm_sanitize {A}.
Arguments in_range_b {A}.

(* ---------- correspondence entry points: payload = index of the record in the file ---------- *)
Definition tag (ns : list Z) : list (Z * nat) := combine ns (seq 0 (length ns)).
Definition nat_list_eqb (a b : list nat) : bool := if list_eq_dec Nat.eq_dec a b then true else false.

Definition check_klm_scanno (c : Z * list Z * list nat) : bool :=
  let '(max, ns, got) := c in nat_list_eqb (map snd (klm_sanitize max (tag ns))) got.

(* got = None when the implementation raised ValueError *)
Definition check_pod_scanno (c : Z * list Z * option (list nat)) : bool :=
  let '(max, ns, got) := c in
  match pod_sanitize max (tag ns), got with
  | None, None => true
  | Some l, Some g => nat_list_eqb (map snd l) g
  | _, _ => false
  end.
