(* M_ThermalCheck: correspondence entry point for the thermal model, with the primitive-float instance.
   Used only by the harness-written case files. *)
From Coq Require Import ZArith QArith List Bool PrimFloat.
From PV Require Import NumSig FloatInst Gen_Coeffs M_Thermal.
Import ListNotations.

(* implementation outcome: 0 = IndexError, 1 = ValueError, 2 = counts returned unchanged, 3 = brightness temperatures *)
(* samples: (line index, scene count, implementation value; nan for NaN) *)
Definition check_thermal (c : nat * nat * list Z * list Z * list Z * list Z * Z * list (nat * Z * float)) : bool :=
  let '(sci, chan, lns, prt3, ict10, space10, kind, samples) := c in
  match nth_error all_coeffs sci with
  | None => false
  | Some sc =>
      match nth_error (sc_ir sc) chan with
      | None => false
      | Some row =>
          match telemetry (sc_therm sc) (Nat.eqb chan 0) lns prt3 ict10 space10 with
          | TeleIndexError => (kind =? 0)%Z
          | TeleValueError => (kind =? 1)%Z
          | TeleRawCounts => (kind =? 2)%Z
          | TeleOk tbb ict space =>
              (kind =? 3)%Z &&
              forallb (fun s => let '(i, ce, got) := s in
                         let v := bt FloatSig (Nat.eqb chan 0) row (fofQ (nth i tbb 0%Q)) (fofQ (nth i space 0%Q)) (fofQ (nth i ict 0%Q))
                                     (fofQ (inject_Z ce)) in
                         match v with
                         | None => is_nanf got
                         | Some x => if is_nanf x then is_nanf got else fclose 0x1p-30 x got
                         end) samples
          end
      end
  end.
