(* M_Ch3: model of the channel 3a/3b delivery for KLM (reader.py get_counts routing, calibration.noaa.calibrate,
   klm_reader.py postproc) and of the POD uniform six-channel layout (pod_reader.py).  Executable; no proofs.
   The calibrations themselves are abstract functions (their properties are C04, C05, C13). *)
From Coq Require Import ZArith List Bool.
From PV Require Import Bits M_Counts.
Import ListNotations.
Open Scope Z_scope.

Section Ch3.
  Variable V : Type.                                   (* calibrated value *)
  Variable Tele : Type.                                (* smoothed line telemetry *)
  Variable solar3a : Z -> option V.                    (* None = NaN (negative radiance) *)
  Variable thermal3 : Tele -> Z -> option V.           (* None = NaN (outside 170..350 K) *)

  (* one pixel of one line: (3a value, 3b value) *)
  Definition klm_ch3_pixel (sw : Z) (tele : Tele) (third_sample : Z) : option V * option V :=
    (* get_counts: channels[2][switch == 1] = counts[2]; channels[3][switch == 0] = counts[2]; else 0 *)
    let c3a := if sw =? 1 then third_sample else 0 in
    let c3b := if sw =? 0 then third_sample else 0 in
    (* calibrate: solar on plane 2, thermal on plane 3; postproc: 3a NaN where switch in {0,2}, 3b NaN where switch in {1,2} *)
    ((if (sw =? 0) || (sw =? 2) then None else solar3a c3a),
     (if (sw =? 1) || (sw =? 2) then None else thermal3 tele c3b)).

  Definition klm_ch3_line (sw : Z) (tele : Tele) (thirds : list Z) : list (option V * option V) :=
    map (klm_ch3_pixel sw tele) thirds.

  Definition klm_ch3_pass (lines : list (Z * Tele * list Z)) : list (list (option V * option V)) :=
    map (fun l => let '(sw, tele, thirds) := l in klm_ch3_line sw tele thirds) lines.

  (* POD: five calibrated planes (1, 2, 3, 4, 5) -> uniform six-channel layout (1, 2, NaN, 3, 4, 5) *)
  Definition pod_uniform (px : list (option V)) : list (option V) :=
    match px with
    | [c1; c2; c3; c4; c5] => [c1; c2; None; c3; c4; c5]
    | _ => []
    end.
End Ch3.

(* correspondence: per line (switch, is 3a all-NaN, is 3b all-NaN) against the model's blanking decision *)
Definition blank3a (sw : Z) : bool := (sw =? 0) || (sw =? 2).
Definition blank3b (sw : Z) : bool := (sw =? 1) || (sw =? 2).
Definition check_ch3_flags (c : list (Z * bool * bool)) : bool :=
  forallb (fun q => let '(bf, a, b) := q in
                    let sw := ch3_switch bf in Bool.eqb (blank3a sw) a && Bool.eqb (blank3b sw) b) c.
