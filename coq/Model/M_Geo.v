(* C06 -- geolocation read-out: Reader.get_lonlat as a function of the file's earth-location words.
   Exact rationals; None stands for NaN.  The tie-point interpolator (python-geotiepoints) is an oracle with an
   explicit contract (shape, reproduction of the tie points at their columns). *)
From Coq Require Import ZArith QArith Qabs List Bool.
Import ListNotations.
Open Scope Z_scope.

Record line := mkLine { flagged : bool; lon_w : list Z; lat_w : list Z }.

Section Geo.
  Variable lon_div lat_div : Q.          (* 128 (POD) / 10000 (KLM) *)
  Variable lon_lim lat_lim : Q.          (* 180 / 90 *)
  Variable cols : list Z.                (* tie-point columns of the full-width array *)
  Variable width : Z.
  (* oracle: tie points of all lines -> full-width coordinates of all lines *)
  Variable interp_all : list (list Q * list Q) -> list (list (Q * Q)).

  Definition scale (d : Q) (w : Z) : Q := inject_Z w / d.
  Definition tie_lons (l : line) : list Q := map (scale lon_div) (lon_w l).
  Definition tie_lats (l : line) : list Q := map (scale lat_div) (lat_w l).
  Definition from_file (ls : list line) : list (list Q * list Q) := map (fun l => (tie_lons l, tie_lats l)) ls.

  Definition raw (interpolate : bool) (ls : list line) : list (list (Q * Q)) :=
    if interpolate then interp_all (from_file ls)
    else map (fun p => combine (fst p) (snd p)) (from_file ls).

  Definition keep (lim v : Q) : option Q := if Qle_bool (Qabs v) lim then Some v else None.   (* x[fabs(x) > lim] = nan *)
  Definition mask_px (fl : bool) (p : Q * Q) : option Q * option Q :=
    if fl then (None, None) else (keep lon_lim (fst p), keep lat_lim (snd p)).

  Definition get_lonlat (interpolate : bool) (ls : list line) : list (list (option Q * option Q)) :=
    map (fun lr => map (mask_px (flagged (fst lr))) (snd lr)) (combine ls (raw interpolate ls)).

  (* the interpolator's contract *)
  Definition interp_contract : Prop :=
    forall ties, length (interp_all ties) = length ties /\
      forall i lo la, nth_error ties i = Some (lo, la) ->
        length (nth i (interp_all ties) []) = Z.to_nat width /\
        forall k c, nth_error cols k = Some c -> 0 <= c < width -> (k < length lo)%nat -> (k < length la)%nat ->
          nth (Z.to_nat c) (nth i (interp_all ties) []) (0%Q, 0%Q) = (nth k lo 0%Q, nth k la 0%Q).
End Geo.

(* ---------- correspondence (evaluated by the harness) ---------- *)
Definition Qclose (a b tol : Q) : bool := Qle_bool (a - b) tol && Qle_bool (b - a) tol.

Definition opt_close (m : option Q) (i : option Q) (tol : Q) : bool :=
  match m, i with
  | None, None => true
  | Some a, Some b => Qclose a b tol
  | _, _ => false
  end.

(* case: divisor, lon limit, lat limit, lines, the implementation's tie-column output (lon, lat per line) with None for NaN *)
Definition check_ties (c : Q * Q * Q * list line * list (list (option Q) * list (option Q))) : bool :=
  let '(d, llon, llat, ls, got) := c in
  let m := get_lonlat d d llon llat (fun _ => []) false ls in
  Nat.eqb (length m) (length got) &&
  forallb (fun p => let '(row, (glo, gla)) := p in
                    Nat.eqb (length row) (length glo) && Nat.eqb (length row) (length gla) &&
                    forallb (fun q => opt_close (fst (fst q)) (snd q) (1 # 1000000)) (combine row glo) &&
                    forallb (fun q => opt_close (snd (fst q)) (snd q) (1 # 1000000)) (combine row gla))
          (combine m got).
