(* M_Read: model of the record-level read path: Reader._read_scanlines (reader.py), the data offset
   computation of KLMReader.read / PODReader.read, and KLM archive-header detection.  No proofs here. *)
From Coq Require Import String ZArith List Bool Arith.
From PV Require Import Bytes Layout.
Import ListNotations.
Open Scope nat_scope.

(* fd.seek(self.offset + archive_offset); buffer = fd.read() *)
Definition data_start (offset archive_size : nat) (has_archive : bool) : nat :=
  offset + (if has_archive then archive_size else 0).

(* line_count = len(buffer) // itemsize; warn iff line_count != count; frombuffer(count=line_count) *)
Record scan_read := mkScanRead { sr_n : nat; sr_warn : bool; sr_rec : nat -> list Z }.

Definition read_scanlines (size : nat) (buffer : list Z) (hdr_count : Z) : scan_read :=
  let n := n_records size buffer in
  mkScanRead n (negb (Z.of_nat n =? hdr_count)%Z) (record_at size buffer).

Definition read_file (offset archive_size size : nat) (has_archive : bool) (file : list Z) (hdr_count : Z) : scan_read :=
  read_scanlines size (skipn (data_start offset archive_size has_archive) file) hdr_count.

(* a decoded field value of record i: the cell's bytes interpreted by the cell's type *)
Definition field_value (sr : scan_read) (i : nat) (c : cell) : Z := read_cell (sr_rec sr i) c.

(* KLM: _ars_head["data_format"].startswith(b"NOAA Level 1b") *)
Definition klm_ars_tag : list Z := [78; 79; 65; 65; 32; 76; 101; 118; 101; 108; 32; 49; 98]%Z.
Definition klm_has_archive (data_format_off : nat) (file : list Z) : bool :=
  if list_eq_dec Z.eq_dec (slice data_format_off (length klm_ars_tag) file) klm_ars_tag then true else false.

(* correspondence entry: all cells of all records as decoded by the generated layout *)
Definition decode_all (cells : list cell) (sr : scan_read) : list (list Z) :=
  map (fun i => map (field_value sr i) cells) (seq 0 (sr_n sr)).

Definition zll_eqb (a b : list (list Z)) : bool := if list_eq_dec (list_eq_dec Z.eq_dec) a b then true else false.

Definition check_read (cells : list cell) (offset archive_size size : nat)
  (c : bool * list Z * Z * (nat * bool * list (list Z))) : bool :=
  let '(has_archive, file, hdr_count, (n, warn, vals)) := c in
  let sr := read_file offset archive_size size has_archive file hdr_count in
  Nat.eqb (sr_n sr) n && Bool.eqb (sr_warn sr) warn && zll_eqb (decode_all cells sr) vals.
