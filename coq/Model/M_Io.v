(* M_Io: model of utils.strip_invalid_lat, check_user_scanlines, slice_channel, _slice, _update_scanline,
   _update_missing_scanlines and of the selection / encoding part of gac_io.save_gac.  Executable; no proofs here.
   Products are lists of rows; a row's content is abstract. *)
From Coq Require Import ZArith QArith List Bool Arith.
Import ListNotations.
Open Scope Z_scope.

(* strip_invalid_lat: first and last row with at least one non-NaN latitude; None = ValueError (min of empty) *)
Definition strip_invalid_lat (row_valid : list bool) : option (Z * Z) :=
  let idx := map fst (filter snd (combine (map Z.of_nat (seq 0 (length row_valid))) row_valid)) in
  match idx with [] => None | i :: _ => Some (i, last idx i) end.

Inductive checked := CheckError | Checked (start end_ : Z).

(* check_user_scanlines (with first/last valid latitude given) *)
Definition check_user_scanlines (start end_ first_valid last_valid : Z) : checked :=
  let nv := last_valid - first_valid + 1 in
  let end' := if end_ =? 0 then nv - 1 else if nv <=? end_ then nv - 1 else end_ in
  if nv <=? start then CheckError else Checked start end'.

(* Python slice ch[a:b+1] for 0 <= a: rows a .. b (inclusive), clipped to the array; empty if b < a *)
Definition py_rows {A} (l : list A) (a b : Z) : list A :=
  if (a <? 0) || (b <? a) then [] else firstn (Z.to_nat (b - a + 1)) (skipn (Z.to_nat a) l).

(* _update_scanline *)
Definition update_scanline (line : option Z) (new_start new_end : Z) : option Z :=
  match line with
  | None => None
  | Some s => let s' := s - new_start in if (s' <? 0) || (new_end - new_start + 1 <=? s') then None else Some s'
  end.

(* np.sort(np.unique(a + b + c)) on integer lists *)
Fixpoint insert_uniq (x : Z) (l : list Z) : list Z :=
  match l with
  | [] => [x]
  | y :: r => if x <? y then x :: l else if x =? y then l else y :: insert_uniq x r
  end.
Definition sort_unique (l : list Z) : list Z := fold_right insert_uniq [] l.

Record sliced (A : Type) := mkSliced { sl_rows : list A; sl_miss : option (list Z); sl_midnight : option Z }.
Arguments mkSliced {A}. Arguments sl_rows {A}. Arguments sl_miss {A}. Arguments sl_midnight {A}.

(* slice_channel(ch, start_line, end_line, first_valid_lat, last_valid_lat, midnight_scanline, miss_lines, qual_flags) *)
Definition slice_channel {A} (ch : list A) (start end_ first_valid last_valid : Z) (midnight : option Z)
           (miss : option (list Z)) (qual_numbers : list Z) : sliced A :=
  let ch1 := py_rows ch first_valid last_valid in
  let mid1 := update_scanline midnight first_valid last_valid in
  let n1 := Z.of_nat (length ch1) in
  let end1 := Z.min end_ (n1 - 1) in
  let start1 := Z.min start (n1 - 1) in
  let miss1 := match miss with
               | None => None
               | Some m => Some (sort_unique (firstn (Z.to_nat first_valid) qual_numbers ++ m ++ skipn (Z.to_nat (last_valid + 1)) qual_numbers))
               end in
  mkSliced (py_rows ch1 start1 end1) miss1 (update_scanline mid1 start1 end1).

(* the selection of save_gac for one product *)
Inductive save_result (A : Type) := SaveValueError | SaveIndexError | Saved (s : sliced A) (start end_ : Z).
Arguments SaveValueError {A}. Arguments SaveIndexError {A}. Arguments Saved {A}.

Definition save_select {A} (product : list A) (row_valid : list bool) (start end_ : Z) (midnight : option Z)
           (miss : list Z) (qual_numbers : list Z) : save_result A :=
  match strip_invalid_lat row_valid with
  | None => SaveValueError
  | Some (fv, lv) =>
      match check_user_scanlines start end_ fv lv with
      | CheckError => SaveValueError
      | Checked s e =>
          let r := slice_channel product s e fv lv midnight (Some miss) qual_numbers in
          match sl_rows r with [] => SaveIndexError | _ => Saved r s e end     (* xutcs[0] of an empty cut *)
      end
  end.

(* ---------- encoding ---------- *)
(* value * scale truncated toward zero (h5py float -> integer conversion); NaN -> fill *)
Definition encode (scale : Z) (offset : Q) (fill : Z) (v : option Q) : Z :=
  match v with
  | None => fill
  | Some x => let y := ((x - offset) * inject_Z scale)%Q in Z.quot (Qnum y) (Zpos (Qden y))
  end.
Definition encode_refl := encode 100 0%Q.
Definition encode_bt := encode 100 (27315 # 100)%Q.
Definition encode_angle := encode 100 0%Q.
Definition encode_latlon := encode 1000 0%Q.

(* ---------- correspondence ---------- *)
(* rows are identified by their index in the unsliced product *)
Definition check_save (c : list bool * Z * Z * option Z * list Z * list Z * (Z * list Z * option (list Z) * option Z * Z * Z)) : bool :=
  let '(row_valid, start, end_, midnight, miss, qual_numbers, (kind, rows, gmiss, gmid, gstart, gend)) := c in
  let product := map Z.of_nat (seq 0 (length row_valid)) in
  match save_select product row_valid start end_ midnight miss qual_numbers with
  | SaveValueError => kind =? 1
  | SaveIndexError => kind =? 2
  | Saved r s e =>
      (kind =? 0) && (if list_eq_dec Z.eq_dec (sl_rows r) rows then true else false) &&
      (match sl_miss r, gmiss with Some a, Some b => if list_eq_dec Z.eq_dec a b then true else false | None, None => true | _, _ => false end) &&
      (match sl_midnight r, gmid with Some a, Some b => a =? b | None, None => true | _, _ => false end) &&
      (s =? gstart) && (e =? gend)
  end.

Definition check_encode (c : Z * Q * Z * list (option Q * Z)) : bool :=
  let '(scale, offset, fill, pts) := c in forallb (fun p => encode scale offset fill (fst p) =? snd p) pts.
