(* M_Coeffs: model of calibration.noaa.Calibrator.__new__ / read_coeffs / _get_coeffs_version: the class-level
   default cache keyed by the file argument, the copy-then-update merge of custom coefficients, the version.
   Executable; no proofs here.  Values of coefficient entries are abstract. *)
From Coq Require Import String List Bool.
Import ListNotations.
Open Scope string_scope.

Section Coeffs.
  Variable V : Type.                               (* value of a top-level entry (a channel / thermometer dict, a date) *)
  Variable Arr : Type.                             (* the namedtuple of arrays built from the merged entries *)
  Variable build : string -> list (string * V) -> Arr.      (* spacecraft, merged top-level entries -> namedtuple *)

  Definition entries := list (string * V).
  Definition table := list (string * entries).     (* spacecraft -> top-level entries *)

  Fixpoint lookup {A} (k : string) (d : list (string * A)) : option A :=
    match d with [] => None | (k', v) :: r => if String.eqb k k' then Some v else lookup k r end.

  (* dict.update: existing keys are replaced in place, new keys appended *)
  Fixpoint set_key (k : string) (v : V) (d : entries) : entries :=
    match d with
    | [] => [(k, v)]
    | (k', v') :: r => if String.eqb k k' then (k', v) :: r else (k', v') :: set_key k v r
    end.
  Definition update (d c : entries) : entries := fold_left (fun acc kv => set_key (fst kv) (snd kv) acc) c d.

  (* a coefficient file: parsed table and the version name its md5 is registered under (None = unrecognised) *)
  Record content := mkContent { c_table : table; c_version : option string }.
  (* the file system: file argument (None = shipped default) -> content, or None when it cannot be read *)
  Definition fs := option string -> option content.

  Record cstate := mkC { cs_file : option string; cs_loaded : option content }.
  Definition c_init : cstate := mkC None None.

  Inductive outcome :=
  | ReadError                                   (* FileNotFoundError / JSONDecodeError *)
  | UnknownSpacecraft                           (* KeyError *)
  | Result (arr : Arr) (version : option string).

  (* Calibrator(spacecraft, custom_coeffs, coeffs_file) *)
  Definition request (F : fs) (s : cstate) (sc : string) (custom : entries) (file : option string) : cstate * outcome :=
    let need_load := match cs_loaded s with
                     | None => true
                     | Some _ => negb (match cs_file s, file with
                                       | None, None => true | Some a, Some b => String.eqb a b | _, _ => false end)
                     end in
    let r := if need_load then match F file with
                               | None => None
                               | Some c => Some (mkC file (Some c), c)
                               end
             else match cs_loaded s with Some c => Some (s, c) | None => None end in
    match r with
    | None => (s, ReadError)
    | Some (s', c) =>
        match lookup sc (c_table c) with
        | None => (s', UnknownSpacecraft)
        | Some defaults =>
            let coeffs := update defaults custom in                       (* defaults.copy(); coeffs.update(customs) *)
            (s', Result (build sc coeffs)
                        (match custom with [] => c_version c | _ => None end))
        end
    end.

  Fixpoint run_requests (F : fs) (s : cstate) (reqs : list (string * entries * option string)) : cstate * list outcome :=
    match reqs with
    | [] => (s, [])
    | (sc, cu, f) :: r => let (s', o) := request F s sc cu f in let (s'', os) := run_requests F s' r in (s'', o :: os)
    end.

  (* the specification: a pure function of (spacecraft, custom coefficients, file content) *)
  Definition spec (F : fs) (sc : string) (custom : entries) (file : option string) : outcome :=
    match F file with
    | None => ReadError
    | Some c => match lookup sc (c_table c) with
                | None => UnknownSpacecraft
                | Some defaults => Result (build sc (update defaults custom)) (match custom with [] => c_version c | _ => None end)
                end
    end.
End Coeffs.
