(* M_Times: model of PODReader.decode_timestamps, KLMReader._get_times_from_file, Reader.to_datetime64,
   Reader.lineno2msec, Reader.correct_times_median (stage 1), Reader.correct_times_thresh (stage 2) and
   Reader.get_times.  Executable, statement by statement; no proofs here.

   Units.  Times of day are kept in units u = 1/24 ms so that both line periods (GAC 500 ms, LAC 1000/6 ms)
   and all medians are integral.  Truncation to whole milliseconds (astype timedelta64[ms] /
   datetime64[ms]) is Z.quot.  The float64 rounding of (n-1)/scan_freq is NOT modelled:
   results are compared with the implementation to within 1 ms. *)
From Coq Require Import ZArith List Bool Arith.
From PV Require Import Median Calendar.
Import ListNotations.
Open Scope Z_scope.

(* ---------- decoding ---------- *)
(* POD: year = enc0 >> 9 (pivot 75), jday = enc0 & 0x1FF, msec = ((enc1 & 2047) << 16) | enc2 *)
Definition pod_decode (w0 w1 w2 : Z) : Z * Z * Z :=
  let y := Z.shiftr w0 9 in
  ((if 75 <? y then y + 1900 else y + 2000), Z.land w0 511, Z.lor (Z.shiftl (Z.land w1 2047) 16) w2).

(* ---------- small numpy helpers ---------- *)
Definition ediff (l : list Z) : list Z :=   (* np.ediff1d(l, to_begin=0) *)
  match l with [] => [] | x :: r => 0 :: map (fun p => snd p - fst p) (combine l r) end.

Definition list_max (l : list Z) : Z := fold_left Z.max l (hd 0 l).
Definition first_index (f : Z -> bool) (l : list Z) : option nat :=
  (fix go (i : nat) (l : list Z) := match l with [] => None | x :: r => if f x then Some i else go (S i) r end) O l.

Definition map2 {A B C} (f : A -> B -> C) (a : list A) (b : list B) : list C := map (fun p => f (fst p) (snd p)) (combine a b).

(* ---------- stage 1: correct_times_median ---------- *)
(* All times of day below are in units u = 1/24 ms: one ms = 24 u, GAC line = 12000 u, LAC line = 4000 u.
   Every value that enters a median is an even multiple of u, so numpy's average of the two middle values
   is again a whole number of u (medianU is exact). *)
Definition U : Z := 24.
Definition medianU (l : list Z) : Z := Z.div (median2 l) 2.

Record tparams := mkTP { period_u : Z;      (* u per scan line = 4 * Gen_Consts.*_period_ticks *)
                         now_year : Z }.     (* datetime.datetime.now().year *)

(* lineno2msec relative to the first line *)
Definition lineno_u (tp : tparams) (nums : list Z) : list Z :=
  let n0 := hd 0 nums in map (fun n => (n - n0) * period_u tp) nums.

(* np.ediff1d of the msec array: while it is still the uint32 array, differences wrap modulo 2^32 ms *)
Definition msec_diffs (is_uint : bool) (m : list Z) : list Z :=
  if is_uint then map (fun d => ((d / U) mod 4294967296) * U) (ediff m) else ediff m.

(* result: year (int), jday (int), msec (u) per line *)
Definition stage1 (tp : tparams) (nums years jdays msecs : list Z) : list Z * list Z * list Z :=
  let lt := lineno_u tp nums in
  let n := length nums in
  (* jday = where(jday < 1 | jday > 366, median(jday), jday): kept doubled *)
  let jmed2 := median2 jdays in
  let j2 := map (fun j => if (j <? 1) || (366 <? j) then jmed2 else 2 * j) jdays in
  let wrong_jday := ediff j2 in
  let jmax := list_max j2 in
  let j2 := map2 (fun d j => if d <? 0 then jmax else j) wrong_jday j2 in
  (* if_wrong_msec = where(msec < 1) *)
  let m := map (fun x => U * x) msecs in
  let '(m, is_uint) :=
    match first_index (fun x => x <? 1) msecs with
    | None => (m, true)
    | Some O => let msec0 := medianU (map2 Z.sub m lt) in (map (fun l => msec0 + l) lt, false)
    | Some (S _) => let m0 := hd 0 m in (map (fun l => m0 + l) lt, false)
    end in
  let dm := msec_diffs is_uint m in
  let m0 := hd 0 m in
  let m := map (fun q => let '(d, dj, l, x) := q in
                         if ((d <? -1000 * U) || (1000 * U <? d)) && negb (dj =? 2) then m0 + l else x)
               (combine (combine (combine dm wrong_jday) lt) m) in
  (* years outside [1978, now] *)
  match first_index (fun y => (y <? 1978) || (now_year tp <? y)) years with
  | None => (years, map (fun j => Z.quot j 2) j2, m)
  | Some (S _) =>
      let m0 := hd 0 m in
      (repeat (hd 0 years) n, repeat (Z.quot (hd 0 j2) 2) n, map (fun l => m0 + l) lt)
  | Some O =>
      let msec0 := medianU (map2 Z.sub m lt) in
      (repeat (Z.quot (median2 years) 2) n, repeat (Z.quot (median2 j2) 4) n, map (fun l => msec0 + l) lt)
  end.

(* to_datetime64: ms since 1970; msec truncated toward zero to whole ms *)
Definition to_ms (y j m : Z) : Z := instant_ms y j 0 + Z.quot m U.

Definition stage1_times (tp : tparams) (nums years jdays msecs : list Z) : list Z :=
  let '(ys, js, ms) := stage1 tp nums years jdays msecs in
  map (fun q => let '(y, j, m) := q in to_ms y j m) (combine (combine ys js) ms).

(* ---------- stage 2: correct_times_thresh ---------- *)
Record thresh := mkTh { max_diff_t0 : Z;      (* ms *)
                        min_frac_num : Z; min_frac_den : Z;
                        max_diff_ideal : Z }.   (* ms *)

Inductive stage2_result := S2_backwards | S2_bad_header | S2_mismatch | S2_ok (times : list Z).

Definition monotone (nums : list Z) : bool := forallb (fun d => 0 <=? d) (ediff nums).

Definition stage2 (tp : tparams) (th : thresh) (nums times : list Z) (t0_head : option Z) : stage2_result :=
  if negb (monotone nums) then S2_backwards else
  match t0_head with
  | None => S2_bad_header
  | Some h =>
      let tn := map (fun n => (n - 1) * period_u tp) nums in
      let offs := map2 (fun t x => U * t - x) times tn in
      let near := filter (fun o => Z.abs (o - U * h) <=? U * max_diff_t0 th) offs in
      if Z.of_nat (length near) * min_frac_den th <? min_frac_num th * Z.of_nat (length nums) then S2_mismatch
      else
        let t0 := medianU near in
        S2_ok (map2 (fun t x => let ideal := x + t0 in
                                if U * max_diff_ideal th <? Z.abs (U * t - ideal) then Z.quot ideal U else t)
                    times tn)
  end.

(* ---------- get_times ---------- *)
Definition get_times (tp : tparams) (th : thresh) (nums years jdays msecs : list Z) (t0_head : option Z) : list Z :=
  let t1 := stage1_times tp nums years jdays msecs in
  match stage2 tp th nums t1 t0_head with
  | S2_ok t => t
  | _ => t1
  end.

(* ---------- correspondence ---------- *)
Fixpoint close_lists (tol : Z) (a b : list Z) : bool :=
  match a, b with
  | [], [] => true
  | x :: a', y :: b' => (Z.abs (x - y) <=? tol) && close_lists tol a' b'
  | _, _ => false
  end.

(* c = (period, now_year, nums, years, jdays, msecs, header ms option, implementation's times in ms) *)
Definition check_times (th : thresh) (c : Z * Z * list Z * list Z * list Z * list Z * option Z * list Z) : bool :=
  let '(per, now, nums, ys, js, ms, h, got) := c in
  close_lists 1 (get_times (mkTP per now) th nums ys js ms h) got.

Definition check_pod_decode (c : Z * Z * Z * (Z * Z * Z)) : bool :=
  let '(w0, w1, w2, (y, j, m)) := c in
  let '(y', j', m') := pod_decode w0 w1 w2 in (y =? y') && (j =? j') && (m =? m').
