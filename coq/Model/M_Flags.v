(* M_Flags: model of Reader._get_corrupt_mask, Reader.mask, Reader.get_qual_flags and of the blanking
   of products by the corrupt-line mask (reader.py: get_calibrated_dataset .where(mask), get_lonlat,
   get_angles).  Executable; no proofs here. *)
From Coq Require Import String ZArith List Bool.
From PV Require Import Bits.
Import ListNotations.
Open Scope Z_scope.

Fixpoint flag (tbl : list (string * Z)) (nm : string) : Z :=
  match tbl with
  | [] => 0
  | (k, v) :: r => if String.eqb k nm then v else flag r nm
  end.

(* (scans[quality key] & int(flags)).astype(bool) *)
Definition corrupt_mask (flags q : Z) : bool := anybit flags q.

(* flags=None: QFlag.FATAL_FLAG | QFlag.CALIBRATION | QFlag.NO_EARTH_LOCATION *)
Definition default_flags (tbl : list (string * Z)) : Z :=
  Z.lor (Z.lor (flag tbl "FATAL_FLAG") (flag tbl "CALIBRATION")) (flag tbl "NO_EARTH_LOCATION").

Definition line_mask (tbl : list (string * Z)) (q : Z) : bool := corrupt_mask (default_flags tbl) q.

Definition b2z (b : bool) : Z := if b then 1 else 0.

(* one row of get_qual_flags *)
Definition qual_row (tbl : list (string * Z)) (n q : Z) : list Z :=
  [ n;
    b2z (corrupt_mask (flag tbl "FATAL_FLAG") q);
    b2z (corrupt_mask (flag tbl "CALIBRATION") q);
    b2z (corrupt_mask (flag tbl "NO_EARTH_LOCATION") q);
    b2z (corrupt_mask (flag tbl "CH_3_CONTAMINATION") q);
    b2z (corrupt_mask (flag tbl "CH_4_CONTAMINATION") q);
    b2z (corrupt_mask (flag tbl "CH_5_CONTAMINATION") q) ].

(* Blanking of one product row: masked rows are all-NaN (None), others untouched. *)
Definition blank_row {A} (m : bool) (row : list (option A)) : list (option A) :=
  if m then map (fun _ => None) row else row.

(* The products of a line: channels, lon, lat and the five angles are computed from everything in the
   line *except* its quality word (abstract function F), then blanked by the mask of the quality word. *)
Section Products.
  Variable A Other : Type.
  Variable F : Other -> list (list (option A)).   (* one row per product *)
  Definition line_products (tbl : list (string * Z)) (q : Z) (o : Other) : list (list (option A)) :=
    map (blank_row (line_mask tbl q)) (F o).
End Products.

(* ---- correspondence entry point: the implementation's mask bit and quality row for (n, q) ---- *)
Definition check_flags (tbl : list (string * Z)) (c : Z * Z * bool * list Z) : bool :=
  let '(n, q, m, row) := c in
  Bool.eqb (line_mask tbl q) m && (if list_eq_dec Z.eq_dec (qual_row tbl n q) row then true else false).
