(* M_Solar: model of calibration.noaa.calibrate_solar, Calibrator.date2float and the glue in
   calibration.noaa.calibrate (year / day of the FIRST line, distance factor from the meta data).
   Exact rational arithmetic (Q); the Earth-Sun factor enters as a number.  Executable; no proofs here. *)
From Coq Require Import ZArith QArith Qround Qabs List Bool.
From PV Require Import Gen_Coeffs.
Import ListNotations.
Open Scope Q_scope.

(* round half to even of a rational to an integer (np.round / Python round on exact values) *)
Definition rint_q (x : Q) : Z :=
  let f := Qfloor x in
  let r := x - inject_Z f in
  if Qlt_le_dec r (1 # 2) then f
  else if Qlt_le_dec (1 # 2) r then (f + 1)%Z
  else if Z.even f then f else (f + 1)%Z.

Definition round_dec (digits : Z) (x : Q) : Q :=
  let p := inject_Z (10 ^ digits) in inject_Z (rint_q (x * p)) / p.

(* gain factors: single-gain instruments (all gain switches NaN) use 1 *)
Definition single_gain (rows : list vis_row) : bool := forallb (fun r => match v_switch r with None => true | Some _ => false end) rows.
Definition glow (ch : nat) : Q := match ch with 2%nat => 1 # 4 | _ => 1 # 2 end.
Definition ghigh (ch : nat) : Q := match ch with 2%nat => 7 # 4 | _ => 3 # 2 end.

(* t = (year + jday / 365.0) - date2float(launch) *)
Definition years_since_launch (launch : Q) (year jday : Z) : Q := inject_Z year + inject_Z jday / 365 - launch.

(* slope S(t) = a * (100 + s1 t + s2 t^2) / 100 *)
Definition slope (a s1 s2 t : Q) : Q := a * (100 + s1 * t + s2 * t * t) / 100.

(* scaled radiance of one count; None = NaN *)
Definition solar (rows : list vis_row) (ch : nat) (t corr : Q) (c : Q) : option Q :=
  match nth_error rows ch with
  | None => None
  | Some row =>
      let single := single_gain rows in
      let gl := if single then 1 else glow ch in
      let gh := if single then 1 else ghigh ch in
      let al := round_dec 3 (gl * v_s0 row) in
      let ah := round_dec 3 (gh * v_s0 row) in
      let stl := slope al (v_s1 row) (v_s2 row) t in
      let sth := slope ah (v_s1 row) (v_s2 row) t in
      let d := v_dark row in
      let r :=
        if single then Some (stl * (c - d))
        else match v_switch row with
             | None => None                                  (* counts <= NaN is False and NaN propagates: NaN *)
             | Some b => Some (if Qle_bool c b then (c - d) * stl else (b - d) * stl + (c - b) * sth)
             end in
      match r with
      | None => None
      | Some x => let x' := if Qeq_bool corr 1 then x else x * corr in
                  if Qlt_le_dec x' 0 then None else Some x'
      end
  end.

(* date2float: year + seconds / (days_in_year * 86400), rounded to 5 decimals *)
Definition date2float (exact : Q) : Q := round_dec 5 exact.

(* ---------- correspondence ---------- *)
Definition qclose_rel (tol a b : Q) : bool := Qle_bool (Qabs (a - b)) (tol * (1 + Qabs b)).
Definition opt_close (a b : option Q) : bool :=
  match a, b with None, None => true | Some x, Some y => qclose_rel (1 # 1000000000) x y | _, _ => false end.

(* c = (spacecraft index in all_coeffs, channel, year, jday, corr, [(count, implementation value)]) *)
Definition check_solar (c : nat * nat * Z * Z * Q * list (Q * option Q)) : bool :=
  let '(sci, ch, year, jday, corr, pts) := c in
  match nth_error all_coeffs sci with
  | None => false
  | Some sc => let t := years_since_launch (sc_launch sc) year jday in
               forallb (fun p => opt_close (solar (sc_vis sc) ch t corr (fst p)) (snd p)) pts
  end.
