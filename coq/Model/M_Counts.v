(* M_Counts: model of Reader.get_counts (reader.py), PODReader.get_telemetry (pod_reader.py) and
   KLMReader.get_telemetry / get_ch3_switch (klm_reader.py).  Executable; no proofs here. *)
From Coq Require Import ZArith QArith Qabs List Bool Arith.
From PV Require Import Bits ListSlice.
Import ListNotations.
Open Scope nat_scope.

(* counts = zeros(N); counts[0::3] = ((w >> 20) & 1023)[:nb1]; counts[1::3] = ((w >> 10) & 1023)[:nb2];
   counts[2::3] = (w & 1023)[:nb3]      with nb1/nb2/nb3 chosen from N mod 3 as in the code *)
Definition unpack_n (N : nat) (words : list Z) : list Z :=
  let nb := N / 3 in
  let r := N mod 3 in
  let nb1 := if r =? 0 then nb else nb + 1 in
  let nb2 := if r =? 2 then nb + 1 else nb in
  let nb3 := nb in
  let s (j : Z) := map (fun w => sample_of_word w j) words in
  let c0 := repeat 0%Z N in
  let c1 := assign_strided 0 3 (firstn nb1 (s 0%Z)) c0 0%Z in
  let c2 := assign_strided 1 3 (firstn nb2 (s 1%Z)) c1 0%Z in
  assign_strided 2 3 (firstn nb3 (s 2%Z)) c2 0%Z.

Definition unpack_line (W : nat) (words : list Z) : list Z := unpack_n (5 * W) words.

(* counts.reshape((-1, W, 5)): count of pixel p, channel c *)
Definition count_at (W : nat) (words : list Z) (p c : nat) : Z := nth (5 * p + c) (unpack_line W words) 0%Z.

(* the format's statement: 10-bit sample number k of the packed stream *)
Definition stream_sample (words : list Z) (k : nat) : Z :=
  sample_of_word (nth (k / 3) words 0%Z) (Z.of_nat (k mod 3)).

(* KLM: scan_line_bit_field & 3 *)
Definition ch3_switch (bitfield : Z) : Z := Z.land bitfield 3.

(* channels[:, :, 2][switch == 1] = counts[:, :, 2][switch == 1]; channels[:, :, 3][switch == 0] = ... *)
Definition route (sw : Z) (px : list Z) : list Z :=
  match px with
  | [a; b; c; d; e] => [a; b; (if (sw =? 1)%Z then c else 0%Z); (if (sw =? 0)%Z then c else 0%Z); d; e]
  | _ => []
  end.

Fixpoint chunk5 (l : list Z) : list (list Z) :=
  match l with
  | a :: b :: c :: d :: e :: r => [a; b; c; d; e] :: chunk5 r
  | _ => []
  end.

Definition klm_line_counts (W : nat) (bitfield : Z) (words : list Z) : list (list Z) :=
  map (route (ch3_switch bitfield)) (chunk5 (unpack_line W words)).
Definition pod_line_counts (W : nat) (words : list Z) : list (list Z) := chunk5 (unpack_line W words).

(* ---------- telemetry ---------- *)
Definition zsum (l : list Z) : Z := fold_left Z.add l 0%Z.
Definition mean (l : list Z) : Q := Qmake (zsum l) (Pos.of_nat (length l)).

(* POD: 35 telemetry words -> 105 samples; the literal slices of the code *)
Definition pod_decode_tele (words : list Z) : list Z := unpack_n 105 words.
Definition pod_prt_idx : list nat := slice_indices 17 20 1.
Definition pod_ict_idx (j : nat) : list nat := slice_indices (22 + j) (50 + j) 3.
Definition pod_space_idx (j : nat) : list nat := slice_indices (54 + j) (100 + j) 5.
Definition pick (s : list Z) (idx : list nat) : list Z := map (fun i => nth i s 0%Z) idx.

Definition pod_telemetry (words : list Z) : Q * list Q * list Q :=
  let s := pod_decode_tele words in
  (mean (pick s pod_prt_idx),
   map (fun j => mean (pick s (pod_ict_idx j))) [0; 1; 2],
   map (fun j => mean (pick s (pod_space_idx j))) [0; 1; 2]).

(* KLM: PRT[3], back_scan[30][j::3], space_data[50][2+j::5] *)
Definition klm_ict_idx (j : nat) : list nat := slice_indices j 30 3.
Definition klm_space_idx (j : nat) : list nat := slice_indices (2 + j) 50 5.
Definition klm_telemetry (prt back space : list Z) : Q * list Q * list Q :=
  (mean prt,
   map (fun j => mean (pick back (klm_ict_idx j))) [0; 1; 2],
   map (fun j => mean (pick space (klm_space_idx j))) [0; 1; 2]).

(* ---------- correspondence entry points ---------- *)
Definition zlist_eqb (a b : list Z) : bool := if list_eq_dec Z.eq_dec a b then true else false.
Definition zlistlist_eqb (a b : list (list Z)) : bool := if list_eq_dec (list_eq_dec Z.eq_dec) a b then true else false.

(* got = the implementation's counts of the line, flattened (pixel-major) *)
Definition check_klm_counts (c : nat * Z * list Z * list Z) : bool :=
  let '(W, bitfield, words, got) := c in zlist_eqb (concat (klm_line_counts W bitfield words)) got.
Definition check_pod_counts (c : nat * list Z * list Z) : bool :=
  let '(W, words, got) := c in zlist_eqb (concat (pod_line_counts W words)) got.

Definition qclose (tol a b : Q) : bool := Qle_bool (Qabs (a - b)) tol.
Fixpoint qlist_close (tol : Q) (a b : list Q) : bool :=
  match a, b with
  | [], [] => true
  | x :: a', y :: b' => qclose tol x y && qlist_close tol a' b'
  | _, _ => false
  end.
Definition tele_close (m g : Q * list Q * list Q) : bool :=
  let '(p, i, s) := m in let '(p', i', s') := g in
  qclose (1 # 1000000000) p p' && qlist_close (1 # 1000000000) i i' && qlist_close (1 # 1000000000) s s'.
Definition check_pod_tele (c : list Z * (Q * list Q * list Q)) : bool :=
  let '(words, got) := c in tele_close (pod_telemetry words) got.
Definition check_klm_tele (c : list Z * list Z * list Z * (Q * list Q * list Q)) : bool :=
  let '(prt, back, space, got) := c in tele_close (klm_telemetry prt back space) got.
