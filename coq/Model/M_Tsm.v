(* M_Tsm: model of Reader.is_tsm_affected (reader.py), correct_tsm_issue.get_tsm_idx / std_filter and
   Reader.mask_tsm_pixels with the family-specific channel choice.  Executable; no proofs here.
   Images are lists of rows of option Q (None = NaN). *)
From Coq Require Import ZArith QArith Qabs List Bool Arith.
Import ListNotations.
Open Scope Q_scope.

(* ---------- the platform / interval gate ---------- *)
Fixpoint assoc (k : Z) (t : list (Z * list (Z * Z))) : option (list (Z * Z)) :=
  match t with [] => None | (k', v) :: r => if (k =? k')%Z then Some v else assoc k r end.

(* ts >= interval[0] and te <= interval[1] for some interval of the spacecraft id; KeyError -> False *)
Definition is_tsm_affected (table : list (Z * list (Z * Z))) (sc_id first last : Z) : bool :=
  match assoc sc_id table with
  | None => false
  | Some ivs => existsb (fun iv => (fst iv <=? first)%Z && (last <=? snd iv)%Z) ivs
  end.

(* ---------- the pixel criterion ---------- *)
Definition img := list (list (option Q)).
Definition px (im : img) (i j : Z) : option Q :=
  if (i <? 0)%Z || (j <? 0)%Z then None else nth (Z.to_nat j) (nth (Z.to_nat i) im []) None.

Definition omap2 (f : Q -> Q -> Q) (a b : option Q) : option Q :=
  match a, b with Some x, Some y => Some (f x y) | _, _ => None end.

(* abs(ch1 - ch2) and 100 * (ch4 - ch5) / ch5 *)
Definition abs_d12 (c1 c2 : img) : img := map (fun p => map (fun q => omap2 (fun x y => Qabs.Qabs (x - y)) (fst q) (snd q)) (combine (fst p) (snd p))) (combine c1 c2).
Definition rel_d45 (c4 c5 : img) : img := map (fun p => map (fun q => omap2 (fun x y => 100 * (x - y) / y) (fst q) (snd q)) (combine (fst p) (snd p))) (combine c4 c5).

(* the 3x3 window around (i, j), clipped at the image border (NaN padding), NaNs dropped *)
Definition window (im : img) (i j : Z) : list Q :=
  flat_map (fun di => flat_map (fun dj => match px im (i + di) (j + dj) with Some v => [v] | None => [] end) [-1; 0; 1]%Z) [-1; 0; 1]%Z.

Definition qsum (l : list Q) : Q := Qred (fold_left Qplus l 0).
(* population variance > 4 (std > 2), decided exactly: k * sum(x^2) - (sum x)^2 > 4 k^2; an empty window is not flagged *)
Definition var_excess (l : list Q) : Q :=
  let k := inject_Z (Z.of_nat (length l)) in
  Qred (k * qsum (map (fun x => x * x) l) - qsum l * qsum l - 4 * k * k).
Definition std_gt2 (l : list Q) : bool := match l with [] => false | _ => if Qlt_le_dec 0 (var_excess l) then true else false end.

Definition flagged (c1 c2 c4 c5 : img) (i j : Z) : bool :=
  std_gt2 (window (abs_d12 c1 c2) i j) && std_gt2 (window (rel_d45 c4 c5) i j).

(* ---------- application: flagged pixels are blanked in every plane, nothing else changes ---------- *)
Fixpoint zidx (n : nat) (start : Z) : list Z := match n with O => [] | S k => start :: zidx k (start + 1) end.
Definition blank_plane (flag : Z -> Z -> bool) (p : img) : img :=
  map (fun ir => map (fun jv => if flag (fst ir) (fst jv) then None else snd jv) (combine (zidx (length (snd ir)) 0) (snd ir)))
      (combine (zidx (length p) 0) p).

Inductive family := FPOD | FKLM.
(* channels 1, 2, 4, 5: planes (0,1,4,5) for KLM (six planes), (0,1,3,4) for POD (five planes) *)
Definition tsm_planes (f : family) : nat * nat * nat * nat := match f with FKLM => (0, 1, 4, 5)%nat | FPOD => (0, 1, 3, 4)%nat end.

Definition mask_tsm (f : family) (table : list (Z * list (Z * Z))) (sc_id first last : Z) (planes : list img) : list img :=
  if is_tsm_affected table sc_id first last then
    let '(a, b, c, d) := tsm_planes f in
    let fl := flagged (nth a planes []) (nth b planes []) (nth c planes []) (nth d planes []) in
    map (blank_plane fl) planes
  else planes.

(* ---------- correspondence ---------- *)
(* decisive pixels only: both variance excesses at least 1e-6 away from the threshold *)
Definition decisive (c1 c2 c4 c5 : img) (i j : Z) : bool :=
  let far (l : list Q) := match l with [] => true | _ => Qle_bool (1 # 1000000) (Qabs.Qabs (var_excess l)) end in
  far (window (abs_d12 c1 c2) i j) && far (window (rel_d45 c4 c5) i j).

(* c = (ch1, ch2, ch4, ch5, implementation's flag image) *)
Definition check_tsm_idx (c : img * img * img * img * list (list bool)) : bool :=
  let '(c1, c2, c4, c5, got) := c in
  forallb (fun ir => forallb (fun jb => let i := fst ir in let j := fst jb in
                                       negb (decisive c1 c2 c4 c5 i j) || Bool.eqb (flagged c1 c2 c4 c5 i j) (snd jb))
                             (combine (zidx (length (snd ir)) 0) (snd ir)))
          (combine (zidx (length got) 0) got).

Definition check_gate (table : list (Z * list (Z * Z))) (c : Z * Z * Z * bool) : bool :=
  let '(sc, first, last, got) := c in Bool.eqb (is_tsm_affected table sc first last) got.
