(* M_Thermal: model of calibration.noaa.calibrate_thermal.  Executable; no proofs here.
   Part 1 (exact, Q): PRT cycle location from the scan line numbers, repair of invalid PRT / ICT / space readings
   by np.interp over the line index, PRT polynomial, reset-line fill, boxcar smoothing with edge replication.
   Part 2 (over a numeric signature): Planck radiance at the effective blackbody temperature, linear radiance
   estimate, non-linearity correction, inverse Planck, range mask.
   PRT counts enter as sums of the three readings (3 x the mean), ICT / space counts as sums of ten (10 x mean). *)
From Coq Require Import ZArith QArith Qabs List Bool Arith.
From PV Require Import Median NumSig Gen_Coeffs.
Import ListNotations.
Open Scope Q_scope.

(* ---------- numpy helpers ---------- *)
Fixpoint enumerate_from {A} (i : nat) (l : list A) : list (nat * A) :=
  match l with [] => [] | x :: r => (i, x) :: enumerate_from (S i) r end.
Definition enumerate {A} (l : list A) := enumerate_from 0 l.

Definition qn (n : nat) : Q := inject_Z (Z.of_nat n).
Definition qltb (a b : Q) : bool := if Qlt_le_dec a b then true else false.    (* a < b *)

(* np.interp(x, xp, fp) with increasing integer sample points xp (as (xp, fp) pairs); None if xp is empty (ValueError) *)
Fixpoint interp_go (x : nat) (prev : nat * Q) (nodes : list (nat * Q)) : Q :=
  match nodes with
  | [] => snd prev                                         (* x beyond the last node: hold *)
  | (xi, fi) :: r =>
      if (x <=? xi)%nat then
        if (x =? xi)%nat then fi
        else let (x0, f0) := prev in Qred (f0 + (qn x - qn x0) * (fi - f0) / (qn xi - qn x0))
      else interp_go x (xi, fi) r
  end.
Definition interp (nodes : list (nat * Q)) (x : nat) : option Q :=
  match nodes with
  | [] => None
  | (x0, f0) :: r => Some (if (x <=? x0)%nat then f0 else interp_go x (x0, f0) r)
  end.

(* a[mask] = interp(where(mask), where(valid), a[valid]): returns None when there is nothing to interpolate from *)
Definition fill (vals : list Q) (fix_mask valid_mask : list bool) : option (list Q) :=
  let idx := enumerate vals in
  let nodes := map (fun p => (fst (fst p), snd (fst p))) (filter (fun p => snd p) (combine idx valid_mask)) in
  if existsb (fun b => b) fix_mask then
    match nodes with
    | [] => None
    | _ => Some (map (fun p => let '((i, v), m) := p in if (m : bool) then match interp nodes i with Some y => y | None => v end else v)
                     (combine idx fix_mask))
    end
  else Some vals.

(* ---------- PRT cycle ---------- *)
Definition line_class (lns : list Z) : list Z := let l0 := hd 0%Z lns in map (fun l => ((l - l0) mod 5)%Z) lns.

(* median(prt[class == k]) < 50, prt3 = 3 * prt; an empty class gives nan < 50 = False *)
Definition class_low (cls prt3 : list Z) (k : Z) : bool :=
  match map snd (filter (fun p => (fst p =? k)%Z) (combine cls prt3)) with
  | [] => false
  | sel => (median2 sel <? 300)%Z
  end.

Definition find_offset (cls prt3 : list Z) : option Z :=
  find (class_low cls prt3) [0; 1; 2; 3; 4]%Z.

Definition iprt_of (cls : list Z) (offset : Z) : list Z := map (fun c => ((c + 5 - offset) mod 5)%Z) cls.

(* polyval(prt, d[:, iprt]): thermometer 0 has all-zero coefficients *)
Definition polyval (coeffs : list Q) (x : Q) : Q :=
  Qred (fold_right (fun c acc => c + x * acc) 0 coeffs).
Definition prt_temperature (therm : list (list Q)) (i : Z) (prt : Q) : Q :=
  if (i =? 0)%Z then 0 else polyval (nth (Z.to_nat (i - 1)) therm []) prt.

(* ---------- smoothing: np.convolve(x, ones(w)/w, "same") + edge replication ---------- *)
Definition window_sum (x : list Q) (lo hi : Z) : Q :=        (* sum of x[j] for lo <= j <= hi, zero outside the array *)
  Qred (fold_left (fun acc p => let '(j, v) := p in if ((lo <=? Z.of_nat j) && (Z.of_nat j <=? hi))%Z then acc + v else acc)
                  (enumerate x) 0).
Definition convolve_same (x : list Q) (w : nat) : list Q :=
  let h := Z.of_nat ((w - 1) / 2) in
  map (fun p => Qred (window_sum x (Z.of_nat (fst p) - h) (Z.of_nat (fst p) + h) / qn w)) (enumerate x).
Definition smooth (x : list Q) : list Q :=
  let L := length x in
  let w := if (51 <? L)%nat then 51%nat else 3%nat in
  let h := ((w - 1) / 2)%nat in
  let c := convolve_same x w in
  (* c[0:h] = c[h];  c[-h:] = c[-(h+1)] *)
  map (fun p => let i := fst p in
                if (i <? h)%nat then nth h c 0 else if (L - h <=? i)%nat then nth (L - (h + 1)) c 0 else snd p) (enumerate c).

(* ---------- part 1: smoothed telemetry ---------- *)
Inductive tele_result :=
| TeleIndexError                      (* "No PRT 0-index found!" *)
| TeleValueError                      (* np.interp on an empty set of valid readings *)
| TeleRawCounts                       (* channel 3b without any valid ICT reading: the counts are returned unchanged *)
| TeleOk (tbb ict space : list Q).

Definition opt_bind {A B} (o : option A) (f : A -> option B) : option B := match o with Some x => f x | None => None end.

Definition telemetry (therm : list (list Q)) (chan3 : bool) (lns prt3 ict10 space10 : list Z) : tele_result :=
  let cls := line_class lns in
  match find_offset cls prt3 with
  | None => TeleIndexError
  | Some offset =>
      let ip := iprt_of cls offset in
      let prt := map (fun s => inject_Z s / 3) prt3 in
      (* the four thermometers: readings below 50 interpolated from the readings above 50 of the same thermometer *)
      let fix_k (acc : option (list Q)) (k : Z) :=
        opt_bind acc (fun pr => fill pr (map (fun p => (fst p =? k)%Z && qltb (snd p) 50) (combine ip pr))
                                        (map (fun p => (fst p =? k)%Z && qltb 50 (snd p)) (combine ip pr))) in
      match fold_left fix_k [1; 2; 3; 4]%Z (Some prt) with
      | None => TeleValueError
      | Some prt' =>
          let tprt := map (fun p => prt_temperature therm (fst p) (snd p)) (combine ip prt') in
          let zeros := map (fun i => (i =? 0)%Z) ip in
          match fill tprt zeros (map negb zeros) with
          | None => TeleValueError
          | Some tprt' =>
              let ict := map (fun s => inject_Z s / 10) ict10 in
              let space := map (fun s => inject_Z s / 10) space10 in
              if chan3 then
                let iz := map (fun v => qltb v 100) ict in
                match fill ict iz (map negb iz) with
                | None => TeleRawCounts
                | Some ict' =>
                    let sz := map (fun v => qltb v 100) space in
                    match fill space sz (map negb sz) with
                    | None => TeleValueError
                    | Some space' => TeleOk (smooth tprt') (smooth ict') (smooth space')
                    end
                end
              else TeleOk (smooth tprt') (smooth ict) (smooth space)
          end
      end
  end.

(* ---------- part 2: the radiance chain ---------- *)
Definition c1 : Q := 11910427 # 1000000000000.     (* 1.1910427e-5 mW/m^2/sr/cm^-4 *)
Definition c2 : Q := 14387752 # 10000000.          (* 1.4387752 cm K *)

Section Chain.
  Variable N : NumSig.
  Notation "a +. b" := (add N a b) (at level 50, left associativity).
  Notation "a -. b" := (sub N a b) (at level 50, left associativity).
  Notation "a *. b" := (mul N a b) (at level 40, left associativity).
  Notation "a /. b" := (div N a b) (at level 40, left associativity).
  Notation q := (ofQ N).

  Definition planck (nu : Q) (t : T N) : T N :=
    q (c1 * nu * nu * nu) /. (expT N (q (c2 * nu) /. t) -. q 1).
  Definition inv_planck (nu : Q) (rad : T N) : T N :=
    q (c2 * nu) /. lnT N (q 1 +. q (c1 * nu * nu * nu) /. rad).

  (* brightness temperature before the range mask *)
  Definition bt_raw (r : ir_row) (tbb cs cbb ce : T N) : T N :=
    let tsbb := q (i_a r) +. q (i_b r) *. tbb in
    let nbb := planck (i_nu r) tsbb in
    let nlin := q (i_ns r) +. (nbb -. q (i_ns r)) *. (cs -. ce) /. (cs -. cbb) in
    let ncor := q (i_b0 r) +. q (i_b1 r) *. nlin +. q (i_b2 r) *. nlin *. nlin in
    let ne := nlin +. ncor in
    (inv_planck (i_nu r) ne -. q (i_a r)) /. q (i_b r).

  (* channel 3b: counts >= space count give 0 K and are then masked; every channel: outside 170..350 K -> NaN *)
  Definition bt (chan3 : bool) (r : ir_row) (tbb cs cbb ce : T N) : option (T N) :=
    let v := bt_raw r tbb cs cbb ce in
    let v := if chan3 && negb (ltb N ce cs) then q 0 else v in
    if ltb N v (q 170) || ltb N (q 350) v then None else Some v.
End Chain.
