(* C15 -- angle folding (pygac/utils.py) and the assembly of Reader.get_angles, over the reals.
   The astronomy and orbit computations are oracles: a pixel comes with the look angles (azimuth, elevation, degrees)
   and the sun's zenith (degrees) / azimuth (radians) computed for its time and position. *)
From Coq Require Import Reals ZArith.
From Flocq Require Import Core.
Open Scope R_scope.

(* Python's x % d for floats and d > 0: x - d * floor(x / d) *)
Definition rmod (x d : R) : R := x - d * IZR (Zfloor (x / d)).

(* centered_modulus(x, 360): arr = x % 360; arr[arr > 180] -= 360 *)
Definition cmod (x : R) : R := let r := rmod x 360 in if Rlt_dec 180 r then r - 360 else r.

(* get_absolute_azimuth_angle_diff: r = abs(a - b) % 360; r[r > 180] = 360 - r *)
Definition relaz (a b : R) : R := let r := rmod (Rabs (a - b)) 360 in if Rlt_dec 180 r then 360 - r else r.

Record look := mkLook { l_azi : R; l_elev : R }.
Record sunpos := mkSun { s_zen : R; s_azi_rad : R }.
Record angles := mkAngles { sat_azi : R; sat_zenith : R; sun_azi : R; sun_zenith : R; rel_azi : R }.

Definition rad2deg (x : R) : R := x * (180 / PI).

(* one pixel of get_angles; None = NaN (line flagged) *)
Definition angles_px (masked : bool) (l : look) (s : sunpos) : option angles :=
  if masked then None
  else let sd := rad2deg (s_azi_rad s) in
       Some (mkAngles (cmod (l_azi l)) (90 - l_elev l) (cmod sd) (s_zen s) (relaz sd (l_azi l))).

(* ---------- executable mirror over Q (used by the correspondence; proved equal to the real-valued model in P_C15_Q) ---------- *)
From Coq Require Import QArith Qabs Qround List.
Definition qmod (x d : Q) : Q := (x - d * inject_Z (Qfloor (x / d)))%Q.
Definition cmodQ (x : Q) : Q := let r := qmod x 360 in if Qlt_le_dec 180 r then (r - 360)%Q else r.
Definition relazQ (a b : Q) : Q := let r := qmod (Qabs (a - b)) 360 in if Qlt_le_dec 180 r then (360 - r)%Q else r.

(* case: folding inputs with the implementation's outputs; pairs with the implementation's relative azimuth *)
Definition check_fold (c : list (Q * Q) * list (Q * Q * Q)) : bool :=
  forallb (fun p => Qeq_bool (cmodQ (fst p)) (snd p)) (fst c) &&
  forallb (fun t => Qeq_bool (relazQ (fst (fst t)) (snd (fst t))) (snd t)) (snd c).
