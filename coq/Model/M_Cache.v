(* M_Cache: the caching discipline of a Reader instance (reader.py: get_times, get_lonlat, update_meta_data,
   create_counts_dataset, get_calibrated_dataset, get_angles, save; pod_reader.py: _adjust_clock_drift).
   Pure computations are abstract functions of VALUES; what is modelled is which value is computed from which,
   when it is cached, and when the cached time array is shifted in place.  Executable; no proofs here. *)
From Coq Require Import List Bool Arith.
Import ListNotations.

Section Cache.
  Variables Times LonLat Meta Obs : Type.
  Variable T0 : Times.                            (* get_times result computed from the file *)
  Variable L0 : LonLat.                           (* tie points read from the file *)
  Variable drift_applies : bool.                  (* POD, correction enabled, table present, TLE usable *)
  Variable shift_times : Times -> Times.          (* times - clock error(times) *)
  Variable shift_lonlat : LonLat -> Times -> LonLat.   (* positions at the corrected times *)
  Variable finish_lonlat : LonLat -> LonLat.      (* interpolation, masking *)
  Variable meta_of : Times -> Meta.               (* midnight line, distance factor (missing lines do not depend on times) *)

  Record rstate := mkR { r_times : option Times; r_lonlat : option LonLat; r_meta : option Meta; r_shifted : bool }.
  Definition r_init : rstate := mkR None None None false.

  (* get_times: computed once *)
  Definition do_times (s : rstate) : rstate * Times :=
    match r_times s with
    | Some t => (s, t)
    | None => (mkR (Some T0) (r_lonlat s) (r_meta s) (r_shifted s), T0)
    end.

  (* get_lonlat: guarded by the coordinate cache; clock drift first, then the meta data, then interpolation *)
  Definition do_lonlat (s : rstate) : rstate * LonLat :=
    match r_lonlat s with
    | Some l => (s, l)
    | None =>
        let (s1, t) := do_times s in
        let '(t', l, sh) := if drift_applies then (shift_times t, shift_lonlat L0 t, true) else (t, L0, r_shifted s1) in
        let m := match r_meta s1 with Some m => m | None => meta_of t' end in      (* keyed by presence *)
        let l' := finish_lonlat l in
        (mkR (Some t') (Some l') (Some m) sh, l')
    end.

  Inductive op := OpTimes | OpLonLat | OpDataset | OpCalibrated | OpAngles | OpMetaRead | OpSave.

  (* what an operation lets the caller observe *)
  Inductive observation :=
  | ObsTimes (t : Times)
  | ObsLonLat (l : LonLat)
  | ObsDataset (t : Times) (l : LonLat) (attrs : Meta)     (* times coordinate, coordinates, attrs computed afresh *)
  | ObsAngles (t : Times) (l : LonLat)
  | ObsMeta (m : option Meta).

  Definition step (s : rstate) (o : op) : rstate * observation :=
    match o with
    | OpTimes => let (s', t) := do_times s in (s', ObsTimes t)
    | OpLonLat => let (s', l) := do_lonlat s in (s', ObsLonLat l)
    | OpDataset | OpCalibrated =>
        (* create_counts_dataset: get_lonlat first, then get_times; attrs via _update_meta_data_object(fresh dict) *)
        let (s1, l) := do_lonlat s in let (s2, t) := do_times s1 in (s2, ObsDataset t l (meta_of t))
    | OpAngles | OpSave =>
        let (s1, t0) := do_times s in let (s2, l) := do_lonlat s1 in
        let (s3, t) := do_times s2 in (s3, ObsAngles t l)
    | OpMetaRead => (s, ObsMeta (r_meta s))
    end.

  Fixpoint run (s : rstate) (ops : list op) : rstate * list observation :=
    match ops with
    | [] => (s, [])
    | o :: r => let (s', ob) := step s o in let (s'', obs) := run s' r in (s'', ob :: obs)
    end.

  (* the canonical values *)
  Definition final_times : Times := if drift_applies then shift_times T0 else T0.
  Definition final_lonlat : LonLat := finish_lonlat (if drift_applies then shift_lonlat L0 T0 else L0).
  Definition coord_op (o : op) : bool := match o with OpTimes | OpMetaRead => false | _ => true end.
End Cache.
