"""C12 -- accessor results do not depend on call order, repetition or earlier work."""
import datetime
import hashlib
import io
import os

import numpy as np

import common
import impl
import l1b
import timesgen as tg

PROP = "C12"
RULE = ("1-3 reader instances (POD with real clock drift, KLM GAC/LAC, default / custom coefficients with the same entries but "
        "different values) driven by random interleaved histories of 6-14 accessor calls (get_times, get_lonlat, get_counts, "
        "get_telemetry, get_calibrated_channels, get_calibrated_dataset, create_counts_dataset, get_angles, get_qual_flags, "
        "mask, meta read, save), interleaved with get_reader_class calls on other files and Calibrator requests for other "
        "spacecraft; every returned array is compared with the canonical value obtained from a fresh reader calling only that "
        "accessor - in this process and in one fresh process per configuration -, hashed at return time and again at the end of the history; the caller's bytes are hashed before and after. "
        "A case = one observation inside a history; non-trivial = distinct observation preceded by at least one other call")
ASSUME = ["canonical values are taken from the implementation itself on fresh readers (metamorphic oracle)",
          "hdf5 files written by save go to a scratch directory"]
TB = ["coqc 8.16.1 kernel", "the cache model abstracts pure computations (M_Cache); histories are mapped to P_Cache.canon_run by the harness and "
      "re-evaluated in Coq (check_cache_history)"]

OPS = ["times", "lonlat", "counts", "telemetry", "calibrated", "cal_dataset", "dataset", "angles", "qual", "mask", "meta", "save", "save_cut"]
COORD = {"lonlat", "calibrated", "cal_dataset", "dataset", "angles", "save", "save_cut"}


def digest(x):
    h = hashlib.sha1()
    if isinstance(x, (tuple, list)):
        for y in x:
            h.update(digest(y).encode())
    elif isinstance(x, np.ndarray):
        a = np.ascontiguousarray(x)
        if a.dtype.kind == "M":
            a = a.astype("datetime64[ms]").astype("int64")
        if a.dtype.kind == "f":
            a = np.where(np.isnan(a), -9.25e30, a)
        h.update(str(a.shape).encode() + str(a.dtype).encode() + a.tobytes())
    elif x is None:
        h.update(b"None")
    else:
        h.update(repr(x).encode())
    return h.hexdigest()


def observe(r, op, scratch):
    """Returns (value for comparison, list of live arrays to re-hash at the end)."""
    if op == "times":
        t = r.get_times()
        tp = np.array(r.times, dtype="datetime64[ms]")     # the public property (datetime objects) shows the same instants
        # (the cached time array is shifted in place by design: not re-hashed)
        return np.concatenate([np.array(t).astype("datetime64[ms]"), tp]), []
    if op == "lonlat":
        lo, la = r.get_lonlat()
        return (lo, la), [lo, la]
    if op == "counts":
        c = r.get_counts()
        return c, [c]
    if op == "telemetry":
        t = r.get_telemetry()
        return tuple(t), list(t)
    if op == "calibrated":
        c = r.get_calibrated_channels()
        return c, [c]
    if op in ("cal_dataset", "dataset"):
        ds = r.get_calibrated_dataset() if op == "cal_dataset" else r.create_counts_dataset()
        vals = (ds["channels"].values, ds["times"].values.astype("datetime64[ms]"), ds["longitude"].values, ds["latitude"].values,
                ds["prt_counts"].values, ds["ict_counts"].values, ds["space_counts"].values,
                None if ds.attrs["midnight_scanline"] is None else int(ds.attrs["midnight_scanline"]),
                float(ds.attrs["sun_earth_distance_correction_factor"]))
        return vals, [v for v in vals if isinstance(v, np.ndarray)]
    if op == "angles":
        a = r.get_angles()
        return tuple(a), list(a)
    if op == "qual":
        q = r.get_qual_flags()
        return q, [q]
    if op == "mask":
        m = np.array(r.mask)
        return m, []
    if op == "meta":
        m = r.meta_data
        return ("midnight_scanline" in m, m.get("midnight_scanline"), None if "missing_scanlines" not in m else [int(x) for x in m["missing_scanlines"]],
                m.get("sun_earth_distance_correction_factor")), []
    if op in ("save", "save_cut"):
        out = os.path.join(scratch, "save_%d" % np.random.randint(1 << 30))
        os.makedirs(out)
        r.save(0 if op == "save" else 7, 0, output_dir=out + "/")
        return sorted(f.split("_99999_")[0].split("_")[1] for f in os.listdir(out)), []
    raise ValueError(op)


def make_readers(rng, tle):
    tle_dir, tle_name = tle
    configs = []
    W = 409
    samples = []
    for p in range(W):
        samples += [300 + p % 200, 310 + p % 150, 500 + (7 * p) % 300, 600 + p % 250, 620 + p % 250]
    start_pod = datetime.datetime(2001, 3, 4, 23, 59, 40)
    lines = l1b.default_lines("gac_pod", 90, start_pod, counts=samples, first=rng.choice([1, 3]))
    lines[17]["prt"] = [0, 0, 0]
    lines[18]["prt"] = [0, 0, 0]
    lines[40]["ict"] = [0] * 30
    lines[55]["space"] = [0] * 50
    configs.append(("gac_pod", l1b.build_file("gac_pod", "noaa14", start_pod, lines), dict(tle_dir=tle_dir, tle_name=tle_name, tle_thresh=40000)))
    start_klm = datetime.datetime(2003, 5, 6, 7, 8, 9)
    lines = l1b.default_lines("gac_klm", 80, start_klm, counts=samples, switch=[i % 3 for i in range(80)],
                              qual=[(1 << 31) if i in (7, 30) else 0 for i in range(80)])
    # telemetry drop-outs (the thermal calibration repairs such readings: it must do so on its own copy)
    lines[12]["prt"] = [0, 0, 0] if lines[12]["prt"] != [0, 0, 0] else lines[12]["prt"]
    lines[13]["prt"] = [0, 0, 0]
    lines[21]["ict"] = [0] * 30
    lines[33]["space"] = [0] * 50
    # two unflagged lines whose tie points are all out of range (invalid coordinates, but no quality flag)
    lines[45]["lats"] = [950000] * 51
    lines[52]["lons"] = [2000000] * 51
    klm_bytes = l1b.build_file("gac_klm", "noaa16", start_klm, lines)
    configs.append(("gac_klm", klm_bytes, dict(tle_dir=tle_dir, tle_name=tle_name, tle_thresh=40000)))
    # tie-point-only coordinates
    configs.append(("gac_klm", klm_bytes, dict(tle_dir=tle_dir, tle_name=tle_name, tle_thresh=40000, interpolate_coords=False)))
    # the same spacecraft and file, but another TLE source (only the oldest element set) / no TLE file at all
    alt = os.path.join(os.path.dirname(tle_dir.rstrip("/")), "tle_alt")
    os.makedirs(alt, exist_ok=True)
    with open(os.path.join(tle_dir, "TLE_noaa16.txt")) as f_:
        first_set = f_.readlines()[:2]
    with open(os.path.join(alt, "TLE_noaa16.txt"), "w") as f_:
        f_.writelines(first_set)
    empty = os.path.join(os.path.dirname(tle_dir.rstrip("/")), "tle_empty")
    os.makedirs(empty, exist_ok=True)
    configs.append(("gac_klm", klm_bytes, dict(tle_dir=alt, tle_name=tle_name, tle_thresh=40000)))
    configs.append(("gac_klm", klm_bytes, dict(tle_dir=empty, tle_name=tle_name, tle_thresh=40000)))
    for s0 in (2.0, 4.0):   # the same overridden entry with different values
        cu = {"channel_1": {"dark_count": 39.0, "gain_switch": 500.0, "s0": s0, "s1": 0.0, "s2": 0.0}}
        configs.append(("gac_klm", klm_bytes, dict(tle_dir=tle_dir, tle_name=tle_name, tle_thresh=40000, calibration_parameters=dict(custom_coeffs=cu))))
    # a POD spacecraft whose code (2 = NOAA-6) is also the KLM code of NOAA-16, followed by a NOAA-16 pass inside one of its
    # scan-motor intervals with noisy pixels: what one reader family learns about a code must not leak to the other
    rs = np.random.RandomState(rng.randrange(2 ** 31))
    start6 = datetime.datetime(1983, 5, 6, 7, 8, 9)
    configs.append(("gac_pod", l1b.build_file("gac_pod", "noaa6", start6, l1b.default_lines("gac_pod", 30, start6, counts=samples)),
                    dict(tle_dir=tle_dir, tle_name=tle_name, tle_thresh=40000, adjust_clock_drift=False)))
    start16 = datetime.datetime(2004, 1, 14, 15, 0, 0)

    def noisy(i):
        c = np.empty((W, 5), dtype=int)
        c[:, 0] = 300 + (rs.rand(W) * 120).astype(int)
        c[:, 1] = 300 + (rs.rand(W) * 10).astype(int)
        c[:, 2] = 500
        c[:, 3] = 500 + (rs.rand(W) * 150).astype(int)
        c[:, 4] = 520 + (rs.rand(W) * 10).astype(int)
        return c.ravel().tolist()
    configs.append(("gac_klm", l1b.build_file("gac_klm", "noaa16", start16, l1b.default_lines("gac_klm", 30, start16, counts=noisy)),
                    dict(tle_dir=tle_dir, tle_name=tle_name, tle_thresh=40000)))
    # element sets exist but the nearest one is older than the limit: the TLE-free fallback, on every call
    configs.append(("gac_klm", klm_bytes, dict(tle_dir=tle_dir, tle_name=tle_name, tle_thresh=1e-6)))
    return configs


def run(res, tier, seed):
    import l1b as _l1b
    _l1b.AUTO_NOISE = 7919 * seed + 13      # random bytes in every record field the spec writer does not set
    rng = common.rng_for(seed, PROP)
    np.random.seed(seed)
    import pygac
    from pygac.calibration.noaa import Calibrator
    coq = []
    with common.scratch_dir() as d:
        tle = impl.make_tle_dir(d)
        configs = make_readers(rng, tle)
        other_file = l1b.build_file("lac_klm", "noaa18", datetime.datetime(2008, 1, 2, 3, 4, 5),
                                    l1b.default_lines("lac_klm", 3, datetime.datetime(2008, 1, 2, 3, 4, 5)))
        # canonical values: fresh reader, one accessor (times / meta also after a coordinate computation)
        # ... and the same in one fresh process per configuration: nothing done earlier in this process may matter
        import pickle, subprocess, sys, json
        pk = os.path.join(d, "configs.pickle")
        pickle.dump(configs, open(pk, "wb"))
        procs = [subprocess.Popen([sys.executable, os.path.abspath(__file__), "--canon", pk, str(i), d], stdout=subprocess.PIPE, text=True)
                 for i in range(len(configs))]
        canon = []
        for fmt, data, kw in configs:
            c = {}
            for op in OPS:
                c[(op, False)] = digest(observe(impl.open_reader(fmt, data, **kw), op, d)[0])
            for op in ("times", "meta"):
                r = impl.open_reader(fmt, data, **kw)
                r.get_lonlat()
                c[(op, True)] = digest(observe(r, op, d)[0])
            canon.append(c)
        for i, pr in enumerate(procs):
            out = pr.communicate(timeout=600)[0]
            try:
                fresh = json.loads(out.strip().splitlines()[-1])
            except Exception:  # noqa
                raise common.MachineryError("fresh-process canonical run failed: " + out[-400:])
            for (op, after), dg in canon[i].items():
                if fresh["%s/%d" % (op, after)] != dg:
                    res.violations.append(("accessor result depends on work done earlier in the process (a fresh process gives a different result)",
                                           dict(reader=i, format=configs[i][0], operation=op, after_coordinates=after,
                                                custom_coeffs=configs[i][2].get("calibration_parameters"), seed=seed,
                                                earlier="canonical runs of configurations 0..%d in this process" % (i - 1))))
                res.add_case(("fresh", i, op, after), i > 0, dict(reader=i, operation=op, fresh_process=True))
        nh = 5 if tier == "quick" else 40
        # scripted histories run first (call orders that matter for the caches: repeated cut saves around a meta read on the
        # pass that crosses midnight; counts / telemetry / dataset after a calibration), then random ones
        scripts = [(0, ["lonlat", "meta", "save_cut", "meta", "save_cut", "meta", "dataset", "save"]),
                   (1, ["calibrated", "counts", "telemetry", "dataset", "save_cut", "meta", "angles", "lonlat"]),
                   # tie-point-only coordinates on the file with two unflagged out-of-range lines: mask / summary around every producer
                   (2, ["mask", "lonlat", "mask", "qual", "calibrated", "mask", "angles", "mask", "dataset", "mask", "lonlat"]),
                   # POD with the clock-drift correction: the angles asked first, then after the coordinates, then again
                   (0, ["angles", "lonlat", "angles", "times", "angles", "dataset", "angles"]),
                   # POD with the clock-drift correction: the times (array and property) before and after the coordinates
                   (0, ["times", "lonlat", "times", "dataset", "times", "angles", "times"]),
                   # nearest element set older than the limit: repeated angle requests around other accessors
                   (len(configs) - 1, ["angles", "angles", "lonlat", "angles", "save", "angles"])]
        for h in range(nh + len(scripts)):
            script = scripts[h] if h < len(scripts) else None
            k = 1 if script else rng.choice([1, 2, 3])
            chosen = [script[0]] if script else rng.sample(range(len(configs)), k)
            srcs = [bytes(configs[i][1]) for i in chosen]
            hashes_before = [hashlib.sha1(b).hexdigest() for b in srcs]
            readers = []
            for i, b in zip(chosen, srcs):
                fmt, _, kw = configs[i]
                r = impl.reader_class(fmt)(**kw)
                r.read("f", fileobj=io.BytesIO(b))
                readers.append(r)
            before = [False] * k
            live = []
            hist = []
            codes = []
            for step in range(len(script[1]) if script else rng.randint(6, 14)):
                j = rng.randrange(k)
                op = script[1][step] if script else rng.choice(OPS if tier == "thorough" or rng.random() < 0.8 else ["save", "save_cut", "meta"])
                if rng.random() < 0.25:
                    try:
                        pygac.get_reader_class("other", fileobj=io.BytesIO(other_file))
                        Calibrator(rng.choice(["noaa9", "metopb", "noaa19"]))
                    except Exception as e:  # noqa
                        res.violations.append(("unrelated process-wide call raised %r" % (e,), dict(history=h)))
                ctx = dict(history=h, position=step, reader=chosen[j], format=configs[chosen[j]][0], operation=op,
                           earlier=[(a, b) for a, b in hist[-6:]], seed=seed,
                           custom_coeffs=bool(configs[chosen[j]][2].get("calibration_parameters")))
                try:
                    val, arrays = observe(readers[j], op, d)
                except Exception as e:  # noqa
                    import traceback
                    res.violations.append(("accessor raised %r after earlier calls" % (e,), dict(ctx, traceback=traceback.format_exc()[-500:])))
                    hist.append((chosen[j], op))
                    continue
                dg = digest(val)
                key = (op, before[j]) if op in ("times", "meta") else (op, False)
                if dg != canon[chosen[j]][key]:
                    res.violations.append(("accessor result depends on the calls made before it (differs from a fresh reader's result)", ctx))
                code = 2
                if op in ("times", "meta"):
                    code = 0 if dg == canon[chosen[j]][(op, False)] else (1 if dg == canon[chosen[j]][(op, True)] else 2)
                codes.append((chosen[j], op, code))
                for a in arrays:
                    live.append((a, digest(a), ctx))
                hist.append((chosen[j], op))
                if op in COORD:
                    before[j] = True
                res.add_case((h, step, chosen[j], op), step > 0, dict(ctx))
            for a, dg, ctx in live:
                if digest(a) != dg:
                    res.violations.append(("an array returned earlier was modified by a later call", ctx))
                    break
            for b, hb in zip(srcs, hashes_before):
                if hashlib.sha1(b).hexdigest() != hb:
                    res.violations.append(("reading modified the bytes supplied by the caller", dict(history=h)))
            res.traces += 1
            # the cache model on this history, per reader: which variant (before / after the coordinate computation) each
            # times / meta observation showed
            names = {"times": "OpTimes", "lonlat": "OpLonLat", "dataset": "OpDataset", "cal_dataset": "OpCalibrated",
                     "calibrated": "OpCalibrated", "angles": "OpAngles", "meta": "OpMetaRead", "save": "OpSave", "save_cut": "OpSave"}
            for ri in chosen:
                mine = [(names[o], c) for (rj, o, c) in codes if rj == ri and o in names]
                drift = canon[ri][("times", False)] != canon[ri][("times", True)]
                coq.append("(%s, [%s])" % (common.blit(drift), "; ".join("(%s, %d%%nat)" % oc for oc in mine)))
                res.notes["drift_histories"] = res.notes.get("drift_histories", 0) + int(drift)
    pre = ("Definition obs_ok (ob : observation nat nat nat) (code : nat) : bool :=\n"
           "  match ob with ObsTimes _ _ _ t => Nat.eqb t code | ObsMeta _ _ _ None => Nat.eqb code 0%nat | ObsMeta _ _ _ (Some _) => Nat.eqb code 1%nat | _ => true end.\n"
           "Fixpoint all2 (l : list (observation nat nat nat)) (c : list nat) : bool :=\n"
           "  match l, c with [], [] => true | a :: l', b :: c' => obs_ok a b && all2 l' c' | _, _ => false end.\n"
           "Definition check_cache_history (h : bool * list (op * nat)) : bool :=\n"
           "  let r := run nat nat nat 0%nat 0%nat (fst h) S (fun l t => (l + t)%nat) (fun l => l) (fun t => t) (r_init _ _ _) (map fst (snd h)) in\n"
           "  all2 (snd r) (map snd (snd h)).\n")
    failing, logs = common.coq_eval("c12", "From PV Require Import M_Cache.", "check_cache_history", coq, shard=50, preamble=pre, ctype="bool * list (op * nat)")
    res.notes["coq_histories"] = len(coq)
    for kind, idx, msg in failing:
        res.no_input.append("corr_C12: " + (msg[-300:] if kind == "error" else "the cache model (M_Cache.run) does not predict which of the before/after variants "
                                                                           "the times / meta observations of history %s showed" % coq[idx]))
    res.violations = res.violations[:5]


def canon_main(pk, i, d):
    import pickle, json
    configs = pickle.load(open(pk, "rb"))
    fmt, data, kw = configs[int(i)]
    out = {}
    for op in OPS:
        out["%s/0" % op] = digest(observe(impl.open_reader(fmt, data, **kw), op, d)[0])
    for op in ("times", "meta"):
        r = impl.open_reader(fmt, data, **kw)
        r.get_lonlat()
        out["%s/1" % op] = digest(observe(r, op, d)[0])
    print(json.dumps(out))


if __name__ == "__main__":
    import sys
    import warnings
    warnings.simplefilter("ignore")
    if sys.argv[1] == "--canon":
        canon_main(*sys.argv[2:5])
