"""C14 -- each KLM line delivers channel 3a or 3b, never both, never the wrong one."""
import datetime

import numpy as np

import common
import impl
import l1b

PROP = "C14"
RULE = ("KLM GAC/LAC passes with per-line channel-select sequences: all 3a, all 3b, all transition, alternating at every line, "
        "blocks, random over {0,1,2}, sequences with 0 and 2 but no 1 (and 1 and 2 but no 0), other bits of the bit field "
        "random; passes inside and outside a scan-motor interval; compared line by line with two reference passes of the same "
        "counts (all lines 3a / all lines 3b); POD passes for the five-channel and the uniform six-channel layout. "
        "A case = one pass; non-trivial = distinct switch sequence with at least two different values or a transition line")
ASSUME = ["the reference passes go through the same calibration code: the oracle is metamorphic (which line delivers which "
          "calibration), the calibration values themselves are C04/C05", "telemetry chosen so that all calibrated values are finite"]
TB = ["coqc 8.16.1 kernel", "correspondence check_ch3_flags evaluated in Coq", "harness/l1b.py spec writer"]


def seqs(rng, n):
    out = {
        "all3a": [1] * n, "all3b": [0] * n, "alltrans": [2] * n, "alternating": [i % 2 for i in range(n)],
        "blocks": [(i // 7) % 3 for i in range(n)], "random": [rng.choice([0, 1, 2]) for _ in range(n)],
        "3b+trans": [0] * (n - 4) + [2] * 4, "trans+3b": [2] * 3 + [0] * (n - 3), "3a+trans": [1] * (n - 5) + [2] * 5,
        "single3a": [0] * (n // 2) + [1] + [0] * (n - n // 2 - 1), "cycle012": [i % 3 for i in range(n)],
        # 3a for most of the pass (daytime), a transition, then 3b
        "mostly3a": [1] * (3 * n // 4 - 2) + [2] * 2 + [0] * (n - 3 * n // 4),
    }
    return out


def run(res, tier, seed):
    import l1b as _l1b
    _l1b.AUTO_NOISE = 7919 * seed + 13      # random bytes in every record field the spec writer does not set
    rng = common.rng_for(seed, PROP)
    coq = []
    plans = [("gac_klm", "noaa16", datetime.datetime(2003, 2, 4, 10, 0, 0), 70), ("lac_klm", "metopa", datetime.datetime(2010, 7, 1, 3, 0, 0), 60),
             ("gac_klm", "noaa16", datetime.datetime(2004, 1, 14, 15, 0, 0), 70),   # inside a scan-motor interval of NOAA-16
             ("gac_klm", "noaa17", datetime.datetime(2003, 10, 1, 12, 0, 0), 60),   # (NOAA-15 has no 3a calibration: NaN gain switch)
             ("gac_klm", "noaa18", datetime.datetime(2009, 3, 4, 10, 0, 0), 1300),  # a pass of more than 1024 lines
             ("gac_klm", "noaa19", datetime.datetime(2011, 3, 4, 10, 0, 0), 61)]    # third sample 0 on every pixel (a valid count)
    if tier == "thorough":
        plans += [("gac_klm", "noaa18", datetime.datetime(2008, 2, 4, 10, 0, 0), 300), ("lac_klm", "noaa19", datetime.datetime(2012, 2, 4, 10, 0, 0), 120)]
    for fmt, sc, start, n in plans:
        W = l1b.FMT[fmt]["width"]
        samples = []
        for p in range(W):
            samples += [300 + p % 200, 310 + p % 150, (0 if n == 61 else 500 + (7 * p) % 300), 600 + p % 250, 620 + p % 250]
        wb = l1b.words_bytes(l1b.pack_words(samples))

        first = rng.choice([1, 3])

        dup_numbers = (n == 60)      # one plan (the NOAA-17 pass) has repeated scan line numbers

        def chans(sw, hi=None):
            lines = l1b.default_lines(fmt, n, start, counts=wb, switch=sw, first=first)
            if dup_numbers:      # the on-file line counter stalls for a few records (numbers are not unique): selection is per record
                for i_ in range(10, min(n, 40), 6):
                    lines[i_]["n"] = lines[i_ - 1]["n"]
            for i_, l_ in enumerate(lines):
                if sw[i_] != 0:         # while 3a is on (or in transition) the channel-3 calibration views do not see the 3b detector
                    l_["ict"] = [0 if j % 3 == 0 else v for j, v in enumerate(l_["ict"])]
                    l_["space"] = [40 if j % 5 == 2 else v for j, v in enumerate(l_["space"])]
            for idx in (5, n - 7):       # internal-target drop-outs of the channel-3 view on two lines: telemetry, not channel selection
                lines[idx]["ict"] = [0 if j % 3 == 0 else v for j, v in enumerate(lines[idx]["ict"])]
            if hi:
                for l, h in zip(lines, hi):
                    l["bitfield_hi"] = h
            r = impl.open_reader(fmt, l1b.build_file(fmt, sc, start, lines))
            return r, r.get_calibrated_channels()
        try:
            _, ref_a = chans([1] * n)
            _, ref_b = chans([0] * n)
        except Exception as e:  # noqa
            res.violations.append(("reference pass raised %r" % (e,), dict(fmt=fmt, spacecraft=sc)))
            continue
        allseq = seqs(rng, n)
        names = list(allseq) if tier == "thorough" or fmt == "gac_klm" else ["alternating", "random", "3b+trans", "all3a", "mostly3a"]
        if n > 1000:
            names = ["random", "3b+trans", "mostly3a"]
        for name in names:
            sw = allseq[name]
            hi = [rng.getrandbits(16) & 0xFFFC for _ in range(n)]
            ctx = dict(fmt=fmt, spacecraft=sc, start=str(start), sequence=name, switch=sw[:24], seed=seed)
            try:
                r, ch = chans(sw, hi)
            except Exception as e:  # noqa
                res.violations.append(("pass raised %r" % (e,), ctx))
                continue
            res.traces += 1
            flags = []
            for i in range(n):
                a, b = ch[i, :, 2], ch[i, :, 3]
                ea = ref_a[i, :, 2] if sw[i] == 1 else np.full(W, np.nan)
                eb = ref_b[i, :, 3] if sw[i] == 0 else np.full(W, np.nan)
                if not impl.nan_eq(a, ea):
                    res.violations.append(("channel 3a of a line is not (NaN | the solar calibration of its third sample)",
                                           dict(ctx, line_index=i, line_switch=sw[i], got=[float(x) for x in a[:3]], expected=[float(x) for x in ea[:3]])))
                    break
                if not impl.nan_eq(b, eb):
                    res.violations.append(("channel 3b of a line is not (NaN | the thermal calibration of its third sample)",
                                           dict(ctx, line_index=i, line_switch=sw[i], got=[float(x) for x in b[:3]], expected=[float(x) for x in eb[:3]])))
                    break
                if sw[i] == 0 and np.any(np.isfinite(b) & ((b < 170.0) | (b > 350.0))):
                    res.violations.append(("the delivered 3b value of a line is not a brightness temperature (outside 170..350 K: not the thermal calibration of the third sample)",
                                           dict(ctx, line_index=i, third_sample=samples[2], delivered=[float(x) for x in b[:3]])))
                    break
                # (a third sample of 0 lies below the dark count: no reflectance is defined for it, so 3a is NaN there by C04)
                if (sw[i] == 0 and np.all(np.isnan(b))) or (sw[i] == 1 and np.all(np.isnan(a)) and samples[2] > 100):
                    res.violations.append(("a line delivers neither 3a nor 3b although its select bits name one (whole line NaN)",
                                           dict(ctx, line_index=i, line_switch=sw[i], target_dropout_line=i in (5, n - 7))))
                    break
                flags.append((hi[i] | sw[i], bool(np.all(np.isnan(a))), bool(np.all(np.isnan(b)))))
            # the other channels are untouched by the switch
            for k in (0, 1, 4, 5):
                if not impl.nan_eq(ch[:, :, k], ref_a[:, :, k]):
                    res.violations.append(("channel %d depends on the channel-3 select bits" % k, ctx))
            if samples[2] > 100:     # (the all-NaN pattern of the model presumes a third sample for which a reflectance is defined)
                coq.append(("[%s]" % "; ".join("(%d, %s, %s)" % (bf, common.blit(a), common.blit(b)) for bf, a, b in flags), ctx))
            res.add_case((fmt, sc, str(start), tuple(sw)), len(set(sw)) >= 2 or 2 in sw, dict(fmt=fmt, spacecraft=sc, sequence=name, first_switches=sw[:12]))
    # ---------- POD ----------
    for fmt, sc, start in (("gac_pod", "noaa11", datetime.datetime(1990, 2, 4, 10, 0, 0)), ("lac_pod", "noaa14", datetime.datetime(1996, 2, 4, 10, 0, 0))):
        W = l1b.FMT[fmt]["width"]
        samples = []
        for p in range(W):
            samples += [300 + p % 200, 310 + p % 150, 500 + (7 * p) % 300, 600 + p % 250, 620 + p % 250]
        lines = l1b.default_lines(fmt, 60, start, counts=l1b.words_bytes(l1b.pack_words(samples)))
        r = impl.open_reader(fmt, l1b.build_file(fmt, sc, start, lines), adjust_clock_drift=False)
        ch = r.get_calibrated_channels()
        un = r._get_calibrated_channels_uniform_shape()
        ctx = dict(fmt=fmt, spacecraft=sc)
        if ch.shape[2] != 5 or un.shape[2] != 6:
            res.violations.append(("POD does not deliver five channels / six uniform channels", dict(ctx, shapes=[ch.shape, un.shape])))
            continue
        if not (np.all(np.isnan(un[:, :, 2])) and impl.nan_eq(un[:, :, 3], ch[:, :, 2]) and impl.nan_eq(un[:, :, 0], ch[:, :, 0])
                and impl.nan_eq(un[:, :, 1], ch[:, :, 1]) and impl.nan_eq(un[:, :, 4], ch[:, :, 3]) and impl.nan_eq(un[:, :, 5], ch[:, :, 4])):
            res.violations.append(("POD uniform layout is not (1, 2, NaN, 3, 4, 5)", ctx))
        if not (np.nanmin(ch[:, :, 2]) > 170 and np.nanmax(ch[:, :, 2]) < 350 and not np.all(np.isnan(ch[:, :, 2]))):
            res.violations.append(("POD channel 3 is not a brightness temperature", dict(ctx, min=float(np.nanmin(ch[:, :, 2])))))
        res.add_case((fmt, sc, "pod"), True, dict(fmt=fmt, pod_layout=True))
        res.traces += 1
    failing, logs = common.coq_eval("c14", "From PV Require Import M_Ch3.", "check_ch3_flags", [c for c, _ in coq], shard=30,
                                    ctype="list (Z * bool * bool)")
    res.notes["coq_cases"] = len(coq)
    for kind, idx, msg in failing:
        if kind == "error":
            res.no_input.append("correspondence corr_C14 could not be evaluated: " + msg[-300:])
        else:
            res.no_input.append("corr_C14: blanking pattern of model and implementation differ on %s" % (coq[idx][1],))
    res.violations = res.violations[:5]
