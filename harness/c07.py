"""C07 -- flagged scan lines are blanked in every product and only those."""
import datetime
import random

import numpy as np

import common
import impl
import l1b

PROP = "C07"
RULE = ("real readers (4 formats) on spec-written files; per line a quality word: every single bit, random words, "
        "words with only non-mask bits; three unflagged lines per pass with out-of-range latitudes; a case = (format, line number, quality word); non-trivial = distinct "
        "(family, quality word) whose mask bits or summary bits are not all zero, or that has >= 2 other bits set")
ASSUME = ["numpy '&' on >u4 and astype(bool) as modelled (anybit)", "xarray .where(mask) blanks whole rows",
          "float64 NaN is the blank value"]
TB = ["coqc 8.16.1 kernel (vm_compute used in examples only)", "translator/gen.py (Gen_Flags from the live IntFlag enums)",
      "harness/l1b.py spec writer + correspondence (differential test, in-Coq comparison via check_flags)"]

MASKBITS = {"klm": (31, 28, 27), "pod": (31, 27, 26)}
SUMBITS = {"klm": (7, 6, 5, 4, 3, 2), "pod": (18, 17, 16)}


def quality_words(rng, fam, n, tier):
    qs = [0]
    qs += [1 << b for b in range(32)]
    mb = MASKBITS[fam]
    inert = [b for b in range(32) if b not in mb]
    while len(qs) < n:
        k = rng.random()
        if k < 0.4:
            qs.append(rng.getrandbits(32))
        elif k < 0.7:  # only non-mask bits
            q = 0
            for b in rng.sample(inert, rng.randint(1, 20)):
                q |= 1 << b
            qs.append(q)
        elif k < 0.85:
            qs.append((1 << rng.choice(mb)) | (1 << rng.choice(inert)))
        else:
            a, b = rng.sample(range(32), 2)
            qs.append((1 << a) | (1 << b))
    rng.shuffle(qs)
    return qs[:n]


def products(r):
    ch = r.get_calibrated_channels()
    lon, lat = r.get_lonlat()
    ang = r.get_angles()
    out = {"lon": lon, "lat": lat}
    for i in range(ch.shape[2]):
        out["ch%d" % i] = ch[:, :, i]
    for nm, a in zip(("sat_azi", "sat_zen", "sun_azi", "sun_zen", "rel_azi"), ang):
        out[nm] = a
    return out


def run(res, tier, seed):
    rng = common.rng_for(seed, PROP)
    # (format, spacecraft, lines, line-number pattern): clean | wrapped (POD files stored rotated, the reader rolls
    # them back) | dropped (one record with an out-of-range number is removed by the sanitising)
    plans = [("gac_klm", "noaa16", 120, "clean"), ("gac_pod", "noaa10", 120, "clean"), ("lac_klm", "noaa18", 40, "clean"),
             ("lac_pod", "noaa9", 40, "clean"), ("gac_pod", "noaa12", 60, "wrapped"), ("gac_klm", "noaa17", 60, "dropped"),
             ("gac_pod", "noaa7", 60, "dropped"),
             # POD with the clock-drift correction switched on (real table, TLE): neighbours of flagged lines must stay valid
             ("gac_pod", "noaa14", 60, "clean-drift"), ("lac_pod", "noaa14", 40, "clean-drift"),
             ("gac_klm", "noaa19", 1300, "clean"),   # a pass of more than 1024 lines
             # a record transmitted twice (same line number): one copy flagged, the other clean
             ("gac_klm", "noaa18", 60, "repeated"), ("lac_pod", "noaa14", 40, "repeated"),
             # the only flagged line of the pass is its first one
             ("gac_klm", "noaa17", 40, "firstonly"), ("gac_pod", "noaa12", 40, "firstonly")]
    if tier == "thorough":
        plans = [(f, s, n * 6 if n < 1000 else n, k) for f, s, n, k in plans] + [("gac_klm", "metopa", 600, "clean"), ("gac_pod", "noaa14", 600, "clean"), ("gac_klm", "noaa19", 4300, "clean"),
                                                             ("lac_pod", "noaa11", 90, "wrapped"), ("lac_klm", "metopc", 90, "dropped")]
    cases, meta = [], []
    with common.scratch_dir() as d:
        tle_dir, tle_name = impl.make_tle_dir(d)
        for fmt, sc, n, pattern in plans:
            fam = l1b.FMT[fmt]["family"]
            start = datetime.datetime(2001 if (fam == "klm" or pattern == "clean-drift") else 1990, 3, 4, 10, 0, 0)
            first = rng.choice([1, 1, 7, 300])
            if fmt == "lac_klm":  # LAC line numbers are 16-bit unsigned: the upper half of the range must be reported as is
                first = rng.choice([1, 32768 - n // 2, 40000, 65534 - n])
            qs = quality_words(rng, fam, n, tier)
            w = l1b.FMT[fmt]["width"]
            samples = [int(200 + 300 * ((j * 7) % 11) / 11.0) for j in range(5 * w)]
            wb = l1b.words_bytes(l1b.pack_words(samples))
            numbers = list(range(first, first + n))
            if pattern == "wrapped":
                k = rng.randrange(3, n - 3)
                numbers = list(range(n - k + 1, n + 1)) + list(range(1, n - k + 1))
            elif pattern == "firstonly":
                keepmask = sum(1 << b for b in MASKBITS[fam])
                qs = [1 << rng.choice(MASKBITS[fam])] + [q & ~keepmask for q in qs[1:]]
            elif pattern == "repeated":
                j = rng.randrange(5, n - 5)
                numbers = numbers[:j + 1] + numbers[j:n - 1]          # number j twice, still n records
                qs[j], qs[j + 1] = rng.choice([(1 << 31, 0), (0, 1 << 31), (1 << MASKBITS[fam][1], 4)])
            elif pattern == "dropped":
                numbers[rng.randrange(5, n - 5)] = 20000 if l1b.FMT[fmt]["res"] == "gac" else 65535
            sws = [rng.choice([0, 1]) for _ in range(n)]
            nz = rng.getrandbits(32)   # both files of the pair: the same random bytes in every record field the writer does not set
            lines = l1b.default_lines(fmt, n, start, counts=wb, qual=qs, switch=sws, numbers=numbers, noise=random.Random(nz))
            for i_, ln_ in enumerate(lines):      # telemetry drifting along the pass (a constant one hides changes of single readings)
                ln_["prt"] = [v + (i_ % 7) if v else 0 for v in ln_["prt"]]
                ln_["ict"] = [v + (i_ * 3) % 11 for v in ln_["ict"]]
                ln_["space"] = [v + (i_ * 5) % 7 for v in ln_["space"]]
            # a few lines carry out-of-range latitudes (95 degrees) in all tie points: their coordinates are invalid (C06),
            # but that is not a quality flag -- channels and mask of such a line must not change
            oor_idx = rng.sample(range(n), 3) if pattern != "clean-drift" else []
            sc_ = 1e4 if fam == "klm" else 128.0
            for i_ in oor_idx:
                lines[i_]["lats"] = [int(95 * sc_)] * 51
                lines[i_]["oor"] = True
            data = l1b.build_file(fmt, sc, start, lines)
            # twin file: all non-mask bits of every quality word cleared
            keep = sum(1 << b for b in MASKBITS[fam])
            lines2 = l1b.default_lines(fmt, n, start, counts=wb, qual=[q & keep for q in qs], switch=sws, numbers=numbers, noise=random.Random(nz))
            for i_ in oor_idx:
                lines2[i_]["lats"] = [int(95 * sc_)] * 51
            for ln_, l2_ in zip(lines, lines2):
                l2_["prt"], l2_["ict"], l2_["space"] = list(ln_["prt"]), list(ln_["ict"]), list(ln_["space"])
            data2 = l1b.build_file(fmt, sc, start, lines2)
            plan_no = plans.index((fmt, sc, n, pattern))
            # every other pass is read with tie-point-only coordinates (interpolation off): the blanking must be the same
            kw = dict(tle_dir=tle_dir, tle_name=tle_name, adjust_clock_drift=(pattern == "clean-drift"), tle_thresh=40000,
                      interpolate_coords=(plan_no % 2 == 0))
            try:
                r = impl.open_reader(fmt, data, **kw)
                r2 = impl.open_reader(fmt, data2, **kw)
                surv = [int(x) for x in r.scans["scan_line_number"]]
                exp_surv = [x for x in numbers if x < (15000 if l1b.FMT[fmt]["res"] == "gac" else 65535)]
                if pattern == "wrapped":
                    exp_surv = sorted(exp_surv)
                if surv != exp_surv:
                    res.violations.append(("unexpected surviving records", dict(fmt=fmt, pattern=pattern, got=surv[:10], expected=exp_surv[:10])))
                    continue
                if pattern != "repeated":       # (line numbers are not unique there; nothing is dropped or reordered)
                    byno = {l["n"]: l for l in lines}
                    lines = [byno[x] for x in surv]
                qs = [l["qual"] for l in lines]
                mask = np.asarray(r.mask)
                qf = r.get_qual_flags()
                P, P2 = products(r), products(r2)
                mask_after = np.asarray(r.mask)
                if not np.array_equal(mask, mask_after):
                    res.violations.append(("the mask of corrupt lines changed while the products were computed",
                                           dict(fmt=fmt, spacecraft=sc, pattern=pattern, interpolate_coords=kw["interpolate_coords"],
                                                lines_added=[int(x) for x in np.flatnonzero(mask_after & ~mask)][:8],
                                                out_of_range_latitude_lines=[j for j, l in enumerate(lines) if l.get("oor")])))
            except Exception as e:  # noqa
                import traceback
                res.violations.append(("exception while computing the products of a pass (%s line numbers): %r" % (pattern, e),
                                       dict(fmt=fmt, spacecraft=sc, pattern=pattern, numbers=numbers[:12], seed=seed,
                                            traceback=traceback.format_exc()[-800:])))
                continue
            tbl = fam + "_flags"
            for i, q in enumerate(qs):
                row = [int(x) for x in qf[i]]
                cases.append("(%d, %d, %s, %s)" % (lines[i]["n"], q, common.blit(bool(mask[i])), common.zlist(row)))
                meta.append((tbl, fmt, lines[i]["n"], q))
                exp = any((q >> b) & 1 for b in MASKBITS[fam])
                nontriv = exp or any((q >> b) & 1 for b in SUMBITS[fam]) or bin(q).count("1") >= 2
                res.add_case((fam, q, pattern), nontriv, dict(format=fmt, line=lines[i]["n"], quality_word=hex(q), numbering=pattern))
                # ---- oracle on the implementation, independent of the model ----
                for nm, arr in P.items():
                    if lines[i].get("oor") and not nm.startswith("ch"):
                        continue   # coordinates (and the angles derived from them) of a line without valid latitudes are NaN by C06
                    rowv = arr[i]
                    allnan = bool(np.all(np.isnan(rowv)))
                    if exp and not allnan:
                        res.violations.append(("flagged line not blanked in product %s" % nm,
                                               dict(fmt=fmt, spacecraft=sc, line_index=i, quality_word=hex(q), product=nm)))
                    if not exp and not impl.nan_eq(rowv, P2[nm][i]):
                        res.violations.append(("non-mask bits of the quality word changed product %s" % nm,
                                               dict(fmt=fmt, spacecraft=sc, line_index=i, quality_word=hex(q), product=nm)))
                    if not exp and allnan and nm in ("lon", "lat", "sun_zen", "ch0"):
                        res.violations.append(("unflagged line blanked in product %s" % nm,
                                               dict(fmt=fmt, spacecraft=sc, line_index=i, quality_word=hex(q), product=nm)))
                expected_row = [lines[i]["n"]] + [int((q >> b) & 1) for b in MASKBITS[fam]]
                if fam == "klm":
                    expected_row += [int(bool(q & 0xC0)), int(bool(q & 0x30)), int(bool(q & 0x0C))]
                else:
                    expected_row += [int((q >> 18) & 1), int((q >> 17) & 1), int((q >> 16) & 1)]
                if row != expected_row or bool(mask[i]) != exp:
                    res.violations.append(("quality summary / mask disagree with the format's bits",
                                           dict(fmt=fmt, line_index=i, quality_word=hex(q), got=row,
                                                expected=expected_row, mask=bool(mask[i]))))
            res.traces += 1
    # ---- correspondence with the Coq model (comparison done inside Coq) ----
    by_tbl = {}
    for c, m in zip(cases, meta):
        by_tbl.setdefault(m[0], []).append((c, m))
    for tbl, lst in by_tbl.items():
        failing, logs = common.coq_eval("c07_" + tbl, "From PV Require Import M_Flags Gen_Flags.",
                                        "(check_flags %s)" % tbl, [c for c, _ in lst])
        for kind, idx, msg in failing:
            if kind == "error":
                res.no_input.append("correspondence corr_C07 could not be evaluated: " + msg[-300:])
            else:
                m = lst[idx][1]
                res.no_input.append("corr_C07: model and implementation disagree on mask/summary for %s line %d word %s"
                                    % (m[1], m[2], hex(m[3])))
    if len(res.violations) > 5:
        res.violations = res.violations[:5]
