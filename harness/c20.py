"""C20 -- legacy HDF5 output holds the selected rows of every product, consistently."""
import calendar
import datetime
import glob
import os
from fractions import Fraction

import h5py
import numpy as np

import common
import impl
import l1b
import timesgen as tg

PROP = "C20"
RULE = ("real KLM/POD readers on spec-written passes with 0-4 leading and 0-4 trailing lines without coordinates (flagged), "
        "flagged lines inside, a midnight crossing and missing line numbers; reader.save(start, end) for a grid of requests "
        "(0/0, equal, first, last, last+1, beyond, start = number of valid lines, start beyond, reversed); the three HDF5 files "
        "are read back with h5py: all 15 datasets, the timestamps, the missing-line list and every time / line attribute are "
        "compared with rows of a second reader's accessors, encoded independently. A case = (pass, request); non-trivial = all")
ASSUME = ["h5py converts float64 to int16/int32 by truncation toward zero for in-range values",
          "the Coq comparison of the integer encoding allows +-1 (float product vs exact rational); the Python oracle is exact"]
TB = ["coqc 8.16.1 kernel; vm_compute decides the generated call tables", "translator/gen.py (Gen_SaveGac: call tables obtained by tracing Reader.save, save_gac, slice_channel and the HDF5 writer on tagged inputs)",
      "correspondence check_save / check_encode evaluated in Coq", "h5py read-back"]


def enc(a, scale, offset, fill, dtype):
    """value * scale (minus offset first), in the array's own float type (in-place arithmetic of save_gac), NaN -> fill,
    then conversion to the integer type by truncation toward zero."""
    a = np.array(a)
    if a.dtype.kind != "f":
        a = a.astype(float)
    if offset:
        a -= offset
    a *= scale
    a[np.isnan(a)] = fill
    return np.trunc(a).astype(dtype)


def run(res, tier, seed):
    import l1b as _l1b
    _l1b.AUTO_NOISE = 7919 * seed + 13      # random bytes in every record field the spec writer does not set
    rng = common.rng_for(seed, PROP)
    coq_sel, coq_enc = [], []
    plans = [("gac_klm", "noaa16", datetime.datetime(2003, 5, 6, 23, 59, 40)), ("gac_pod", "noaa14", datetime.datetime(2001, 5, 6, 11, 0, 0)),
             ("gac_klm", "noaa16", datetime.datetime(2002, 8, 1, 3, 0, 0))]
    plans.append(("gac_klm", "noaa16", "midnight-at-first-valid"))
    if tier == "thorough":
        plans += [("lac_klm", "noaa16", datetime.datetime(2003, 5, 6, 23, 59, 55)), ("gac_pod", "noaa14", datetime.datetime(2001, 12, 31, 23, 59, 45))]
    with common.scratch_dir() as d:
        tle_dir, tle_name = impl.make_tle_dir(d)
        for pi, (fmt, sc, start) in enumerate(plans):
            fam = l1b.FMT[fmt]["family"]
            n = 60 if l1b.FMT[fmt]["res"] == "gac" else 30
            lead, trail = rng.randrange(0, 5), rng.randrange(0, 5)
            if pi == 2:
                lead = trail = 0        # no stripped lines: a whole-pass request covers every line of the reader's arrays
            if start == "midnight-at-first-valid":
                # the UTC date changes right after the first line with valid coordinates: midnight index = first valid line
                lead = rng.randrange(0, 4)
                start = datetime.datetime(2003, 7, 8, 0, 0, 0) - datetime.timedelta(milliseconds=500 * lead + 200)
            noloc = (1 << 27) if fam == "klm" else (1 << 26)
            qual = [noloc if (i < lead or i >= n - trail) else 0 for i in range(n)]
            for i in rng.sample(range(lead + 2, n - trail - 2), 2):
                qual[i] = 1 << 31
            gaps = [(rng.randrange(8, n - 5), rng.choice([1, 3]))]
            nums = tg.line_numbers(rng, n, rng.choice([1, 4]), gaps)
            W = l1b.FMT[fmt]["width"]
            def samples(i):     # every line has its own counts: many distinct stored values (rounding cases of the integer encoding)
                out = []
                for p in range(W):
                    out += [300 + (p + 17 * i) % 200, 310 + (p + 29 * i) % 150, 500 + (7 * p + 31 * i) % 300, 600 + (p + 11 * i) % 250, 620 + (p + 41 * i) % 250]
                return out
            # the track crosses the equator and the prime meridian: negative and positive coordinates (truncation toward zero)
            lat0, lon0 = [(-0.91, -6.03), (10.0, 20.0), (-33.3, -170.2), (0.4, -0.7)][pi % 4]
            lines = l1b.default_lines(fmt, n, start, numbers=nums, counts=samples, qual=qual, switch=[i % 2 for i in range(n)],
                                      latlon=lambda i: l1b.simple_track(n, i, lat0=lat0, lon0=lon0))
            data = l1b.build_file(fmt, sc, start, lines)
            kw = dict(tle_dir=tle_dir, tle_name=tle_name, tle_thresh=40000, adjust_clock_drift=False)
            try:
                ref = impl.open_reader(fmt, data, **kw)
                lon, lat = ref.get_lonlat()
                # the reference values are the reader's public calibrated channels (float64), laid out as the six legacy images
                pub = np.asarray(ref.get_calibrated_channels(), dtype=np.float64)
                if fam == "klm":
                    chans = pub.copy()
                else:
                    chans = np.full(pub.shape[:2] + (6,), np.nan)
                    chans[:, :, [0, 1, 3, 4, 5]] = pub[:, :, [0, 1, 2, 3, 4]]
                sat_azi, sat_zen, sun_azi, sun_zen, rel_azi = ref.get_angles()
                qf = ref.get_qual_flags()
                times = tg.to_ms_array(ref.get_times())
                meta = dict(ref.meta_data)
            except Exception as e:  # noqa
                res.violations.append(("reference reader raised %r" % (e,), dict(fmt=fmt)))
                continue
            row_valid = [bool(np.any(~np.isnan(lat[i]))) for i in range(len(lat))]
            nvalid = max(i for i, v in enumerate(row_valid) if v) - min(i for i, v in enumerate(row_valid) if v) + 1
            fv = min(i for i, v in enumerate(row_valid) if v)
            reqs = [(0, 0), (0, nvalid - 1), (3, 3), (2, 10), (nvalid - 1, 0), (1, nvalid), (1, nvalid + 50), (nvalid, 0), (nvalid + 3, 0),
                    (10, 5), (rng.randrange(0, nvalid), rng.randrange(0, nvalid + 5))]
            if tier == "quick":
                reqs = reqs[:9] + [reqs[-1]]
            mid = meta.get("midnight_scanline")
            miss = [int(x) for x in meta.get("missing_scanlines", [])]
            shared = impl.open_reader(fmt, data, **kw)      # one reader serves all requests of the pass, in sequence
            for (s, e) in reqs:
                ctx = dict(fmt=fmt, spacecraft=sc, pass_start=str(start), lines=len(lat), leading_invalid=lead, trailing_invalid=trail,
                           valid_lines=nvalid, start_line=s, end_line=e, midnight=None if mid is None else int(mid), seed=seed)
                out = os.path.join(d, "out_%d_%d_%d" % (pi, s, e))
                os.makedirs(out)
                r = shared
                ctx["saves_before_on_this_reader"] = reqs.index((s, e))
                kind = 0
                try:
                    r.save(s, e, output_dir=out + "/")
                except ValueError:
                    kind = 1
                except IndexError:
                    kind = 2
                except Exception as ex:  # noqa
                    res.violations.append(("save raised %r" % (ex,), ctx))
                    continue
                res.traces += 1
                # property: a start beyond the range is rejected with ValueError
                if s >= nvalid and kind != 1:
                    res.violations.append(("start line beyond the range of valid lines was not rejected with ValueError", dict(ctx, outcome=kind)))
                if s < nvalid and kind == 1:
                    res.violations.append(("valid request rejected with ValueError", ctx))
                got_rows, gmiss, gmid = [], None, None
                if kind == 0:
                    fa = glob.glob(os.path.join(out, "*_avhrr_*.h5"))
                    fs = glob.glob(os.path.join(out, "*_sunsatangles_*.h5"))
                    fq = glob.glob(os.path.join(out, "*_qualflags_*.h5"))
                    if not (len(fa) == len(fs) == len(fq) == 1):
                        res.violations.append(("save did not write exactly three files", dict(ctx, files=os.listdir(out))))
                        continue
                    e_eff = nvalid - 1 if (e == 0 or e >= nvalid) else e
                    s_eff = min(s, nvalid - 1)
                    rows = list(range(fv + s_eff, fv + min(e_eff, nvalid - 1) + 1))
                    with h5py.File(fa[0], "r") as A, h5py.File(fs[0], "r") as S, h5py.File(fq[0], "r") as Q:
                        ts = [int(x) for x in Q["ancillary/scanline_timestamps"][:]]
                        got_rows = [times.index(t) if t in times else -1 for t in ts]
                        if got_rows != rows:
                            res.violations.append(("written rows are not the requested rows counted from the first valid latitude",
                                                   dict(ctx, written_rows=got_rows[:5] + ["..."] + got_rows[-3:], expected_rows=[rows[0], rows[-1]] if rows else [])))
                            continue
                        rr = np.array(rows, dtype=int)
                        if not rows:
                            continue
                        checks = [
                            (A["image1/data"][:], enc(chans[rr, :, 0], 100.0, 0, -32001, "int16"), "channel 1"),
                            (A["image2/data"][:], enc(chans[rr, :, 1], 100.0, 0, -32001, "int16"), "channel 2"),
                            (A["image6/data"][:], enc(chans[rr, :, 2], 100.0, 0, -32001, "int16"), "channel 3a"),
                            (A["image3/data"][:], enc(chans[rr, :, 3], 100.0, 273.15, -32001, "int16"), "channel 3b"),
                            (A["image4/data"][:], enc(chans[rr, :, 4], 100.0, 273.15, -32001, "int16"), "channel 4"),
                            (A["image5/data"][:], enc(chans[rr, :, 5], 100.0, 273.15, -32001, "int16"), "channel 5"),
                            (A["where/lat/data"][:], enc(lat[rr], 1000.0, 0, -999999, "int32"), "latitude"),
                            (A["where/lon/data"][:], enc(lon[rr], 1000.0, 0, -999999, "int32"), "longitude"),
                            (S["image1/data"][:], enc(sun_zen[rr], 100.0, 0, -32001, "int16"), "sun zenith"),
                            (S["image2/data"][:], enc(sat_zen[rr], 100.0, 0, -32001, "int16"), "satellite zenith"),
                            (S["image3/data"][:], enc(rel_azi[rr], 100.0, 0, -32001, "int16"), "relative azimuth"),
                            (S["image4/data"][:], enc(sun_azi[rr], 100.0, 0, -32001, "int16"), "sun azimuth"),
                            (S["image5/data"][:], enc(sat_azi[rr], 100.0, 0, -32001, "int16"), "satellite azimuth"),
                            (S["where/lat/data"][:], enc(lat[rr], 1000.0, 0, -999999, "int32"), "latitude (angles file)"),
                            (Q["qual_flags/data"][:], qf[rr].astype("int16"), "quality summary"),
                        ]
                        for gotd, expd, nm in checks:
                            if gotd.shape != expd.shape or not np.array_equal(gotd, expd):
                                res.violations.append(("stored dataset does not hold the selected rows in the documented encoding: " + nm,
                                                       dict(ctx, got_shape=list(gotd.shape), expected_shape=list(expd.shape))))
                                break
                        gmiss = [int(x) for x in Q["ancillary/missing_scanlines"][:]]
                        exp_miss = sorted(set([int(x) for x in qf[:fv, 0]] + miss + [int(x) for x in qf[fv + nvalid:, 0]]))
                        if gmiss != exp_miss:
                            res.violations.append(("stored missing-line list is wrong", dict(ctx, got=gmiss[:12], expected=exp_miss[:12])))
                        gm = Q["ancillary"].attrs["midnight_scanline"]
                        gm = gm.decode() if isinstance(gm, bytes) else str(gm)
                        exp_mid = None
                        if mid is not None and rows and rows[0] <= int(mid) <= rows[-1]:
                            exp_mid = int(mid) - rows[0]
                        gmid = None if gm == "None" else (int(gm) if gm.lstrip("-").isdigit() else -999)
                        if gmid != exp_mid:
                            res.violations.append(("stored midnight line does not describe the written rows", dict(ctx, stored=gm, expected=exp_mid)))
                        t0, t1 = tg.dt_of(ts[0]), tg.dt_of(ts[-1])
                        w = A["where"].attrs
                        if int(w["start_line"]) != s_eff and int(w["start_line"]) != s:
                            res.violations.append(("stored start_line attribute is wrong", dict(ctx, stored=int(w["start_line"]))))
                        if int(w["num_of_lines"]) != len(rows):
                            res.violations.append(("stored number of lines is wrong", dict(ctx, stored=int(w["num_of_lines"]))))
                        for F, nm in ((A, "avhrr"), (S, "sunsatangles")):
                            h = F["how"].attrs
                            if int(h["startepochs"]) != calendar.timegm(t0.timetuple()) or int(h["endepochs"]) != calendar.timegm(t1.timetuple()):
                                res.violations.append(("stored start / end epochs do not describe the first / last stored row", dict(ctx, file=nm)))
                            wa = F["image1/what"].attrs
                            if wa["startdate"].decode() != t0.strftime("%Y%m%d") or wa["starttime"].decode() != t0.strftime("%H%M%S") \
                                    or wa["enddate"].decode() != t1.strftime("%Y%m%d") or wa["endtime"].decode() != t1.strftime("%H%M%S"):
                                res.violations.append(("stored start / end date-time attributes do not describe the stored rows", dict(ctx, file=nm)))
                        if os.path.basename(fa[0]).split("_")[-2] != t0.strftime("%Y%m%dT%H%M%S") + str(t0.microsecond // 100000) + "Z":
                            res.violations.append(("file name start time does not describe the first stored row", dict(ctx, name=os.path.basename(fa[0]))))
                        if int(Q["qual_flags"].attrs["last_scan_line_number"]) != int(qf[-1, 0]) or \
                                int(Q["qual_flags"].attrs["total_number_of_data_records"]) != len(rows):
                            res.violations.append(("quality file line counts are wrong", ctx))
                res.add_case((fmt, str(start), s, e), True, dict(ctx, outcome=["saved", "ValueError", "IndexError"][kind]))
                # Coq: selection model
                coq_sel.append(("([%s], %d, %d, %s, %s, %s, (%d, %s, %s, %s, %d, %d))" % (
                    "; ".join(common.blit(v) for v in row_valid), s, e, "None" if mid is None else "(Some %d)" % int(mid),
                    common.zlist(miss), common.zlist([int(x) for x in qf[:, 0]]), kind, common.zlist(got_rows),
                    "None" if gmiss is None else "(Some %s)" % common.zlist(gmiss), "None" if gmid is None else "(Some %d)" % gmid,
                    s, (nvalid - 1 if (e == 0 or e >= nvalid) else e) if kind == 0 else 0), ctx))
            # encoding samples for the Coq model
            for arr, scale, off, fill, nm in ((chans[:, :, 4], 100, Fraction(27315, 100), -32001, "bt4"), (chans[:, :, 0], 100, 0, -32001, "ref1"),
                                              (lat, 1000, 0, -999999, "lat"), (sun_azi, 100, 0, -32001, "sun_azi")):
                pts = []
                flat = arr.ravel()
                for k in rng.sample(range(flat.size), 25):
                    v = float(flat[k])
                    st = int(enc(np.array([v]), float(scale), float(off), fill, "int32")[0])
                    pts.append("(%s, %d)" % ("None" if np.isnan(v) else "(Some %s)" % common.qlit(Fraction(v)), st))
                coq_enc.append("(%d, %s, %d, [%s])" % (scale, common.qlit(off), fill, "; ".join(pts)))
    failing, logs = common.coq_eval("c20_sel", "From PV Require Import M_Io.", "check_save", [c for c, _ in coq_sel], shard=20,
                                    ctype="list bool * Z * Z * option Z * list Z * list Z * (Z * list Z * option (list Z) * option Z * Z * Z)")
    res.notes["coq_selection_cases"] = len(coq_sel)
    for kind_, idx, msg in failing:
        if kind_ == "error":
            res.no_input.append("correspondence corr_C20 could not be evaluated: " + msg[-400:])
        else:
            res.no_input.append("corr_C20: selection model and save() disagree on %s" % (coq_sel[idx][1],))
    pre = "Definition check_encode1 (c : Z * Q * Z * list (option Q * Z)) : bool := let '(scale, offset, fill, pts) := c in " \
          "forallb (fun p => (Z.abs (encode scale offset fill (fst p) - snd p) <=? 1)%Z) pts.\n"
    failing, logs = common.coq_eval("c20_enc", "From PV Require Import M_Io.", "check_encode1", coq_enc, shard=10, preamble=pre,
                                    ctype="Z * Q * Z * list (option Q * Z)")
    for kind_, idx, msg in failing:
        res.no_input.append("corr_C20/encoding: " + (msg[-300:] if kind_ == "error" else "encoding model differs by more than 1 from the stored integer"))
    res.violations = res.violations[:5]
