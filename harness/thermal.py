"""Shared by C05 and C13: synthetic thermal telemetry, an independent statement of the KLM 7.1.2.4 procedure."""
import math

C1 = 1.1910427e-5
C2 = 1.4387752

IR = ("channel_3b", "channel_4", "channel_5")


def interp_idx(x, xs, fs):
    """Linear interpolation over integer positions xs (increasing) with end values held."""
    if x <= xs[0]:
        return fs[0]
    if x >= xs[-1]:
        return fs[-1]
    lo, hi = 0, len(xs) - 1
    while hi - lo > 1:
        mid = (lo + hi) // 2
        if xs[mid] <= x:
            lo = mid
        else:
            hi = mid
    x0, x1 = xs[lo], xs[hi]
    if x == x0:
        return fs[lo]
    return fs[lo] + (x - x0) * (fs[hi] - fs[lo]) / (x1 - x0)


def boxcar(x):
    L = len(x)
    w = 51 if L > 51 else 3
    h = (w - 1) // 2
    out = []
    for i in range(L):
        c = min(max(i, h), L - 1 - h)
        out.append(sum(x[c - h:c + h + 1]) / w)
    return out


def spec_bt(co, chan, lns, residue, prt, ict, space, counts_by_line):
    """KLM user's guide 7.1.2.4 as documented by pygac.  co: coefficient dict of the spacecraft (floats),
    chan 0/1/2 = 3b/4/5, residue: line numbers n with (n - residue) % 5 == 0 are PRT reset lines,
    prt/ict/space: per-line mean counts, counts_by_line: {line index: [scene counts]} -> {line index: [BT or nan]}"""
    L = len(lns)
    k = [(n - residue) % 5 for n in lns]
    d = {t: [co["thermometer_%d" % t]["d%d" % j] for j in range(5)] for t in range(1, 5)}
    p = list(prt)
    for t in range(1, 5):
        good = [i for i in range(L) if k[i] == t and p[i] > 50]
        for i in range(L):
            if k[i] == t and p[i] < 50:
                p[i] = interp_idx(i, good, [p[j] for j in good])
    tprt = [None] * L
    for i in range(L):
        if k[i] != 0:
            c = d[k[i]]
            tprt[i] = c[0] + c[1] * p[i] + c[2] * p[i] ** 2 + c[3] * p[i] ** 3 + c[4] * p[i] ** 4
    good = [i for i in range(L) if k[i] != 0]
    for i in range(L):
        if k[i] == 0:
            tprt[i] = interp_idx(i, good, [tprt[j] for j in good])
    ic, sp = list(ict), list(space)
    if chan == 0:
        good = [i for i in range(L) if ic[i] >= 100]
        ic = [ic[i] if ic[i] >= 100 else interp_idx(i, good, [ict[j] for j in good]) for i in range(L)]
        good = [i for i in range(L) if sp[i] >= 100]
        sp = [sp[i] if sp[i] >= 100 else interp_idx(i, good, [space[j] for j in good]) for i in range(L)]
    tbb, cbb, cs = boxcar(tprt), boxcar(ic), boxcar(sp)
    r = co[IR[chan]]
    A, B, nu, ns = r["to_eff_blackbody_intercept"], r["to_eff_blackbody_slope"], r["centroid_wavenumber"], r["space_radiance"]
    b0, b1, b2 = r["b0"], r["b1"], r["b2"]
    out = {}
    for i, cnts in counts_by_line.items():
        row = []
        for ce in cnts:
            try:
                tsbb = A + B * tbb[i]
                nbb = C1 * nu ** 3 / (math.exp(C2 * nu / tsbb) - 1.0)
                nlin = ns + (nbb - ns) * (cs[i] - ce) / (cs[i] - cbb[i])
                ne = nlin + b0 + b1 * nlin + b2 * nlin * nlin
                te = (C2 * nu / math.log(1.0 + C1 * nu ** 3 / ne) - A) / B
            except (ValueError, ZeroDivisionError, OverflowError):
                te = float("nan")
            if chan == 0 and ce >= cs[i]:
                te = float("nan")
            if not (170.0 <= te <= 350.0):
                te = float("nan")
            row.append(te)
        out[i] = row
    return out, (tbb, cbb, cs)


def make_telemetry(rng, lns, residue, bad_prt=0, bad_ict=0, bad_space=0, level=None):
    """Per-line (prt3, ict10[3], space10[3]) integer sums following the on-board PRT cycle."""
    L = len(lns)
    base = level or dict(prt=rng.randrange(330, 470), ict=(rng.randrange(600, 800), rng.randrange(330, 460), rng.randrange(340, 470)),
                         space=(rng.randrange(960, 1000), rng.randrange(985, 997), rng.randrange(985, 997)))
    drift = rng.choice([0.0, 0.02, -0.03])
    prt3, ict10, space10 = [], [], []
    for i, n in enumerate(lns):
        k = (n - residue) % 5
        if k == 0:
            prt3.append(rng.choice([0, 0, 3, 6, 30]))
        else:
            v = base["prt"] + 2 * k + drift * i
            prt3.append(int(round(3 * v)) + rng.randrange(-2, 3))
        ict10.append([int(round(10 * (base["ict"][c] + drift * i))) + rng.randrange(-5, 6) for c in range(3)])
        space10.append([int(round(10 * base["space"][c])) + rng.randrange(-5, 6) for c in range(3)])
    nonreset = [i for i, n in enumerate(lns) if (n - residue) % 5 != 0]
    # isolated invalid readings: never half or more of the readings of one thermometer (the cycle is located through the
    # per-thermometer median of the readings, which the invalid ones must not dominate)
    per_class = {}
    for i in rng.sample(nonreset, min(bad_prt, max(0, len(nonreset) // 6))):
        k = (lns[i] - residue) % 5
        size = sum(1 for n in lns if (n - residue) % 5 == k)
        if 2 * (per_class.get(k, 0) + 1) >= size:
            continue
        per_class[k] = per_class.get(k, 0) + 1
        prt3[i] = rng.choice([0, 12, 90, 147])
    for i in rng.sample(range(L), min(bad_ict, L // 6)):
        ict10[i][0] = rng.choice([0, 50, 990])
    for i in rng.sample(range(L), min(bad_space, L // 6)):
        space10[i][0] = rng.choice([0, 500, 999])
    return prt3, ict10, space10, base
