"""Level-1b file writer driven by the frozen format specification (/verif/spec/formats.json).

This is the *spec-side* writer: it never imports pygac and never uses numpy dtypes.  A file is written
field by field from the spec tables (name, offset, width, kind, count, stride).  Everything the
checks feed to the real readers is produced here, so the tie between a check and the code is the
actual byte stream.
"""
import datetime
import random
import json
import os

HERE = os.path.dirname(os.path.abspath(__file__))
SPEC = json.load(open(os.path.join(HERE, "..", "spec", "formats.json")))["formats"]

FMT = {  # reader family/resolution -> layout names and sizes
    "gac_klm": dict(scan="klm_gac", family="klm", res="gac", width=409, words=682, period_ms=500.0),
    "lac_klm": dict(scan="klm_lac", family="klm", res="lac", width=2048, words=3414, period_ms=1000.0 / 6),
    "gac_pod": dict(scan="pod_gac", family="pod", res="gac", width=409, words=682, period_ms=500.0),
    "lac_pod": dict(scan="pod_lac", family="pod", res="lac", width=2048, words=3414, period_ms=1000.0 / 6),
}
READER = {"gac_klm": ("pygac.gac_klm", "GACKLMReader"), "lac_klm": ("pygac.lac_klm", "LACKLMReader"),
          "gac_pod": ("pygac.gac_pod", "GACPODReader"), "lac_pod": ("pygac.lac_pod", "LACPODReader")}

KLM_SC = {"noaa15": (4, "NK"), "noaa16": (2, "NL"), "noaa17": (6, "NM"), "noaa18": (7, "NN"), "noaa19": (8, "NP"),
          "metopa": (12, "M2"), "metopb": (11, "M1"), "metopc": (13, "M3")}
POD_SC = {"tirosn": (1, "TN"), "noaa6": (2, "NA"), "noaa7": (4, "NC"), "noaa8": (6, "NE"), "noaa9": (7, "NF"),
          "noaa10": (8, "NG"), "noaa11": (1, "NH"), "noaa12": (5, "ND"), "noaa14": (3, "NJ")}


def _leafmap(layout):
    return {l["name"]: l for l in SPEC[layout]["leaves"]}


LEAVES = {k: _leafmap(k) for k in SPEC}


def put(rec, layout, name, values):
    """Write `values` (int, bytes, or list of ints) of field `name` into bytearray `rec`."""
    leaf = LEAVES[layout][name]
    w, st, cnt, kind = leaf["width"], leaf["stride"], leaf["count"], leaf["kind"]
    if kind in ("S", "f"):
        if isinstance(values, (bytes, bytearray)):
            values = [values]
        for k, v in enumerate(values):
            v = bytes(v)
            if len(v) > w:
                raise ValueError("string too long for %s" % name)
            v = v + b"\x00" * (w - len(v))
            rec[leaf["off"] + k * st: leaf["off"] + k * st + w] = v
        return
    if isinstance(values, (bytes, bytearray)):
        if st != w or len(values) != w * cnt:
            raise ValueError("raw bytes need a contiguous field of exactly that size: %s" % name)
        rec[leaf["off"]: leaf["off"] + w * cnt] = values
        return
    if isinstance(values, int):
        values = [values]
    if len(values) > cnt:
        raise ValueError("too many values for %s" % name)
    order = "big" if leaf["be"] else "little"
    signed = kind == "i"
    off = leaf["off"]
    for k, v in enumerate(values):
        rec[off + k * st: off + k * st + w] = int(v).to_bytes(w, order, signed=signed)


def get(rec, layout, name):
    """Independent decoder (Python ints) of a field from raw record bytes -> list of ints / bytes."""
    leaf = LEAVES[layout][name]
    w, st, cnt, kind = leaf["width"], leaf["stride"], leaf["count"], leaf["kind"]
    out = []
    for k in range(cnt):
        b = bytes(rec[leaf["off"] + k * st: leaf["off"] + k * st + w])
        if kind in ("S", "f"):
            out.append(b)
        else:
            out.append(int.from_bytes(b, "big" if leaf["be"] else "little", signed=(kind == "i")))
    return out


def pack_words(samples):
    """Pack 10-bit samples three per 32-bit word (bits 29-20, 19-10, 9-0) -> list of words."""
    words = []
    for i in range(0, len(samples), 3):
        tri = list(samples[i:i + 3]) + [0, 0]
        words.append(((tri[0] & 1023) << 20) | ((tri[1] & 1023) << 10) | (tri[2] & 1023))
    return words


def words_bytes(words):
    return b"".join(int(w).to_bytes(4, "big") for w in words)


def pod_time_words(year, doy, ms):
    return [(((year % 100) & 127) << 9) | (doy & 511), (ms >> 16) & 2047, ms & 0xFFFF]


def dt_fields(dt):
    """datetime -> (year, day of year, ms of day)."""
    doy = (dt.date() - datetime.date(dt.year, 1, 1)).days + 1
    ms = ((dt.hour * 60 + dt.minute) * 60 + dt.second) * 1000 + dt.microsecond // 1000
    return dt.year, doy, ms


def data_set_name(fmt, sc, start, end=None, site="NSS", block="B0000000", source="WI"):
    info = FMT[fmt]
    pid = (KLM_SC if info["family"] == "klm" else POD_SC)[sc][1]
    mode = "GHRR" if info["res"] == "gac" else "LHRR"
    end = end or start
    y, d, _ = dt_fields(start)
    return "%s.%s.%s.D%02d%03d.S%02d%02d.E%02d%02d.%s.%s" % (
        site, mode, pid, y % 100, d, start.hour, start.minute, end.hour, end.minute, block, source)


# ----------------------------------------------------------------------------------------------
# scan lines
# ----------------------------------------------------------------------------------------------

def make_scanline(fmt, line, blank=None):
    """line: dict with keys
         n (scan line number), year, doy, ms (recorded time), qual (32-bit quality word),
         lats, lons (51 ints in file units), samples (list of 5*width 10-bit samples) or words (packed),
         switch (KLM channel select 0..3), bitfield_hi (other bits of KLM scan_line_bit_field),
         prt (3 ints), ict (30 ints: KLM back_scan / POD words 23-52), space (50 ints),
         tele_words (POD: 35 raw 32-bit words, overrides prt/ict/space), extra: {field: values}
    """
    info = FMT[fmt]
    lay = info["scan"]
    if blank is None:
        blank = line.get("blank")      # per-line background bytes (noise in every field this writer does not set)
    rec = bytearray(blank) if blank is not None else bytearray(SPEC[lay]["size"])
    n = line.get("n", 1)
    if info["family"] == "klm":
        put(rec, lay, "scan_line_number", n)
        put(rec, lay, "scan_line_year", line.get("year", 2001))
        put(rec, lay, "scan_line_day_of_year", line.get("doy", 100))
        put(rec, lay, "scan_line_utc_time_of_day", line.get("ms", 0))
        put(rec, lay, "scan_line_bit_field", (line.get("bitfield_hi", 0) & 0xFFFC) | (line.get("switch", 0) & 3))
        put(rec, lay, "quality_indicator_bit_field", line.get("qual", 0))
        if "lats" in line:
            put(rec, lay, "earth_location.lats", line["lats"])
            put(rec, lay, "earth_location.lons", line["lons"])
        if "prt" in line:
            put(rec, lay, "telemetry.PRT", line["prt"])
        if "ict" in line:
            put(rec, lay, "back_scan", line["ict"])
        if "space" in line:
            put(rec, lay, "space_data", line["space"])
    else:
        put(rec, lay, "scan_line_number", n)
        if "time_words" in line:
            put(rec, lay, "time_code", line["time_words"])
        else:
            put(rec, lay, "time_code", pod_time_words(line.get("year", 1995), line.get("doy", 100), line.get("ms", 0)))
        put(rec, lay, "quality_indicators", line.get("qual", 0))
        if "lats" in line:
            put(rec, lay, "earth_location.lats", line["lats"])
            put(rec, lay, "earth_location.lons", line["lons"])
        if "tele_words" in line:
            put(rec, lay, "telemetry", line["tele_words"])
        elif "prt" in line or "ict" in line or "space" in line:
            # HRPT minor frame words 1..103 -> 10-bit samples; 0-based sample index = word-1
            s = [0] * 105
            s[17:20] = list(line.get("prt", [0, 0, 0]))
            s[22:52] = list(line.get("ict", [0] * 30))
            s[52:102] = list(line.get("space", [0] * 50))
            put(rec, lay, "telemetry", pack_words(s))
    if "words" in line:
        w = line["words"]
        put(rec, lay, "sensor_data", w if isinstance(w, (bytes, bytearray)) else words_bytes(w))
    elif "samples" in line:
        put(rec, lay, "sensor_data", words_bytes(pack_words(line["samples"])))
    for k, v in line.get("extra", {}).items():
        put(rec, lay, k, v)
    return bytes(rec)


# ----------------------------------------------------------------------------------------------
# headers
# ----------------------------------------------------------------------------------------------

def pod_header_epoch(date):
    if date < datetime.date(1992, 9, 8):
        return 1
    if date <= datetime.date(1994, 11, 15):
        return 2
    return 3


def make_pod_header(fmt, sc, start, nscans, end=None, epoch=None, name=None, extra=None):
    info = FMT[fmt]
    size = SPEC[info["scan"]]["size"]
    epoch = epoch or pod_header_epoch(start.date())
    lay = "pod_header%d" % epoch
    rec = bytearray(size)
    put(rec, lay, "noaa_spacecraft_identification_code", POD_SC[sc][0])
    put(rec, lay, "data_type_code", 2 if info["res"] == "gac" else 1)
    put(rec, lay, "start_time", pod_time_words(*dt_fields(start)))
    put(rec, lay, "number_of_scans", nscans)
    put(rec, lay, "end_time", pod_time_words(*dt_fields(end or start)))
    if name is None:
        name = data_set_name(fmt, sc, start, end)
    if isinstance(name, str):
        name = name.encode("ascii")
    w = LEAVES[lay]["data_set_name"]["width"]
    put(rec, lay, "data_set_name", name[:w].ljust(w, b" ") if len(name) <= w else name[:w])
    for k, v in (extra or {}).items():
        put(rec, lay, k, v)
    return bytes(rec)


def make_tbm_header(name=None, blank_name=False):
    rec = bytearray(SPEC["pod_tbm"]["size"])
    if blank_name:
        put(rec, "pod_tbm", "data_set_name", 42 * b"\x00" + b"  ")
    else:
        put(rec, "pod_tbm", "data_set_name", name.encode("ascii") if isinstance(name, str) else name)
    return bytes(rec)


def make_klm_header(fmt, sc, start, nscans, end=None, version=5, name=None, extra=None):
    info = FMT[fmt]
    size = SPEC[info["scan"]]["size"]
    rec = bytearray(size)
    lay = "klm_header"
    put(rec, lay, "data_set_creation_site_id", b"NSS")
    put(rec, lay, "noaa_level_1b_format_version_number", version)
    put(rec, lay, "noaa_spacecraft_identification_code", KLM_SC[sc][0])
    put(rec, lay, "data_type_code", 2 if info["res"] == "gac" else 1)
    y, d, ms = dt_fields(start)
    put(rec, lay, "start_of_data_set_year", y)
    put(rec, lay, "start_of_data_set_day_of_year", d)
    put(rec, lay, "start_of_data_set_utc_time_of_day", ms)
    ye, de, mse = dt_fields(end or start)
    put(rec, lay, "end_of_data_set_year", ye)
    put(rec, lay, "end_of_data_set_day_of_year", de)
    put(rec, lay, "end_of_data_set_utc_time_of_day", mse)
    put(rec, lay, "count_of_data_records", nscans)
    if name is None:
        name = data_set_name(fmt, sc, start, end)
    if isinstance(name, str):
        name = name.encode("ascii")
    put(rec, lay, "data_set_name", name[:42].ljust(42, b" "))
    for k, v in (extra or {}).items():
        put(rec, lay, k, v)
    return bytes(rec)


def make_ars_header(name):
    rec = bytearray(SPEC["klm_ars"]["size"])
    put(rec, "klm_ars", "data_set_name", name.encode("ascii") if isinstance(name, str) else name)
    put(rec, "klm_ars", "data_format", b"NOAA Level 1b v5    ")
    return bytes(rec)


# ----------------------------------------------------------------------------------------------
# whole files with sensible defaults
# ----------------------------------------------------------------------------------------------

def default_telemetry(i, n, phase=0, prt=400, ict=(700, 410, 420), space=(990, 990, 990)):
    """Realistic-looking telemetry for line number n: PRT cycle with reset every 5th line."""
    k = (n - phase) % 5
    p = [0, 0, 0] if k == 0 else [prt + 2 * k, prt + 2 * k, prt + 2 * k]
    ictl = [ict[j % 3] for j in range(30)]
    # space: KLM 50 words = 10 x (ch1..ch5); POD words 53-102 likewise
    spl = [(40 if j % 5 < 2 else space[j % 5 - 2]) for j in range(50)]
    return p, ictl, spl


def simple_track(nlines, i, lat0=10.0, lon0=20.0):
    """Smooth fake tie points (degrees) for line i: 51 points across, drifting along track."""
    dlat = min(0.03, 70.0 / max(nlines, 1))      # long passes stay inside the valid latitude range
    dlon = min(0.01, 100.0 / max(nlines, 1))
    lats = [lat0 + dlat * i - 0.002 * k for k in range(51)]
    lons = [lon0 + dlon * i + 0.25 * k for k in range(51)]
    return lats, lons


AUTO_NOISE = None     # set by a check (an int seed): every default_lines() call then uses record noise


def default_lines(fmt, nlines, start, sc=None, first=1, gaps=(), counts=None, qual=None, switch=None,
                  latlon=None, phase=0, numbers=None, noise=None):
    """Build a clean pass: line numbers first.. (skipping `gaps`), times from `start` at the nominal rate.
    noise: a random.Random -- every byte of a record that no field of the writer sets (embedded calibration, navigation,
    problem codes, spare words ...) is random instead of zero."""
    info = FMT[fmt]
    scale = 1e4 if info["family"] == "klm" else 128.0
    lines = []
    if noise is None and AUTO_NOISE is not None:
        noise = random.Random(AUTO_NOISE)      # same bytes for every file of one check run (twin files stay comparable)
    if numbers is None:
        numbers = []
        n = first
        while len(numbers) < nlines:
            if n not in gaps:
                numbers.append(n)
            n += 1
    for i, n in enumerate(numbers):
        t = start + datetime.timedelta(milliseconds=round((n - numbers[0]) * info["period_ms"] * 6) / 6.0)
        # millisecond of the recorded time: nearest ms
        us = (n - numbers[0]) * info["period_ms"] * 1000.0
        t = start + datetime.timedelta(microseconds=round(us / 1000.0) * 1000)
        y, d, ms = dt_fields(t)
        prt, ict, space = default_telemetry(i, n, phase)
        la, lo = (latlon(i) if latlon else simple_track(nlines, i))
        line = dict(n=n, year=y, doy=d, ms=ms, qual=(qual[i] if qual else 0),
                    lats=[int(round(v * scale)) for v in la], lons=[int(round(v * scale)) for v in lo],
                    prt=prt, ict=ict, space=space)
        if info["family"] == "klm":
            line["switch"] = switch[i] if switch else 0
        if noise is not None:
            line["blank"] = noise.randbytes(SPEC[info["scan"]]["size"])
        if counts is not None:
            c = counts(i) if callable(counts) else counts
            if isinstance(c, (bytes, bytearray)):
                line["words"] = c
            else:
                line["samples"] = c
        lines.append(line)
    return lines


def const_words(fmt, value=300):
    info = FMT[fmt]
    w = ((value & 1023) << 20) | ((value & 1023) << 10) | (value & 1023)
    return int(w).to_bytes(4, "big") * info["words"]


def build_file(fmt, sc, start, lines, archive=False, nscans=None, version=5, epoch=None, name=None,
               tail=b"", header_start=None, header_extra=None):
    info = FMT[fmt]
    hs = header_start or start
    ns = len(lines) if nscans is None else nscans
    out = b""
    if info["family"] == "klm":
        if name is None:
            name = data_set_name(fmt, sc, hs)
        if archive:
            out += make_ars_header(name)
        out += make_klm_header(fmt, sc, hs, ns, version=version, name=name, extra=header_extra)
    else:
        if name is None:
            name = data_set_name(fmt, sc, hs)
        if archive:
            out += make_tbm_header(name)
        out += make_pod_header(fmt, sc, hs, ns, epoch=epoch, name=name, extra=header_extra)
    out += b"".join(make_scanline(fmt, l) if isinstance(l, dict) else l for l in lines)
    return out + tail
