"""C05 -- thermal channels follow the documented NOAA KLM calibration procedure."""
import datetime
import json
import math

import numpy as np

import common
import impl
import l1b
import thermal

PROP = "C05"
RULE = ("calibrate_thermal called directly and through both reader families: all 17 spacecraft x channels 3b/4/5, passes of "
        "6..400 lines (incl. 50, 51, 52), first line numbers 1..5000, every PRT-cycle residue 0..4, line-number gaps, "
        "isolated invalid PRT / ICT / space readings, realistic telemetry levels with drift; scene counts sampled over "
        "0..1023 on first / interior / last lines; compared with an independent statement of KLM 7.1.2.4 (pure Python) "
        "and with the Coq model (exact smoothing, float radiance chain). A case = (spacecraft, channel, pass); "
        "non-trivial = distinct case with a gap, an invalid reading, a non-zero residue or a length != 3")
ASSUME = ["float64 vs exact arithmetic: relative 1e-9 on brightness temperatures (measured), NaN pattern exact except within 1e-6 K of 170/350 K",
          "numpy interp / convolve / median / polyval as modelled", "exp and ln of the correspondence are series approximations (1e-13)",
          "a 3b scene count within 1e-6 of the smoothed space count is not compared (the sign of a difference at rounding level decides NaN vs value)"]
TB = ["coqc 8.16.1 kernel; primitive floats (PrimFloat) only inside the correspondence files, never in a theorem",
      "translator/gen.py (Gen_Coeffs)", "correspondence check_thermal evaluated in Coq"]


def load_coeffs():
    from importlib.resources import files
    raw = json.load(open(str(files("pygac") / "data/calibration.json")))
    return {k: v for k, v in raw.items() if isinstance(v, dict) and "channel_4" in v}


def make_pass(rng, n, first=None, gaps=True):
    first = first if first is not None else rng.choice([1, 2, 3, 4, 5, 17, 5000])
    lns = []
    cur = first
    for i in range(n):
        if gaps and i and rng.random() < 0.03:
            cur += rng.choice([1, 2, 3, 7, 11])
        lns.append(cur)
        cur += 1
    return lns


def call_impl(cal, chan, lns, prt3, ict10, space10, counts, line_dtype=None):
    from pygac.calibration.noaa import calibrate_thermal
    prt = np.array(prt3, dtype=float) / 3.0
    ict = np.array([x[chan] for x in ict10], dtype=float) / 10.0
    space = np.array([x[chan] for x in space10], dtype=float) / 10.0
    try:
        out = calibrate_thermal(counts.copy(), prt, ict, space, np.array(lns) if line_dtype is None else np.array(lns).astype(line_dtype),
                                chan + 3, cal)
    except IndexError:
        return 0, None
    except ValueError:
        return 1, None
    if out.dtype == counts.dtype and np.array_equal(out, counts):
        return 2, out
    return 3, out


def run(res, tier, seed):
    import l1b as _l1b
    _l1b.AUTO_NOISE = 7919 * seed + 13      # random bytes in every record field the spec writer does not set
    rng = common.rng_for(seed, PROP)
    import warnings
    warnings.simplefilter("ignore")
    from pygac.calibration.noaa import Calibrator
    co_all = load_coeffs()
    names = sorted(co_all)
    order = list(common.gen_json()["Gen_Coeffs"]["spacecraft"].keys())
    coq = []
    maxdev = 0.0
    lengths = [6, 7, 11, 50, 51, 52, 53, 120, 400] if tier == "quick" else [6, 7, 8, 11, 25, 50, 51, 52, 53, 77, 120, 251, 400, 1000]
    plans = []
    for sc in names:
        for chan in range(3):
            for n in (rng.sample(lengths, 2) if tier == "quick" else lengths):
                plans.append((sc, chan, n))
    for sc, chan, n in plans:
        cal = Calibrator(sc)
        co = co_all[sc]
        lns = make_pass(rng, n, gaps=(n >= 12))
        residue = rng.randrange(5)
        if chan == 1 and n >= 25:
            # four lines missing right after a PRT reset line: two reset lines become neighbours in the array
            j = n // 2
            lns = lns[:j] + [x + 4 for x in lns[j:]]
            residue = lns[j - 1] % 5
        if not all(any((x - residue) % 5 == k for x in lns) for k in range(5)):
            residue = lns[0] % 5      # the pass must contain a reset line and every thermometer (documented procedure)
        nbad = rng.choice([0, 0, 1, 3]) if n >= 25 else 0   # isolated: every thermometer keeps a majority of valid readings
        prt3, ict10, space10, base = thermal.make_telemetry(rng, lns, residue, bad_prt=nbad, bad_ict=nbad if chan == 0 else 0,
                                                            bad_space=nbad if chan == 0 else 0)
        W = 12
        lines_sampled = sorted(set([0, 1, n // 2, n - 2, n - 1] + [rng.randrange(n) for _ in range(3)]))
        counts = np.zeros((n, W), dtype=float)
        for i in range(n):
            counts[i] = [rng.choice([0, 1023, rng.randrange(1024), int(space10[i][chan] / 10) + rng.choice([-3, -1, 1, 2]),
                                     int(ict10[i][chan] / 10) + rng.choice([-1, 0, 1])]) for _ in range(W)]
        counts = np.clip(counts, 0, 1023)
        ctx = dict(spacecraft=sc, channel=thermal.IR[chan], lines=n, first_line=lns[0], residue=residue, bad_readings=nbad,
                   gaps=[b - a - 1 for a, b in zip(lns, lns[1:]) if b - a > 1][:5], seed=seed)
        kind, out = call_impl(cal, chan, lns, prt3, ict10, space10, counts)
        if kind != 3:
            res.violations.append(("calibrate_thermal did not return brightness temperatures on a well-formed pass (kind %d)" % kind, dict(ctx, line_numbers=list(lns), prt_x3=list(prt3), ict_x10=[x[chan] for x in ict10], space_x10=[x[chan] for x in space10])))
            continue
        prt = [x / 3.0 for x in prt3]
        exp, smoothed = thermal.spec_bt(co, chan, lns, residue, prt, [x[chan] / 10.0 for x in ict10], [x[chan] / 10.0 for x in space10],
                                        {i: list(counts[i]) for i in lines_sampled})
        bad = None
        for i in lines_sampled:
            for p in range(W):
                g, e = float(out[i, p]), exp[i][p]
                if math.isnan(g) != math.isnan(e):
                    near = min(abs(x - b) for x in (g if not math.isnan(g) else e,) for b in (170.0, 350.0)) < 1e-6
                    # a scene count equal to the smoothed space count: the sign of a difference at rounding level decides
                    near = near or abs(float(counts[i, p]) - smoothed[2][i]) < 1e-6
                    if not near:
                        bad = dict(ctx, line_index=i, count=float(counts[i, p]), got=g, expected=e)
                elif not math.isnan(g):
                    dev = abs(g - e) / (1 + abs(e))
                    maxdev = max(maxdev, dev)
                    if dev > 1e-9:
                        bad = dict(ctx, line_index=i, count=float(counts[i, p]), got=g, expected=e)
            if bad:
                break
        if bad:
            res.violations.append(("brightness temperature differs from the documented KLM 7.1.2.4 procedure", bad))
        nontriv = bool(ctx["gaps"]) or nbad > 0 or residue != 0 or n != 3
        res.add_case((sc, chan, n, lns[0], residue, tuple(prt3[:6])), nontriv, ctx)
        if n <= 130:
            samples = []
            for i in lines_sampled:
                for p in range(0, W, 3):
                    if abs(float(counts[i, p]) - smoothed[2][i]) < 1e-6:
                        continue    # scene count equal to the smoothed space count: float rounding decides (exact in the model)
                    samples.append("(%d%%nat, %d, %s)" % (i, int(counts[i, p]), common.flit(float(out[i, p]))))
            coq.append(("(%d%%nat, %d%%nat, %s, %s, %s, %s, %d, [%s])" % (
                order.index(sc), chan, common.zpack(lns), common.zpack(prt3), common.zpack([x[chan] for x in ict10]),
                common.zpack([x[chan] for x in space10]), kind, "; ".join(samples)), ctx))
    res.notes["max_rel_dev_float_vs_spec"] = maxdev
    # ---------- special outcomes: no reset marker, 3b without valid ICT ----------
    cal = Calibrator("noaa18")
    lns = list(range(1, 61))
    prt3, ict10, space10, _ = thermal.make_telemetry(rng, lns, 0)
    k, _ = call_impl(cal, 1, lns, [1200] * 60, ict10, space10, np.full((60, 4), 500.0))
    if k != 0:
        res.violations.append(("pass without any PRT reset marker did not raise IndexError", dict(kind=k)))
    coq.append(("(%d%%nat, 1%%nat, %s, %s, %s, %s, %d, [])" % (order.index("noaa18"), common.zpack(lns), common.zpack([1200] * 60),
                                                             common.zpack([x[1] for x in ict10]), common.zpack([x[1] for x in space10]), k), dict(special="no reset marker")))
    ict0 = [[0, x[1], x[2]] for x in ict10]
    k, _ = call_impl(cal, 0, lns, prt3, ict0, space10, np.full((60, 4), 500.0))
    if k != 2:
        res.violations.append(("channel 3b without valid ICT readings did not return the counts unchanged", dict(kind=k)))
    coq.append(("(%d%%nat, 0%%nat, %s, %s, %s, %s, %d, [])" % (order.index("noaa18"), common.zpack(lns), common.zpack(prt3),
                                                             common.zpack([0] * 60), common.zpack([x[0] for x in space10]), k), dict(special="3b without ICT")))
    # ---------- through the readers ----------
    for fmt, sc, start in [("gac_klm", "noaa19", datetime.datetime(2010, 3, 4, 5, 6, 7)), ("gac_pod", "noaa12", datetime.datetime(1993, 3, 4, 5, 6, 7)),
                           ("lac_klm", "metopb", datetime.datetime(2014, 3, 4, 5, 6, 7)),
                           # spacecraft with the four-channel AVHRR/1: the fifth slot of the file is calibrated as it is, with its own telemetry
                           ("gac_pod", "noaa10", datetime.datetime(1988, 3, 4, 5, 6, 7)), ("gac_pod", "tirosn", datetime.datetime(1980, 3, 4, 5, 6, 7))]:
        n = 70
        first = rng.choice([1, 3, 1000])
        lns = make_pass(rng, n, first=first)
        residue = rng.randrange(5)
        prt3, ict10, space10, base = thermal.make_telemetry(rng, lns, residue, bad_prt=2, bad_ict=3, bad_space=3)
        W = l1b.FMT[fmt]["width"]
        fam = l1b.FMT[fmt]["family"]
        samples = []
        for p in range(W):
            samples += [300, 310, 400 + p % 500, 350 + p % 400, 360 + p % 380]
        # six flagged lines (no earth location) next to the sampled middle line: blanked themselves, their telemetry is valid and used
        noloc = (1 << 27) if l1b.FMT[fmt]["family"] == "klm" else (1 << 26)
        lines = l1b.default_lines(fmt, n, start, numbers=lns, counts=samples, switch=[0] * n,
                                  qual=[noloc if n // 2 + 3 <= i < n // 2 + 9 else 0 for i in range(n)])
        for i, l in enumerate(lines):
            a, b_ = divmod(prt3[i], 3)
            l["prt"] = [a + (1 if b_ > 0 else 0), a + (1 if b_ > 1 else 0), a]
            ic = []
            for j in range(10):
                ic += [ict10[i][c] // 10 + (1 if j < ict10[i][c] % 10 else 0) for c in range(3)]
            l["ict"] = ic
            spl = []
            for j in range(10):
                spl += [40, 40] + [space10[i][c] // 10 + (1 if j < space10[i][c] % 10 else 0) for c in range(3)]
            l["space"] = spl
        ctx = dict(reader=fmt, spacecraft=sc, first_line=first, residue=residue, seed=seed)
        try:
            r = impl.open_reader(fmt, l1b.build_file(fmt, sc, start, lines), adjust_clock_drift=False)
            ch = r.get_calibrated_channels()
        except Exception as e:  # noqa
            res.violations.append(("reader pipeline raised %r" % (e,), ctx))
            continue
        if len(r.scans) != n:
            continue
        co = co_all[sc]
        for chan in range(3):
            plane = ch[:, :, (3 + chan) if fam == "klm" else (2 + chan)]
            cols = rng.sample(range(W), 6)
            lsm = [0, n // 2, n - 1]
            exp, _ = thermal.spec_bt(co, chan, lns, residue, [x / 3.0 for x in prt3], [x[chan] / 10.0 for x in ict10],
                                     [x[chan] / 10.0 for x in space10], {i: [samples[5 * p + 2 + chan] for p in cols] for i in lsm})
            for i in lsm:
                for j, p in enumerate(cols):
                    g, e = float(plane[i, p]), exp[i][j]
                    if math.isnan(g) != math.isnan(e) or (not math.isnan(g) and abs(g - e) > 1e-7 * (1 + abs(e))):
                        res.violations.append(("reader pipeline brightness temperature differs from the documented procedure",
                                               dict(ctx, channel=thermal.IR[chan], line_index=i, pixel=p, got=g, expected=e)))
                        break
        res.add_case((fmt, sc, first, residue), True, ctx)
        res.traces += 1
    failing, logs = common.coq_eval("c05", "From PV Require Import M_ThermalCheck.", "check_thermal", [c for c, _ in coq], shard=8,
                                    ctype="nat * nat * list Z * list Z * list Z * list Z * Z * list (nat * Z * PrimFloat.float)",
                                    preamble="Require Import PrimFloat.")
    res.notes["coq_cases"] = len(coq)
    for kind_, idx, msg in failing:
        if kind_ == "error":
            res.no_input.append("correspondence corr_C05 could not be evaluated: " + msg[-400:])
        else:
            res.no_input.append("corr_C05: thermal model and calibrate_thermal disagree on %s" % (coq[idx][1],))
    res.violations = res.violations[:5]
