"""C19 -- scan-motor masking acts only inside the listed intervals, on the defined pixels."""
import datetime
from fractions import Fraction

import numpy as np

import common
import impl
import l1b
import timesgen as tg

PROP = "C19"
RULE = ("(a) gate: real readers (NOAA-14 POD; NOAA-15/16 KLM; NOAA-17/18, NOAA-12 as controls) on passes whose first/last "
        "line sits at -1 line / exactly / +1 line around the start and the end of randomly chosen listed intervals, fully "
        "inside, fully outside, straddling; (b) criterion: get_tsm_idx on random noisy 4-channel images (sizes 1x1..12x15, NaNs, "
        "sign-changing ch1-ch2, edges) against an independent numpy implementation and the exact Coq model; (c) end to end: "
        "pixels blanked by get_calibrated_channels inside an interval = the criterion's pixels, in all channels; outside: "
        "identical to the ungated result. A case = one pass or one image; non-trivial = all")
ASSUME = ["bottleneck.nanstd = NaN-ignoring population standard deviation", "decisions within 1e-6 of the variance threshold are not compared with the exact model"]
TB = ["coqc 8.16.1 kernel", "translator/gen.py (Gen_Tsm interval tables in ms, Gen_Consts ids/names)",
      "correspondence check_gate / check_tsm_idx evaluated in Coq"]


def crit_numpy(ch1, ch2, ch4, ch5):
    """Independent implementation: 3x3 NaN-ignoring population std (edges clipped) of |ch1-ch2| and 100(ch4-ch5)/ch5, both > 2."""
    with np.errstate(all="ignore"):
        d12 = np.abs(ch1 - ch2)
        d45 = 100.0 * (ch4 - ch5) / ch5
    n, m = d12.shape
    out = np.zeros((n, m), dtype=bool)
    for i in range(n):
        for j in range(m):
            w1 = d12[max(0, i - 1):i + 2, max(0, j - 1):j + 2].ravel()
            w2 = d45[max(0, i - 1):i + 2, max(0, j - 1):j + 2].ravel()
            w1, w2 = w1[~np.isnan(w1)], w2[~np.isnan(w2)]
            if w1.size and w2.size:
                out[i, j] = (np.sqrt(np.mean((w1 - w1.mean()) ** 2)) > 2.0) and (np.sqrt(np.mean((w2 - w2.mean()) ** 2)) > 2.0)
    return out


def qimg(a):
    return "[%s]" % "; ".join("[%s]" % "; ".join("None" if np.isnan(v) else "(Some %s)" % common.qlit(Fraction(float(v))) for v in row) for row in a)


def run(res, tier, seed):
    import l1b as _l1b
    _l1b.AUTO_NOISE = 7919 * seed + 13      # random bytes in every record field the spec writer does not set
    rng = common.rng_for(seed, PROP)
    from pygac.correct_tsm_issue import TSM_AFFECTED_INTERVALS_KLM, TSM_AFFECTED_INTERVALS_POD, get_tsm_idx
    # ---------- (b) criterion ----------
    crit_cases = []
    for k in range(14 if tier == "quick" else 120):
        n, m = rng.choice([(1, 1), (1, 5), (4, 1), (3, 3), (5, 7), (8, 9), (12, 15)])
        rs = np.random.RandomState(rng.randrange(2 ** 31))
        noise = rng.choice([0.5, 2.0, 6.0])
        ch1 = np.round(30 + noise * rs.randn(n, m), 3)
        ch2 = np.round(30 + noise * rs.randn(n, m) * rng.choice([0, 1]), 3)
        ch4 = np.round(280 + 3 * noise * rs.randn(n, m), 3)
        ch5 = np.round(275 + 3 * noise * rs.randn(n, m) * rng.choice([0, 1]), 3)
        for a in (ch1, ch2, ch4, ch5):
            if rng.random() < 0.5:
                a[rs.rand(n, m) < 0.15] = np.nan
        idx = get_tsm_idx(ch1.copy(), ch2.copy(), ch4.copy(), ch5.copy())
        got = np.zeros((n, m), dtype=bool)
        got[idx] = True
        exp = crit_numpy(ch1, ch2, ch4, ch5)
        if not np.array_equal(got, exp):
            ij = np.argwhere(got != exp)[0]
            res.violations.append(("flagged pixels are not those whose 3x3 standard deviations of |ch1-ch2| and 100(ch4-ch5)/ch5 both exceed 2",
                                   dict(shape=[n, m], pixel=[int(ij[0]), int(ij[1])], flagged=bool(got[tuple(ij)]), expected=bool(exp[tuple(ij)]),
                                        ch1=ch1.tolist(), ch2=ch2.tolist(), ch4=ch4.tolist(), ch5=ch5.tolist())))
        res.add_case(("img", k, n, m), True, dict(image=[n, m], flagged=int(got.sum())))
        if n * m <= 35:
            crit_cases.append("(%s, %s, %s, %s, [%s])" % (qimg(ch1), qimg(ch2), qimg(ch4), qimg(ch5),
                                                          "; ".join("[%s]" % "; ".join(common.blit(bool(b)) for b in row) for row in got)))
    # a tall image (a pass of more than 4096 lines): noise around rows 4095/4096 and elsewhere; numpy oracle only
    rs = np.random.RandomState(rng.randrange(2 ** 31))
    n_t, m_t = 4300, 6
    ch1 = np.full((n_t, m_t), 30.0)
    ch2 = np.full((n_t, m_t), 30.0)
    ch4 = np.full((n_t, m_t), 280.0)
    ch5 = np.full((n_t, m_t), 275.0)
    for r0 in (10, 2047, 2048, 4093, 4094, 4095, 4096, 4097, 4290):
        ch1[r0] = np.round(30 + 8 * rs.randn(m_t), 3)
        ch4[r0] = np.round(280 + 25 * rs.randn(m_t), 3)
    idx = get_tsm_idx(ch1.copy(), ch2.copy(), ch4.copy(), ch5.copy())
    got = np.zeros((n_t, m_t), dtype=bool)
    got[idx] = True
    rows = sorted(set(range(0, 30)) | set(range(2040, 2056)) | set(range(4085, 4105)) | set(range(4280, 4300)))
    exp_rows = crit_numpy(ch1[4080:4110], ch2[4080:4110], ch4[4080:4110], ch5[4080:4110])
    if not np.array_equal(got[4085:4105], exp_rows[5:25]):
        ij = np.argwhere(got[4085:4105] != exp_rows[5:25])[0]
        res.violations.append(("flagged pixels are not those whose 3x3 standard deviations of |ch1-ch2| and 100(ch4-ch5)/ch5 both exceed 2 (image of more than 4096 lines)",
                               dict(shape=[n_t, m_t], pixel=[int(ij[0]) + 4085, int(ij[1])], flagged=bool(got[4085 + ij[0], ij[1]]), seed=seed)))
    for lo_, hi_ in ((0, 30), (2035, 2060), (4275, 4300)):
        e_ = crit_numpy(ch1[lo_:hi_], ch2[lo_:hi_], ch4[lo_:hi_], ch5[lo_:hi_])
        a_, b_ = (0 if lo_ == 0 else 3), (hi_ - lo_ if hi_ == n_t else hi_ - lo_ - 3)
        if not np.array_equal(got[lo_ + a_:lo_ + b_], e_[a_:b_]):
            res.violations.append(("flagged pixels of a tall image differ from the criterion", dict(rows=[lo_, hi_], seed=seed)))
    if got[100:2000].any() or got[2100:4000].any():
        res.violations.append(("pixels flagged in a noise-free region of a tall image", dict(seed=seed)))
    res.add_case(("tall", n_t, m_t), True, dict(image=[n_t, m_t], flagged=int(got.sum())))
    # ---------- (a) gate through the readers, (c) end to end ----------
    gate_cases = {"klm": [], "pod": []}
    plans = []
    for sc, fmt, table, scid in (("noaa16", "gac_klm", TSM_AFFECTED_INTERVALS_KLM, 2), ("noaa15", "gac_klm", TSM_AFFECTED_INTERVALS_KLM, 4),
                                 ("noaa14", "gac_pod", TSM_AFFECTED_INTERVALS_POD, 3)):
        ivs = table[scid]
        for iv in rng.sample(ivs, 2 if tier == "quick" else 6):
            for where in ("start-1", "start", "start+1", "end-1", "end", "end+1", "inside", "before"):
                plans.append((sc, fmt, scid, iv, where))
    for sc, fmt, scid in (("noaa17", "gac_klm", 6), ("noaa18", "lac_klm", 7), ("noaa12", "gac_pod", 5)):
        iv = rng.choice(TSM_AFFECTED_INTERVALS_KLM[2])
        plans.append((sc, fmt, scid, iv, "inside"))
    # the spacecraft codes are only unique within a family: POD code 4 is NOAA-7 (KLM code 4: NOAA-15), POD code 2 is NOAA-6
    # (KLM code 2: NOAA-16) -- passes of those spacecraft inside the other family's intervals are never masked
    plans.append(("noaa7", "gac_pod", 4, rng.choice(TSM_AFFECTED_INTERVALS_KLM[4]), "inside"))
    plans.append(("noaa6", "gac_pod", 2, rng.choice(TSM_AFFECTED_INTERVALS_KLM[2]), "inside"))
    # NOAA-14 with the clock-drift correction on (real table): the gate must follow the REPORTED (corrected) times whatever
    # accessor is called first -- here the channels are requested before any coordinate
    drift_iv = [iv for iv in TSM_AFFECTED_INTERVALS_POD[3] if 1996 <= iv[0].year <= 2002]
    for iv in rng.sample(drift_iv, min(len(drift_iv), 2 if tier == "quick" else 6)):
        for where in ("start", "end", "start+1", "end-1"):
            plans.append(("noaa14", "gac_pod", 3, iv, where + "/drift"))
    # a pass that starts in one listed interval and ends in the NEXT one (a data gap of the pass spans the time between them):
    # not entirely inside one interval
    for sc, fmt, table, scid in (("noaa15", "gac_klm", TSM_AFFECTED_INTERVALS_KLM, 4), ("noaa14", "gac_pod", TSM_AFFECTED_INTERVALS_POD, 3),
                                 ("noaa16", "gac_klm", TSM_AFFECTED_INTERVALS_KLM, 2)):
        ivs = sorted(table[scid])
        pairs = [(a, b) for a, b in zip(ivs, ivs[1:]) if 60 < (b[0] - a[1]).total_seconds() < 100 * 60]
        if pairs and (tier == "thorough" or sc == "noaa14"):
            a, b = min(pairs, key=lambda ab: ab[1][0] - ab[0][1]) if tier == "quick" else rng.choice(pairs)
            plans.append((sc, fmt, scid, (a[0], a[1], b[0], b[1]), "bridge"))
    n = 24
    W_by = {}
    scratch = common.scratch_dir()
    tle_dir, tle_name = impl.make_tle_dir(scratch.__enter__())
    for sc, fmt, scid, iv, where in plans:
        drift = where.endswith("/drift")
        where = where.split("/")[0]
        kw = dict(adjust_clock_drift=drift, tle_dir=tle_dir, tle_name=tle_name, tle_thresh=40000) if drift else dict(adjust_clock_drift=False)
        fam = l1b.FMT[fmt]["family"]
        per = 500 if l1b.FMT[fmt]["res"] == "gac" else 1000 / 6.0
        span = int((n - 1) * per)
        s_ms, e_ms = tg.ms_of(iv[0]), tg.ms_of(iv[1])
        numbers = None
        if where == "bridge":
            first = e_ms - 14 * int(per)                     # the first lines lie inside the first interval ...
            n_bridge = int((tg.ms_of(iv[2]) - first) // int(per)) + 15      # ... the last ones inside the next (a long, gap-free pass)
            iv = (iv[0], iv[1])
        elif where == "start-1":
            first = s_ms - int(per)
        elif where == "start":
            first = s_ms
        elif where == "start+1":
            first = s_ms + int(per)
        elif where == "end-1":
            first = e_ms - span - int(per)
        elif where == "end":
            first = e_ms - span
        elif where == "end+1":
            first = e_ms - span + int(per)
        elif where == "inside":
            first = (s_ms + e_ms) // 2
        else:
            first = s_ms - 86400000 * 400
        W = l1b.FMT[fmt]["width"]
        rs = np.random.RandomState(rng.randrange(2 ** 31))
        samples_by_line = []
        for i in range(n):
            c = np.empty((W, 5), dtype=int)
            c[:, 0] = 300 + (rs.rand(W) * 120).astype(int)
            c[:, 1] = 300 + (rs.rand(W) * 10).astype(int)
            c[:, 2] = 500
            c[:, 3] = 500 + (rs.rand(W) * 150).astype(int)
            c[:, 4] = 520 + (rs.rand(W) * 10).astype(int)
            samples_by_line.append(c.ravel().tolist())
        start = tg.dt_of(first)
        if where == "bridge":
            lines = l1b.default_lines(fmt, n_bridge, start, counts=l1b.words_bytes(l1b.pack_words(samples_by_line[0])))
        else:
            lines = l1b.default_lines(fmt, n, start, counts=lambda i: samples_by_line[i], switch=[(i // 3) % 3 for i in range(n)],
                                      # (the line that lies outside the interval carries a fatal flag: it still belongs to the pass)
                                      qual=[(1 << 31) if (i == 5 or (i == 0 and where == "start-1") or (i == n - 1 and where == "end+1")) else 0
                                            for i in range(n)], numbers=numbers)
        ctx = dict(spacecraft=sc, fmt=fmt, interval=[str(iv[0]), str(iv[1])], position=where, first_line=str(start), lines=len(lines), seed=seed,
                   adjust_clock_drift=drift)
        try:
            r = impl.open_reader(fmt, l1b.build_file(fmt, sc, start, lines), **kw)
            if drift:   # channels first; the times the reader reports afterwards are the pass times
                ch = r.get_calibrated_channels()
                t = tg.to_ms_array(r.get_times())
                gate = bool(r.is_tsm_affected())
                ctx["clock_shift_ms"] = int(t[0] - first)
            else:
                t = tg.to_ms_array(r.get_times())
                gate = bool(r.is_tsm_affected())
                ch = r.get_calibrated_channels()
            # the ungated result of the very same pass: temporarily empty interval table
            r2 = impl.open_reader(fmt, l1b.build_file(fmt, sc, start, lines), **kw)
            r2.tsm_affected_intervals = {}
            ch0 = r2.get_calibrated_channels()
        except Exception as e:  # noqa
            res.violations.append(("pass raised %r" % (e,), ctx))
            continue
        res.traces += 1
        table = TSM_AFFECTED_INTERVALS_KLM if fam == "klm" else TSM_AFFECTED_INTERVALS_POD
        exp_gate = scid in table and any(tg.ms_of(a) <= t[0] and t[-1] <= tg.ms_of(b) for a, b in table[scid])
        if sc not in ("noaa14", "noaa15", "noaa16"):
            exp_gate = False
        if gate != exp_gate:
            res.violations.append(("scan-motor gate is not 'spacecraft listed and pass entirely inside one interval'",
                                   dict(ctx, gate=gate, expected=exp_gate, first=str(tg.dt_of(t[0])), last=str(tg.dt_of(t[-1])))))
        gate_cases[fam].append("(%d, %d, %d, %s)" % (scid, t[0], t[-1], common.blit(gate)))
        planes = (0, 1, 4, 5) if fam == "klm" else (0, 1, 3, 4)
        if not exp_gate:
            if not impl.nan_eq(ch, ch0):
                res.violations.append(("pixels altered by the scan-motor masking outside the listed intervals", dict(ctx, altered=int(np.sum(np.isnan(ch) != np.isnan(ch0))))))
        else:
            flag = crit_numpy(ch0[:, :, planes[0]], ch0[:, :, planes[1]], ch0[:, :, planes[2]], ch0[:, :, planes[3]])
            for k in range(ch.shape[2]):
                exp = ch0[:, :, k].copy()
                exp[flag] = np.nan
                if not impl.nan_eq(ch[:, :, k], exp):
                    bad = np.argwhere(~((ch[:, :, k] == exp) | (np.isnan(ch[:, :, k]) & np.isnan(exp))))
                    res.violations.append(("inside an interval the blanked pixels of a channel are not exactly the criterion's pixels",
                                           dict(ctx, channel_plane=k, differing_pixels=len(bad), criterion_pixels=int(flag.sum()))))
                    break
        res.notes["gate_true_passes"] = res.notes.get("gate_true_passes", 0) + int(gate)
        res.add_case((sc, str(iv[0]), where, drift), True, dict(ctx, gate=gate))
    scratch.__exit__(None, None, None)
    # ---------- the listed intervals are the published ones: search for a pass on which an edited table changes the gate ----------
    import json as _json
    import os as _os
    spec_tab = _json.load(open(_os.path.join(common.VERIF, "spec", "tables.json")))["tsm"]
    for sc, fmt, table, scid, fam_ in (("noaa14", "gac_pod", TSM_AFFECTED_INTERVALS_POD, 3, "pod"), ("noaa15", "gac_klm", TSM_AFFECTED_INTERVALS_KLM, 4, "klm"),
                                       ("noaa16", "gac_klm", TSM_AFFECTED_INTERVALS_KLM, 2, "klm")):
        spec_iv = [(int(a), int(b)) for a, b in spec_tab[fam_].get(str(scid), [])]
        impl_iv = [(tg.ms_of(a), tg.ms_of(b)) for a, b in table.get(scid, [])]
        if sorted(spec_iv) == sorted(impl_iv):
            continue
        cands = []
        span = (n - 1) * 500
        for a, b in set(impl_iv) ^ set(spec_iv):
            cands += [a + 1000, b - span - 1000, (a + b) // 2]
            for x, y in spec_iv + impl_iv:
                for edge in (x, y):
                    if a <= edge <= b:
                        cands += [edge - span // 2, edge - span - 500, edge + 500]
        cands = [(c, n) for c in cands]
        # long passes that bridge two neighbouring edges of the published intervals inside a changed interval
        for a, b in set(impl_iv) ^ set(spec_iv):
            edges = sorted({e for iv in spec_iv + impl_iv for e in iv if a <= e <= b})
            for e1, e2 in zip(edges, edges[1:]):
                if e2 - e1 < 1500000:
                    cands.append((e1 - 2000, (e2 - e1 + 4000) // 500 + 1))
        found = False
        for first, nl in cands:
            start = tg.dt_of(first)
            try:
                lines = l1b.default_lines(fmt, nl, start)
                r = impl.open_reader(fmt, l1b.build_file(fmt, sc, start, lines), adjust_clock_drift=False)
                t = tg.to_ms_array(r.get_times())
                gate = bool(r.is_tsm_affected())
            except Exception:  # noqa
                continue
            exp = any(a <= t[0] and t[-1] <= b for a, b in spec_iv)
            if gate != exp:
                res.violations.append(("scan-motor masking is %s for a pass that lies %s the listed (published) intervals" % (
                    "applied" if gate else "not applied", "outside" if gate else "inside one of"),
                    dict(spacecraft=sc, fmt=fmt, first=str(tg.dt_of(t[0])), last=str(tg.dt_of(t[-1])), lines=nl, seed=seed,
                         table_in_source_differs_from_published=True)))
                found = True
                break
        if not found:
            res.no_input.append("the scan-motor interval table of %s in the source differs from the published one (spec/tables.json)" % sc)
    for fam, lst in gate_cases.items():
        failing, logs = common.coq_eval("c19_gate_" + fam, "From PV Require Import M_Tsm Gen_Tsm.", "(check_gate tsm_%s)" % fam, lst, shard=200,
                                        ctype="Z * Z * Z * bool")
        for kind, idx, msg in failing:
            res.no_input.append("corr_C19/gate: " + (msg[-300:] if kind == "error" else "model and is_tsm_affected disagree on %s" % lst[idx]))
    failing, logs = common.coq_eval("c19_crit", "From PV Require Import M_Tsm.", "check_tsm_idx", crit_cases, shard=3,
                                    ctype="img * img * img * img * list (list bool)")
    res.notes["coq_images"] = len(crit_cases)
    for kind, idx, msg in failing:
        res.no_input.append("corr_C19/criterion: " + (msg[-300:] if kind == "error" else "exact model and get_tsm_idx disagree on image %d" % idx))
    res.violations = res.violations[:5]
