"""Pass generators shared by C03 (clean passes) and C08 (corrupted passes, fallback)."""
import datetime
import random
import io

import numpy as np

import impl
import l1b

EPOCH = datetime.datetime(1970, 1, 1)
NOW_YEAR = datetime.datetime.now().year


def ms_of(dt):
    d = dt - EPOCH
    return (d.days * 86400 + d.seconds) * 1000 + d.microseconds // 1000


def dt_of(ms):
    return EPOCH + datetime.timedelta(milliseconds=ms)


def fields(ms):
    return l1b.dt_fields(dt_of(ms))


def line_numbers(rng, n, first, gap_spec):
    """gap_spec: list of (position index, missing lines)."""
    nums = []
    cur = first
    gaps = dict(gap_spec)
    for i in range(n):
        if i in gaps and i > 0:
            cur += gaps[i]
        nums.append(cur)
        cur += 1
    return nums


def recorded_ms(fmt, nums, start_ms):
    """Recorded time of every line: start + (n - n0) * period, to the nearest millisecond."""
    per6 = 3000 if l1b.FMT[fmt]["res"] == "gac" else 1000          # period in 1/6 ms
    out = []
    for n in nums:
        t6 = (n - nums[0]) * per6
        out.append(start_ms + (t6 + 3) // 6)
    return out


def header_ms(fmt, nums, start_ms, reading):
    per6 = 3000 if l1b.FMT[fmt]["res"] == "gac" else 1000
    if reading == "line1":      # nominal time of scan line number 1 on the pass clock
        return start_ms - ((nums[0] - 1) * per6 + 3) // 6
    return start_ms             # time of the first line present


def clean_pass(rng, fmt, n, kind, first_forced=None):
    """Returns dict(nums, rec (ms per line), header (ms), start). kind selects where midnight / new year falls."""
    gac = l1b.FMT[fmt]["res"] == "gac"
    fam = l1b.FMT[fmt]["family"]
    per_ms = 500.0 if gac else 1000.0 / 6
    maxn = (15000 if gac else (65535 if fam == "klm" else 32767)) - 1
    first = rng.choice([1, 1, 2, 7, 30, 500, 721, 722, 3000])
    if not gac and rng.random() < 0.25:   # LAC: first lines within the 6-minute header window of the LAC rate (up to 2161)
        first = rng.choice([800, 1500, 2100, 2161])
    elif not gac and rng.random() < 0.25:   # LAC numbers use the whole 16-bit range (KLM unsigned, POD signed)
        first = rng.choice([32000, 40000, 60000]) if fam == "klm" else rng.choice([20000, 32000])
    if first_forced is not None:
        first = first_forced
    ngaps = rng.choice([0, 0, 1, 2, 4])
    gap_spec = [(rng.randrange(1, n), rng.choice([1, 2, 3, 10, 25, 200])) for _ in range(ngaps)] if n > 2 else []
    nums = line_numbers(rng, n, first, gap_spec)
    if nums[-1] > maxn:
        first, nums = 1, line_numbers(rng, n, 1, [])
    year = rng.choice([1985, 1992, 1996, 2000, 2001, 2004]) if fam == "pod" else rng.choice([1999, 2000, 2004, 2008, 2015, 2020])
    span_ms = int((nums[-1] - nums[0]) * per_ms)
    if kind == "plain":
        day = datetime.datetime(year, rng.randrange(1, 13), rng.randrange(1, 28), rng.randrange(1, 20), rng.randrange(60), rng.randrange(60))
        start = ms_of(day) + rng.randrange(1000)
    else:
        # place a day boundary at a chosen line
        if kind in ("newyear", "newyear-exact"):
            boundary = ms_of(datetime.datetime(year + 1, 1, 1))
        elif kind == "leapday":
            boundary = ms_of(datetime.datetime(2000 if fam == "klm" else 1996, 3, 1))
        else:
            boundary = ms_of(datetime.datetime(year, rng.randrange(1, 13), rng.randrange(2, 28)))
        k = rng.choice([1, 2, max(1, n // 100), n // 3, n // 2, n - 2]) if n > 3 else 1
        k = min(max(1, k), n - 1)
        off = int((nums[k] - nums[0]) * per_ms)
        if kind.endswith("exact"):
            start = boundary - round((nums[k] - nums[0]) * per_ms)     # line k falls exactly on 00:00:00.000 (GAC)
        else:
            start = boundary - off + rng.randrange(1, int(per_ms))     # boundary between line k-1 and k
    rec = recorded_ms(fmt, nums, start)
    reading = "line1" if rng.random() < 0.7 or (nums[0] - 1) * per_ms > 300000 else "firstline"
    return dict(fmt=fmt, nums=nums, rec=rec, header=header_ms(fmt, nums, start, reading), start=start, kind=kind,
                reading=reading, gaps=gap_spec)


def build(p, line_fields=None, header_fields=None):
    """Write the pass as a level-1b file. line_fields: per line (year, doy, ms) overrides (garbage injection)."""
    fmt = p["fmt"]
    fam = l1b.FMT[fmt]["family"]
    sc = "noaa18" if fam == "klm" else "noaa10"
    lines = []
    blankw = None
    noise = random.Random(l1b.AUTO_NOISE) if l1b.AUTO_NOISE is not None else None
    size = l1b.SPEC[l1b.FMT[fmt]["scan"]]["size"]
    for i, n in enumerate(p["nums"]):
        y, d, ms = fields(p["rec"][i]) if line_fields is None or line_fields[i] is None else line_fields[i]
        line = dict(n=n, year=y, doy=d, ms=ms)
        if noise is not None:       # every record field that is not part of the recorded time / line number: random bytes
            line["blank"] = noise.randbytes(size)
        lines.append(line)
    hdt = dt_of(p["header"])
    hx = header_fields
    data = l1b.build_file(fmt, sc, hdt, lines, header_extra=hx)
    return data


def read_times(fmt, data, **kw):
    r = impl.reader_class(fmt)(adjust_clock_drift=False, **kw)
    r.read("f", fileobj=io.BytesIO(data))
    t = r.get_times()
    return r, t


def to_ms_array(t):
    return [int(x) for x in np.asarray(t).astype("datetime64[ms]").astype("int64")]
