"""C11 -- scan-line-number sanitising only removes records, and only implausible ones."""
import datetime
import io

import numpy as np

import common
import impl
import l1b

PROP = "C11"
RULE = ("line-number sequences: gap-free from any first number; <50 spikes at +-499/500/501 and random; 49/50/51+ deviating "
        "lines (statistical threshold branches); out-of-range and negative (POD) numbers; zeros; duplicated numbers; "
        "POD files stored rotated; random garbage. Run through real readers on spec-written files (payload of each "
        "record = its index in the file, every byte compared) and directly through correct_scan_line_numbers on "
        "long sequences; a case = one sequence; non-trivial = distinct sequence in which at least one record is "
        "removed or the order changes, or whose length >= 50")
ASSUME = ["numpy median/mean/std/boolean indexing/roll as modelled; float decisions at exact threshold equality are not generated",
          "an all-out-of-range POD pass raises ValueError (np.amin of empty): outside the property (no surviving records)"]
TB = ["coqc 8.16.1 kernel", "Coq.Sorting.Mergesort (stdlib) for the median model",
      "harness/l1b.py spec writer; correspondence check_klm_scanno / check_pod_scanno evaluated in Coq"]


def gen_sequences(rng, tier):
    seqs = []

    def add(kind, fam, res, ns, expect=None):
        lo, hi = (-32768, 32767) if fam == "pod" else (0, 65535)   # what the field can hold
        ns = [min(hi, max(lo, x)) for x in ns]
        seqs.append(dict(kind=kind, fam=fam, res=res, ns=ns, expect=expect))

    sizes = [1, 2, 3, 8, 60, 400] + ([2500, 14000] if tier == "thorough" else [1500])
    for fam in ("klm", "pod"):
        for res in ("gac", "lac"):
            mx = 15000 if res == "gac" else 65535
            for n in sizes:
                top = min(mx, 32767 if fam == "pod" else 65535)
                first = rng.choice([1, 1, 2, 7, 300, top - n - 1 if top - n - 1 > 0 else 1])
                if first + n >= top:
                    first = 1
                base = list(range(first, first + n))
                add("gapfree", fam, res, base, expect="all")
                if n >= 8:
                    # fewer than 50 corrupted in-range entries (a strict minority), deviations at the 500 boundary
                    k = rng.randint(1, min(49, (n - 1) // 2))
                    idx = sorted(rng.sample(range(1, n), k))
                    ns = list(base)
                    for j in idx:
                        dev = rng.choice([499, 500, 501, -499, -500, -501, 3, -2, 1000, 5000, rng.randint(-mx, mx)])
                        v = base[j] + dev
                        lo = (base[0] if fam == "pod" else 0)   # POD: none below the first line's number
                        if not (lo <= v < top) or v == base[j]:
                            v = min(top - 1, base[j] + abs(dev) % 1200 + 1)
                            if v == base[j]:
                                v = base[j] - 1
                        ns[j] = v
                    add("spikes<50", fam, res, ns, expect="exact500:%d" % first)
                if n >= 8 and fam == "klm":
                    # numbering from 0 (the lowest admissible KLM number): every entry lies BELOW its 1-based position
                    base0 = list(range(0, n))
                    ns = list(base0)
                    for j in sorted(rng.sample(range(1, n), rng.randint(1, min(49, (n - 1) // 2)))):
                        v = base0[j] + rng.choice([499, 500, 501, 1000, 5000, 9000])
                        ns[j] = v if v < top else base0[j]
                    add("spikes<50-from0", fam, res, ns, expect="exact500:0")
                if n >= 400:
                    for k in (49, 50, 51, 120):
                        ns = list(base)
                        for j in rng.sample(range(1, n), k):
                            ns[j] = min(mx - 1, max(0, base[j] + rng.choice([-1, 1]) * rng.randint(1, 40)))
                        add("deviating%d-small" % k, fam, res, ns)
                        ns = list(base)
                        for j in rng.sample(range(1, n), k):
                            ns[j] = min(mx - 1, max(0, base[j] + rng.choice([-1, 1]) * rng.choice([2, 3, 600, 2000, 9000])))
                        add("deviating%d-large" % k, fam, res, ns)
                # range clause: garbage incl. out-of-range / negative
                lo = -32768 if fam == "pod" else 0
                hi = 32767 if fam == "pod" else 65535
                ns = [rng.choice([rng.randint(lo, hi), b]) for b in base]
                add("garbage", fam, res, ns)
                if n >= 8:
                    ns = list(base)
                    for j in rng.sample(range(n), max(1, n // 10)):
                        ns[j] = rng.choice([0, mx, mx - 1, hi, lo, -1])
                    add("range-edges", fam, res, ns)
                    ns = list(base)
                    j = rng.randrange(1, n)
                    ns[j] = ns[j - 1]
                    add("duplicate", fam, res, ns)
            if fam == "pod":
                for n in (7, 60, 400):
                    k = rng.randrange(1, n - 1)
                    ns = list(range(n - k + 1, n + 1)) + list(range(1, n - k + 1))
                    add("rotated", fam, res, ns)
                    ns = list(range(n - k, n)) + list(range(0, n - k))
                    add("rotated-with-zero", fam, res, ns)
                    ns = [0, 0] + list(range(1, n))
                    add("two-zeros", fam, res, ns)
                    ns = list(range(40, 40 + k)) + list(range(1, n - k))   # lowest not first, not a rotation
                    add("lowest-later", fam, res, ns)
                add("all-out-of-range", fam, res, [-5, -4, -3])
    return seqs


def run_file(fmt, ns, rng):
    """Full read path: spec-written file, each record tagged with its index (in the sensor data) and random bytes."""
    info = l1b.FMT[fmt]
    start = datetime.datetime(2002 if info["family"] == "klm" else 1989, 1, 2, 3, 4, 5)
    recs = []
    blank = bytearray(l1b.SPEC[info["scan"]]["size"])
    for i, n in enumerate(ns):
        w = l1b.words_bytes([i] + [rng.getrandbits(30) for _ in range(7)]) + bytes(4 * (info["words"] - 8))
        line = dict(n=n, year=start.year, doy=2, ms=1000 + 500 * i, words=w)
        if info["family"] == "klm":
            line["n"] = n & 0xFFFF
        recs.append(l1b.make_scanline(fmt, line))
    sc = "noaa17" if info["family"] == "klm" else "noaa10"
    data = l1b.build_file(fmt, sc, start, recs, nscans=len(ns) & 0xFFFF)
    r = impl.reader_class(fmt)(adjust_clock_drift=False)
    r.read("f", fileobj=io.BytesIO(data))
    idx = [int(x) for x in r.scans["sensor_data"][:, 0]]
    size = len(recs[0])
    for j, i in enumerate(idx):
        if r.scans[j].tobytes() != recs[i]:
            return idx, "surviving record %d is not byte-identical to file record %d" % (j, i)
    return idx, None


def run_direct(fmt, ns):
    r = impl.reader_class(fmt)()
    sc = np.zeros(len(ns), dtype=r.scanline_type)
    sc["scan_line_number"] = ns
    sc["sensor_data"][:, 0] = np.arange(len(ns))
    r.scans = sc
    r.correct_scan_line_numbers()
    return [int(x) for x in r.scans["sensor_data"][:, 0]], None


def is_subsequence(idx):
    return all(a < b for a, b in zip(idx, idx[1:]))


def run(res, tier, seed):
    rng = common.rng_for(seed, PROP)
    import time
    t0 = time.time()
    seqs = gen_sequences(rng, tier)
    coq = {"klm": [], "pod": []}
    for s in seqs:
        fam, rs, ns = s["fam"], s["res"], s["ns"]
        fmt = "%s_%s" % (rs, fam)
        mx = 15000 if rs == "gac" else 65535
        n = len(ns)
        via_file = n <= 60
        try:
            idx, err = (run_file(fmt, ns, rng) if via_file else run_direct(fmt, ns))
        except ValueError as e:
            idx, err = None, None
            # POD raises (np.amin of an empty selection) when *no* record survives the common filter: outside the
            # property, which speaks about surviving records.  Anything else is reported.
            empty = False
            if fam == "pod":
                from pygac.reader import Reader
                rr = impl.reader_class(fmt)()
                sc0 = np.zeros(n, dtype=rr.scanline_type)
                sc0["scan_line_number"] = ns
                rr.scans = sc0
                Reader.correct_scan_line_numbers(rr)
                empty = len(rr.scans) == 0
            if not empty:
                res.violations.append(("sanitising raised %r" % (e,), dict(fmt=fmt, kind=s["kind"], numbers=ns[:40], n=n)))
                continue
        except Exception as e:  # noqa
            res.violations.append(("sanitising raised %r" % (e,), dict(fmt=fmt, kind=s["kind"], numbers=ns[:40], n=n)))
            continue
        ctx = dict(fmt=fmt, kind=s["kind"], n=n, numbers=ns if n <= 80 else ns[:80] + ["..."], via="file" if via_file else "direct")
        if err:
            res.violations.append((err, ctx))
        if idx is not None:
            surv = [ns[i] for i in idx]
            # ---- oracle: the property's clauses on the implementation ----
            lo = 1 if fam == "pod" else 0
            if any(not (lo <= x < mx) for x in surv):
                res.violations.append(("surviving number outside the valid range", dict(ctx, survivors=surv[:40])))
            if len(set(idx)) != len(idx):
                res.violations.append(("a record was duplicated", dict(ctx, indices=idx[:40])))
            if fam == "klm" and not is_subsequence(idx):
                res.violations.append(("surviving records are not in file order", dict(ctx, indices=idx[:40])))
            if fam == "pod" and idx:
                k = idx.index(min(idx))
                rot = idx[k:] + idx[:k]
                if not is_subsequence(rot):
                    res.violations.append(("surviving records are not a rotation of a subsequence", dict(ctx, indices=idx[:40])))
                elif k != 0 and surv[0] != min(surv):
                    res.violations.append(("rotated, but the lowest number does not come first", dict(ctx, survivors=surv[:40])))
            if s["expect"] == "all" and idx != list(range(n)):
                res.violations.append(("gap-free pass not kept whole", dict(ctx, indices=idx[:40], removed=sorted(set(range(n)) - set(idx))[:20])))
            if s["expect"] and s["expect"].startswith("exact500"):
                first = int(s["expect"].split(":")[1])
                exp = [i for i in range(n) if abs(ns[i] - (first + i)) <= 500]
                if idx != exp:
                    diff = sorted(set(idx) ^ set(exp))[:10]
                    res.violations.append(("not exactly the records deviating by more than 500 lines were removed",
                                           dict(ctx, differing_indices=diff,
                                                detail=[(i, ns[i], first + i) for i in diff])))
        removed = idx is None or idx != list(range(n))
        res.add_case((fmt, s["kind"], hash(tuple(ns))), removed or n >= 50,
                     dict(format=fmt, kind=s["kind"], n=n, numbers=ns[:12], survivors=(idx[:12] if idx is not None else "ValueError")))
        # ---- Coq model ----
        if n <= 3000:
            if fam == "klm":
                coq["klm"].append(("(%d, %s, %s)" % (mx, common.zpack([x & 0xFFFF for x in ns]), common.npack(idx)), ctx))
            else:
                g = "None" if idx is None else "(Some %s)" % common.npack(idx)
                coq["pod"].append(("(%d, %s, %s)" % (mx, common.zpack(ns), g), ctx))
    res.notes['impl_seconds'] = round(time.time() - t0, 1)
    for fam, lst in coq.items():
        failing, logs = common.coq_eval("c11_" + fam, "From PV Require Import M_ScanNo.", "check_%s_scanno" % fam,
                                        [c for c, _ in lst], shard=25,
                                        ctype=("Z * list Z * list nat" if fam == "klm" else "Z * list Z * option (list nat)"))
        res.notes["coq_cases_" + fam] = len(lst)
        for kind, i, msg in failing:
            if kind == "error":
                res.no_input.append("correspondence corr_C11 could not be evaluated: " + msg[-300:])
            else:
                c = lst[i][1]
                res.no_input.append("corr_C11: model and implementation disagree on %s %s n=%d numbers=%s" % (c["fmt"], c["kind"], c["n"], c["numbers"][:30]))
    res.traces = len(seqs)
    res.violations = res.violations[:5]
