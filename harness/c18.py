"""C18 -- pass metadata describe the data that are returned."""
import datetime
import io
import math
import os

import numpy as np

import common
import impl
import l1b
import timesgen as tg

PROP = "C18"
RULE = ("passes (POD with real clock-drift tables: noaa14 2001, noaa11 1990, noaa9 1987; KLM; POD with correction disabled) "
        "with midnight / New Year / leap-day boundaries placed at chosen lines (incl. boundaries that the drift shift moves "
        "across), gaps and first line numbers > 1, records stored twice with as many later records absent; for each pass a random history of accessor calls (get_times, get_lonlat, "
        "create_counts_dataset, get_calibrated_channels, get_angles, save of a cut, meta read) triggers the metadata; stored metadata and "
        "dataset attrs are compared with the functions of the FINAL returned times. A case = (pass, history); non-trivial = "
        "distinct case with a day boundary inside the pass or missing lines")
ASSUME = ["Earth-Sun factor formula 1-0.0334*cos(2*pi*(jday-2)/365.25) is evaluated in Python floats for the comparison (C04 covers it)",
          "pyorbital orbit recomputation is exercised but its accuracy is irrelevant here"]
TB = ["coqc 8.16.1 kernel; vm_compute decides the finite calendar sweep (every day 1970..2100)",
      "correspondence check_meta evaluated in Coq; histories compared with P_Cache.canon_run by the harness"]

OPS = ["times", "lonlat", "dataset", "calibrated", "angles", "meta", "save", "getters", "getters"]


def factor(jday):
    return 1.0 - 0.0334 * math.cos(2.0 * math.pi * (jday - 2) / 365.25)


def doy_of_ms(ms):
    d = tg.dt_of(ms)
    return (d.date() - datetime.date(d.year, 1, 1)).days + 1


def expected_meta(times_ms, nums):
    days = [t // 86400000 for t in times_ms]
    steps = [i for i in range(len(days) - 1) if days[i + 1] - days[i] == 1]
    mid = steps[0] if len(steps) == 1 else None
    present = set(nums)
    miss = [x for x in range(1, nums[-1] + 1) if x not in present]
    return mid, miss, doy_of_ms(times_ms[0])


def do_op(r, op):
    if op == "times":
        return ("times", tg.to_ms_array(r.get_times()))
    if op == "lonlat":
        r.get_lonlat()
        return ("lonlat", None)
    if op == "dataset":
        ds = r.create_counts_dataset()
        return ("dataset", (tg.to_ms_array(ds["times"].values), ds.attrs["midnight_scanline"],
                            [int(x) for x in ds.attrs["missing_scanlines"]], float(ds.attrs["sun_earth_distance_correction_factor"])))
    if op == "calibrated":
        r.get_calibrated_channels()
        return ("calibrated", None)
    if op == "angles":
        r.get_angles()
        return ("angles", None)
    if op == "getters":   # the two public metadata functions asked directly (possibly before any coordinate was computed)
        r.get_midnight_scanline()
        r.get_sun_earth_distance_correction()
        return ("getters", None)
    if op == "save":      # writes the three legacy files for a cut of the pass; the reader's own metadata must not change
        import tempfile, shutil
        out = tempfile.mkdtemp(prefix="pv_c18_", dir=os.environ.get("VERIF_SCRATCH", "/tmp"))
        try:
            n_ = len(r.scans)
            r.save(min(5, max(0, n_ - 10)), max(0, n_ - 4), output_dir=out + "/")
        finally:
            shutil.rmtree(out, ignore_errors=True)
        return ("save", None)
    if op == "meta":
        return ("meta", dict(r.meta_data))


def run(res, tier, seed):
    import l1b as _l1b
    _l1b.AUTO_NOISE = 7919 * seed + 13      # random bytes in every record field the spec writer does not set
    rng = common.rng_for(seed, PROP)
    plans = []
    reps = 4 if tier == "quick" else 16
    for _ in range(reps):
        plans += [("gac_pod", "noaa14", 2001, True), ("gac_pod", "noaa11", 1990, True), ("lac_pod", "noaa9", 1987, True),
                  ("gac_pod", "noaa14", 2001, False), ("gac_klm", "noaa16", 2002, True), ("lac_klm", "noaa17", 2003, True),
                  ("gac_pod", "noaa10", 1989, True)]
    coq = []
    long_done = {}
    script_done = {}
    with common.scratch_dir() as d:
        tle_dir, tle_name = impl.make_tle_dir(d)
        for fmt, sc, year, drift in plans:
            fam = l1b.FMT[fmt]["family"]
            n = rng.choice([30, 90, 160]) if l1b.FMT[fmt]["res"] == "gac" else rng.choice([30, 80])
            if plans.index((fmt, sc, year, drift)) in (0, 4) and not long_done.get((fmt, sc)):
                long_done[(fmt, sc)] = True
                n = 1300          # one pass of more than 1024 lines per family
            kind = rng.choice(["midnight", "midnight", "newyear", "plain", "plain", "leapday", "day366", "twosteps"])
            scripted = None
            if drift and fam == "pod" and not script_done.get(fmt):
                # once per POD format: the metadata functions are asked BEFORE any coordinate is computed, on a pass whose
                # midnight line is moved by the clock-drift shift
                script_done[fmt] = True
                kind, scripted = "midnight", ["getters", "times", "getters", "lonlat", "getters", "dataset"]
            first = rng.choice([1, 1, 4, 25])
            gaps = [(rng.randrange(2, n - 2), rng.choice([1, 2, 6]))] if rng.random() < 0.6 else []
            # a record stored twice and a later one absent: the number of records says nothing about completeness
            repeated = rng.random() < 0.3
            if repeated and rng.random() < 0.7:
                first, gaps = 1, []
            nums = tg.line_numbers(rng, n, first, gaps)
            per = 500.0 if l1b.FMT[fmt]["res"] == "gac" else 1000.0 / 6
            k = n // 2
            if kind == "plain":
                start = tg.ms_of(datetime.datetime(year, 5, 6, 7, 8, 9)) + rng.randrange(1000)
            else:
                if kind == "newyear":
                    b = tg.ms_of(datetime.datetime(year + 1, 1, 1))
                elif kind == "day366":   # 31 December of a leap year is day 366
                    b = tg.ms_of(datetime.datetime(1989 if year < 1995 else (2001 if year < 2002 else 2005), 1, 1))
                elif kind == "leapday":
                    b = tg.ms_of(datetime.datetime(1988 if year < 1990 else (1992 if year < 2000 else 2004), 3, 1))
                else:
                    b = tg.ms_of(datetime.datetime(year, rng.randrange(2, 12), rng.randrange(2, 27)))
                k = rng.choice([1, 1, n - 1, rng.randrange(2, n - 2), rng.randrange(2, n - 2)])   # incl. right after the first / before the last line
                # boundary shortly before line k: a clock error of ~1 s then moves line k (and k+1) back across it
                start = b - int((nums[k] - nums[0]) * per) + rng.choice([100, 300, 600, 5000])
            if kind == "plain" and rng.random() < 0.5:
                start = (start // 86400000) * 86400000        # the first line exactly at 00:00:00.000 UTC
            rec = tg.recorded_ms(fmt, nums, start)
            p = dict(fmt=fmt, nums=nums, rec=rec, header=tg.header_ms(fmt, nums, start, "line1"), start=start)
            lines = []
            bad_line = rng.randrange(1, max(2, k - 3)) if kind == "twosteps" and k > 5 else None
            if kind == "day366" and rng.random() < 0.5:
                # the whole pass on day 366: first line well before midnight
                start -= 3600000
                rec = tg.recorded_ms(fmt, nums, start)
                p = dict(p, rec=rec, start=start, header=tg.header_ms(fmt, nums, start, "line1"))
            if bad_line is not None:
                p = dict(p, header=p["header"] + 2 * 3600000)     # header inconsistent: stage 2 refuses, garbage stays
            for i, nn in enumerate(nums):
                y, dd, ms = tg.fields(rec[i])
                if i == bad_line:
                    dd += 1
                prt, ict, space = l1b.default_telemetry(i, nn)
                la, lo = l1b.simple_track(n, i)
                sc_ = 1e4 if fam == "klm" else 128.0
                lines.append(dict(n=nn, year=y, doy=dd, ms=ms, prt=prt, ict=ict, space=space, words=l1b.const_words(fmt, 300),
                                  lats=[int(round(v * sc_)) for v in la], lons=[int(round(v * sc_)) for v in lo]))
            rep_at = None
            if repeated:
                j = rng.randrange(3, n - 8)
                w = rng.choice([1, 1, 2])
                lines = lines[:j + w] + [dict(l) for l in lines[j:j + w]] + lines[j + w:]   # records j..j+w-1 twice
                m = rng.randrange(j + 2 * w + 1, len(lines) - 2 - w)
                del lines[m:m + w]                                                          # w later records absent
                rep_at = (j, w, m)
            swapped = None
            if rng.random() < 0.3 and n > 12 and not repeated:
                # two neighbouring records stored in reverse order (both survive the line-number sanitising)
                j = rng.randrange(3, n - 3)
                lines[j], lines[j + 1] = lines[j + 1], lines[j]
                swapped = j
            data = l1b.build_file(fmt, sc, tg.dt_of(p["header"]), lines)
            hist = (scripted or [rng.choice(OPS) for _ in range(rng.randint(1, 5))]) + ["meta"]
            ctx = dict(fmt=fmt, spacecraft=sc, n=n, kind=kind, first=first, gaps=gaps, start=str(tg.dt_of(start)),
                       adjust_clock_drift=drift, history=hist, seed=seed, records_swapped_at=swapped,
                       records_repeated_at=rep_at)
            kw = dict(tle_dir=tle_dir, tle_name=tle_name, tle_thresh=40000, adjust_clock_drift=drift)
            try:
                r = impl.open_reader(fmt, data, **kw)
                obs = [do_op(r, op) for op in hist]
                r.get_lonlat()                      # make sure the computation was triggered, then read the final state
                final = tg.to_ms_array(r.get_times())
                meta = dict(r.meta_data)
                ref0 = tg.to_ms_array(impl.open_reader(fmt, data, **kw).get_times())
            except Exception as e:  # noqa
                import traceback
                res.violations.append(("accessor history raised %r" % (e,), dict(ctx, traceback=traceback.format_exc()[-600:])))
                continue
            res.traces += 1
            surv = [int(x) for x in r.scans["scan_line_number"]]
            mid, miss, jday = expected_meta(final, surv)
            shifted = final != ref0
            got_mid = meta.get("midnight_scanline")
            got_mid = None if got_mid is None else int(got_mid)
            got_miss = [int(x) for x in meta.get("missing_scanlines", [])]
            got_fac = float(meta.get("sun_earth_distance_correction_factor", float("nan")))
            info = dict(ctx, times_shifted_by_clock_drift=shifted, first_final_time=str(tg.dt_of(final[0])))
            if got_mid != mid:
                res.violations.append(("stored midnight scan line does not describe the returned times",
                                       dict(info, stored=got_mid, from_returned_times=mid)))
            if got_miss != miss:
                res.violations.append(("stored missing scan lines are not the absent numbers", dict(info, stored=got_miss[:20], expected=miss[:20])))
            if abs(got_fac - factor(jday)) > 1e-12:
                res.violations.append(("stored Earth-Sun factor is not that of the first returned time's day of year",
                                       dict(info, stored=got_fac, expected=factor(jday), day_of_year=jday)))
            # dataset attrs describe the dataset's own times; observations follow the canonical history
            before = False
            for (kind_o, val), op in zip(obs, hist):
                if kind_o == "times":
                    want = final if before else ref0
                    if val != want:
                        res.violations.append(("get_times() is neither the file's times (before the first coordinate computation) nor the final ones",
                                               dict(info, position=hist.index(op))))
                elif kind_o == "dataset":
                    t, m_, ms_, f_ = val
                    em, emiss, ej = expected_meta(t, surv)
                    m_ = None if m_ is None else int(m_)
                    if t != final or m_ != em or ms_ != emiss or abs(f_ - factor(ej)) > 1e-12:
                        res.violations.append(("dataset attributes do not describe the dataset's own times",
                                               dict(info, attrs_midnight=m_, from_dataset_times=em, dataset_times_final=(t == final))))
                elif kind_o == "meta" and not before and val.get("midnight_scanline", "absent") != "absent":
                    res.violations.append(("meta data present before any coordinate computation", info))
                if op not in ("times", "meta", "getters"):
                    before = True
            nontriv = mid is not None or bool(miss) or kind != "plain"
            res.add_case((fmt, sc, start, tuple(nums[:5]), tuple(hist)), nontriv,
                         dict(fmt=fmt, spacecraft=sc, kind=kind, history=hist, shifted=shifted, midnight=mid, missing=miss[:6]))
            # Coq: the functions of the final time vector
            best = min(range(1, 367), key=lambda j: abs(factor(j) - got_fac))
            jd = jday if abs(got_fac - factor(jday)) <= 1e-12 else best
            coq.append(("(%s, %s, %s, %s, %d)" % (common.zpack(final), common.zpack(surv),
                                                   "None" if got_mid is None else "(Some %d%%nat)" % got_mid,
                                                   common.zpack(got_miss), jd), ctx))
    failing, logs = common.coq_eval("c18_meta", "From PV Require Import M_Meta.", "check_meta", [c for c, _ in coq], shard=20,
                                    ctype="list Z * list Z * option nat * list Z * Z")
    res.notes["coq_cases"] = len(coq)
    for kind_, idx, msg in failing:
        if kind_ == "error":
            res.no_input.append("correspondence corr_C18 could not be evaluated: " + msg[-300:])
        else:
            res.no_input.append("corr_C18: model and implementation disagree on the metadata of %s" % (coq[idx][1],))
    res.violations = res.violations[:5]
