"""C04 -- solar channels follow the PATMOS-x calibration for every spacecraft and date."""
import datetime
import json
import math
from decimal import Decimal
from fractions import Fraction

import numpy as np

import common
import impl
import l1b

PROP = "C04"
RULE = ("calibrate_solar on all 17 spacecraft x channels 1/2/3a x ALL counts 0..1023 x a grid of dates 0..10 years after "
        "launch (first/last day of year, leap days) compared with an independent PATMOS-x implementation (float64, rel. 1e-9; "
        "exact Fractions at the counts around dark count and gain switch); np.round(g*s0, 3) compared with exact decimal "
        "rounding on all 51 rows; full reader pipeline on KLM/POD passes at several times of day (first-line date, distance "
        "factor); a case = (spacecraft, channel, date) with 1024 counts; non-trivial = all of them")
ASSUME = ["float64 evaluation agrees with exact arithmetic to 1e-9 relative (measured, reported as max_rel_dev)",
          "Decimal parsing of calibration.json gives the exact decimal coefficients"]
TB = ["coqc 8.16.1 kernel; vm_compute decides the per-row table check (51 rows); Reals axioms only in C04_corr_range",
      "translator/gen.py (Gen_Coeffs: exact decimals, launch dates)", "correspondence check_solar evaluated in Coq (exact Q)"]

GLOW = [Fraction(1, 2), Fraction(1, 2), Fraction(1, 4)]
GHIGH = [Fraction(3, 2), Fraction(3, 2), Fraction(7, 4)]
CH = ("channel_1", "channel_2", "channel_3a")


def round_half_even(x, digits):
    p = 10 ** digits
    y = x * p
    f = math.floor(y)
    r = y - f
    if r < Fraction(1, 2):
        n = f
    elif r > Fraction(1, 2):
        n = f + 1
    else:
        n = f if f % 2 == 0 else f + 1
    return Fraction(n, p)


def launch_float(dl):
    d = datetime.datetime.fromisoformat(dl.replace("Z", "+00:00")).astimezone(datetime.timezone.utc).replace(tzinfo=None)
    y = d.year
    diy = (datetime.datetime(y + 1, 1, 1) - datetime.datetime(y, 1, 1)).days
    secs = d - datetime.datetime(y, 1, 1)
    exact = Fraction(y) + Fraction(secs.days * 86400 + secs.seconds) / (diy * 86400)
    return round_half_even(exact, 5)


def spec_exact(co, ch, year, jday, corr, c):
    """PATMOS-x scaled radiance, exact; None = NaN."""
    rows = [co[k] for k in CH]
    single = all(r["gain_switch"] is None for r in rows)
    row = rows[ch]
    s0, s1, s2, d, b = [None if row[k] is None else Fraction(row[k]) for k in ("s0", "s1", "s2", "dark_count", "gain_switch")]
    t = Fraction(year) + Fraction(jday, 365) - launch_float(co["date_of_launch"])
    gl, gh = (Fraction(1), Fraction(1)) if single else (GLOW[ch], GHIGH[ch])
    sl = round_half_even(gl * s0, 3) * (100 + s1 * t + s2 * t * t) / 100
    sh = round_half_even(gh * s0, 3) * (100 + s1 * t + s2 * t * t) / 100
    if single:
        r = sl * (c - d)
    elif b is None:
        return None
    elif c <= b:
        r = sl * (c - d)
    else:
        r = sl * (b - d) + sh * (c - b)
    r = r * corr
    return None if r < 0 else r


def esd(jday):
    return 1.0 - 0.0334 * math.cos(2.0 * math.pi * (jday - 2) / 365.25)


def run(res, tier, seed):
    import l1b as _l1b
    _l1b.AUTO_NOISE = 7919 * seed + 13      # random bytes in every record field the spec writer does not set
    rng = common.rng_for(seed, PROP)
    from importlib.resources import files
    from pygac.calibration.noaa import Calibrator, calibrate_solar
    import warnings
    warnings.simplefilter("ignore")
    raw = json.loads(open(str(files("pygac") / "data/calibration.json")).read(), parse_float=Decimal)
    names = [k for k, v in raw.items() if isinstance(v, dict) and "channel_1" in v]
    gen = common.gen_json()["Gen_Coeffs"]["spacecraft"]
    order = [k for k in gen]           # index in all_coeffs (incl. skipped ones? all_coeffs lists every dict entry)
    counts = np.arange(1024, dtype=float)
    maxdev = 0.0
    coq = []
    for sc in names:
        co = raw[sc]
        if rng.random() < 0.5:
            # a run with user-supplied coefficients for this spacecraft earlier in the process must not change the defaults
            try:
                Calibrator(sc, custom_coeffs={"channel_1": {"dark_count": 1.0, "gain_switch": co["channel_1"]["gain_switch"] and 500.0,
                                                            "s0": 0.5, "s1": 0.0, "s2": 0.0}, "channel_2": dict((k, float(v) if v is not None else None) for k, v in co["channel_2"].items())})
            except Exception as e:  # noqa
                res.notes["custom_request"] = repr(e)[:200]
        cal = Calibrator(sc)
        ly = int(launch_float(co["date_of_launch"]))
        # rounding of the gains: exact decimal vs numpy on the binary product
        rows = [co[k] for k in CH]
        single = all(r["gain_switch"] is None for r in rows)
        for ch in range(3):
            for g in ((1, 1) if single else (GLOW[ch], GHIGH[ch])):
                ex = round_half_even(Fraction(g) * Fraction(rows[ch]["s0"]), 3)
                npv = float(np.round(float(g) * float(rows[ch]["s0"]), 3))
                if abs(Fraction(npv) - ex) > Fraction(1, 10 ** 9):
                    res.violations.append(("np.round(g*s0, 3) differs from the exact decimal rounding", dict(spacecraft=sc, channel=ch, numpy=npv, exact=float(ex))))
        dates = [(ly + 1, 1), (ly + 1, 365), (ly + 3, 60), (ly + 5, 183), (ly + 9, 366 if (ly + 9) % 4 == 0 else 365), (ly + 10, 1)]
        dates += [(ly + rng.randrange(1, 10), rng.randrange(1, 366)) for _ in range(2 if tier == "quick" else 12)]
        for (year, jday) in dates:
            corr = esd(jday)
            for ch in range(3):
                ctx = dict(spacecraft=sc, channel=CH[ch], year=year, jday=jday, seed=seed)
                got = calibrate_solar(counts.reshape(1, -1, 1).copy(), np.array([ch]), year, jday, cal, corr)[0, :, 0]
                # independent float implementation
                t = (year + jday / 365.0) - float(launch_float(co["date_of_launch"]))
                row = rows[ch]
                gl, gh = (1.0, 1.0) if single else (float(GLOW[ch]), float(GHIGH[ch]))
                s0, s1, s2, d = float(row["s0"]), float(row["s1"]), float(row["s2"]), float(row["dark_count"])
                al, ah = float(round_half_even(Fraction(gl) * Fraction(row["s0"]), 3)), float(round_half_even(Fraction(gh) * Fraction(row["s0"]), 3))
                sl = al * (100 + s1 * t + s2 * t * t) / 100
                sh = ah * (100 + s1 * t + s2 * t * t) / 100
                if single:
                    exp = sl * (counts - d)
                elif row["gain_switch"] is None:
                    exp = np.full(1024, np.nan)
                else:
                    b = float(row["gain_switch"])
                    exp = np.where(counts <= b, (counts - d) * sl, (b - d) * sl + (counts - b) * sh)
                exp = exp * corr
                exp = np.where(exp < 0, np.nan, exp)
                nanmis = np.isnan(exp) != np.isnan(got)
                # NaN pattern may legitimately differ only where |value| is at rounding level
                small = np.abs(np.nan_to_num(exp)) + np.abs(np.nan_to_num(got)) < 1e-9
                if np.any(nanmis & ~small):
                    k = int(np.argmax(nanmis & ~small))
                    res.violations.append(("reflectance NaN pattern differs from the PATMOS-x formula", dict(ctx, count=k, got=float(got[k]), expected=float(exp[k]))))
                ok = ~np.isnan(exp) & ~np.isnan(got)
                dev = np.abs(got[ok] - exp[ok]) / (1 + np.abs(exp[ok]))
                if dev.size and dev.max() > 1e-9:
                    k = int(np.flatnonzero(ok)[np.argmax(dev)])
                    res.violations.append(("reflectance differs from the PATMOS-x formula", dict(ctx, count=k, got=float(got[k]), expected=float(exp[k]))))
                if dev.size:
                    maxdev = max(maxdev, float(dev.max()))
                # monotone, zero at dark
                g2 = got[~np.isnan(got)]
                if t <= 10 and np.any(np.diff(g2) < -1e-12):
                    res.violations.append(("reflectance decreases with the count", ctx))
                # exact checks and Coq cases at the interesting counts
                pts = sorted(set([0, 1, 1023] + [int(d) + k for k in (-1, 0, 1)] +
                                 ([int(float(row["gain_switch"])) + k for k in (-1, 0, 1, 2)] if row["gain_switch"] is not None else []) +
                                 [rng.randrange(1024) for _ in range(3)]))
                pts = [p for p in pts if 0 <= p <= 1023]
                cq = []
                for c in pts:
                    ex = spec_exact(co, ch, year, jday, Fraction(corr), Fraction(c))
                    gv = float(got[c])
                    if (ex is None) != math.isnan(gv):
                        if not (ex is not None and abs(ex) < Fraction(1, 10 ** 9)) and not (ex is None and abs(gv) < 1e-9):
                            res.violations.append(("reflectance NaN-ness differs from the exact formula", dict(ctx, count=c, got=gv, exact=None if ex is None else float(ex))))
                        continue
                    if ex is not None and abs(Fraction(gv) - ex) > Fraction(1, 10 ** 9) * (1 + abs(ex)):
                        res.violations.append(("reflectance differs from the exact PATMOS-x value", dict(ctx, count=c, got=gv, exact=float(ex))))
                    cq.append("(%d # 1, %s)" % (c, "None" if math.isnan(gv) else "(Some %s)" % common.qlit(Fraction(gv))))
                coq.append(("(%d%%nat, %d%%nat, %d, %d, %s, [%s])" % (order.index(sc), ch, year, jday,
                                                                    common.qlit(Fraction(corr)), "; ".join(cq)), ctx))
                res.add_case((sc, ch, year, jday), True, dict(ctx, counts="0..1023"))
    res.notes["max_rel_dev_float_vs_spec"] = maxdev
    # ---------- full pipeline: first-line date and distance factor ----------
    for fmt, sc, start, *rest in [("gac_klm", "noaa18", datetime.datetime(2008, 12, 31, 23, 59, 50)), ("gac_klm", "metopa", datetime.datetime(2010, 6, 1, 13, 0, 0)),
                           ("gac_pod", "noaa14", datetime.datetime(1996, 2, 29, 11, 0, 0)), ("lac_klm", "noaa19", datetime.datetime(2012, 12, 31, 18, 0, 0)),
                           ("gac_pod", "noaa11", datetime.datetime(1990, 1, 1, 0, 0, 30)), ("gac_klm", "noaa16", datetime.datetime(2004, 12, 31, 23, 0, 0)),
                           # the first 60 lines of the pass are absent: the header start (line 1) lies on the previous UTC day
                           ("gac_klm", "noaa16", datetime.datetime(2001, 4, 11, 0, 0, 10), 61), ("gac_pod", "noaa14", datetime.datetime(1997, 1, 1, 0, 0, 5), 41),
                           # a pass of 1300 lines that crosses UTC midnight after 4 minutes: the whole pass is calibrated for the first line's date
                           ("gac_klm", "noaa16", datetime.datetime(2003, 7, 19, 23, 56, 0), 1, 1300),
                           # TIROS-N shares its spacecraft code with NOAA-11; every pass before 1982 is TIROS-N
                           ("gac_pod", "tirosn", datetime.datetime(1981, 6, 1, 10, 0, 0)), ("gac_pod", "tirosn", datetime.datetime(1981, 12, 30, 10, 0, 0)),
                           ("gac_pod", "noaa11", datetime.datetime(1988, 11, 8, 10, 0, 0))]:
        lead_first = rest[0] if rest else 1
        W = l1b.FMT[fmt]["width"]
        samples = []
        for p in range(W):
            samples += [(3 * p) % 1024, (5 * p + 100) % 1024, (7 * p + 300) % 1024, 600, 620]
        n = rest[1] if len(rest) > 1 else 40
        lines = l1b.default_lines(fmt, n, start, counts=(l1b.words_bytes(l1b.pack_words(samples)) if n > 200 else samples), switch=[1] * n, first=lead_first)
        hstart = start - datetime.timedelta(milliseconds=500 * (lead_first - 1))
        try:
            r = impl.open_reader(fmt, l1b.build_file(fmt, sc, start, lines, header_start=hstart), adjust_clock_drift=False)
            ch = r.get_calibrated_channels()
            # the reflectance depends on the count, the spacecraft and the date only: asking the same reader again (after
            # the counts and a dataset were requested in between) must give the same values
            r.get_counts()
            again = r.get_calibrated_channels()
            ds_again = r.get_calibrated_dataset()["channels"].values
            third = r.get_calibrated_channels()
        except Exception as e:  # noqa
            res.violations.append(("pipeline raised %r" % (e,), dict(fmt=fmt, spacecraft=sc)))
            continue
        for label, arr in (("second get_calibrated_channels()", again), ("get_calibrated_dataset() after two calibrations", ds_again),
                           ("third get_calibrated_channels()", third)):
            if not impl.nan_eq(arr, ch):
                dif = np.argwhere(~((arr == ch) | (np.isnan(arr) & np.isnan(ch)))) if arr.shape == ch.shape else []
                res.violations.append(("reflectances of a repeated request on the same reader differ from the first (not a function of count, spacecraft, date)",
                                       dict(fmt=fmt, spacecraft=sc, start=str(start), request=label, differing_values=int(len(dif)),
                                            first=[int(x) for x in dif[0]] if len(dif) else None)))
                break
        year, jday = start.year, (start.date() - datetime.date(start.year, 1, 1)).days + 1
        corr = esd(jday)
        co = raw[sc]
        for chn in range(3 if l1b.FMT[fmt]["family"] == "klm" else 2):   # POD: planes 0, 1 only (plane 2 is thermal)
            if co[CH[chn]]["gain_switch"] is None and not all(co[k]["gain_switch"] is None for k in CH):
                continue
            for p in rng.sample(range(W), 12):
                c = samples[5 * p + chn]
                ex = spec_exact(co, chn, year, jday, Fraction(corr), Fraction(c))
                for li in (0, n // 2, n - 1):
                    gv = float(ch[li, p, chn])
                    if (ex is None) != math.isnan(gv) or (ex is not None and abs(Fraction(gv) - ex) > Fraction(1, 10 ** 8) * (1 + abs(ex))):
                        res.violations.append(("pipeline reflectance is not PATMOS-x at the first line's date with the first line's distance factor",
                                               dict(fmt=fmt, spacecraft=sc, channel=CH[chn], start=str(start), line=li, pixel=p, count=c, got=gv,
                                                    expected=None if ex is None else float(ex))))
                        break
        res.add_case((fmt, sc, str(start)), True, dict(pipeline=fmt, spacecraft=sc, start=str(start)))
        res.traces += 1
    # index of each spacecraft in all_coeffs: the generated list keeps the file's order of dict entries
    failing, logs = common.coq_eval("c04", "From PV Require Import Gen_Coeffs M_Solar.", "check_solar", [c for c, _ in coq], shard=60,
                                    ctype="nat * nat * Z * Z * Q * list (Q * option Q)")
    res.notes["coq_cases"] = len(coq)
    for kind, idx, msg in failing:
        if kind == "error":
            res.no_input.append("correspondence corr_C04 could not be evaluated: " + msg[-300:])
        else:
            res.no_input.append("corr_C04: exact model and calibrate_solar disagree on %s" % (coq[idx][1],))
    res.violations = res.violations[:5]
