"""C02 -- earth-view and telemetry counts are the format's 10-bit samples."""
import datetime
from fractions import Fraction

import numpy as np

import common
import impl
import l1b

PROP = "C02"
RULE = ("real readers (4 formats) on spec-written files whose video and telemetry words are random 32-bit patterns "
        "(top bits set), walking single bits, all-ones; KLM channel-select 0..3 with other bit-field bits random; "
        "a case = one scan line; all lines are checked by the Python oracle (independent bit extraction from the raw "
        "bytes), a subset is evaluated by the Coq model; non-trivial = distinct (format, line word pattern) with at "
        "least 3 distinct sample values; plus one full-size pass per family (2100 / 4400 lines) compared as a whole array")
ASSUME = ["numpy >>, &, strided assignment, reshape and mean as modelled", "float64 holds 10-bit counts exactly"]
TB = ["coqc 8.16.1 kernel", "harness/l1b.py spec writer + correspondence (in-Coq comparison: check_klm_counts, "
      "check_pod_counts, check_klm_tele, check_pod_tele)"]


def line_words(rng, nwords, kind):
    if kind == "random":
        return [rng.getrandbits(32) for _ in range(nwords)]
    if kind == "walk":
        s = rng.randrange(32)
        return [1 << ((i + s) % 32) for i in range(nwords)]
    if kind == "ones":
        return [0xFFFFFFFF] * nwords
    if kind == "ramp":
        return l1b.pack_words([(7 * i + 3) % 1024 for i in range(3 * nwords)])
    if kind == "topbits":
        return [(rng.getrandbits(30)) | (rng.choice([1, 2, 3]) << 30) for _ in range(nwords)]
    if kind == "dropouts":  # telemetry drop-outs: some samples read 0 (or full scale), the others keep a plausible level
        lvl = rng.randrange(300, 1000)
        smp = [rng.choice([0, 0, 1023, lvl, lvl + 1, lvl - 3]) for _ in range(3 * nwords)]
        return l1b.pack_words(smp)
    raise ValueError(kind)


def spec_sample(words, k):
    return (words[k // 3] >> (20 - 10 * (k % 3))) & 1023


def frac_mean(xs):
    return Fraction(sum(xs), len(xs))


def qtriple(p, i, s):
    return "(%s, [%s], [%s])" % (common.qlit(p), "; ".join(common.qlit(x) for x in i), "; ".join(common.qlit(x) for x in s))


def run(res, tier, seed):
    import l1b as _l1b
    _l1b.AUTO_NOISE = 7919 * seed + 13      # random bytes in every record field the spec writer does not set
    rng = common.rng_for(seed, PROP)
    plans = [("gac_klm", "noaa18", 14, 3), ("gac_pod", "noaa11", 14, 3), ("lac_klm", "metopb", 6, 1), ("lac_pod", "noaa14", 6, 1)]
    if tier == "thorough":
        plans = [(f, s, n * 6, k * 5) for f, s, n, k in plans]
    coq = {"klm_counts": [], "pod_counts": [], "klm_tele": [], "pod_tele": []}
    for fmt, sc, n, ncoq in plans:
        info = l1b.FMT[fmt]
        fam, W, NW = info["family"], info["width"], info["words"]
        start = datetime.datetime(2003 if fam == "klm" else 1991, 5, 6, 7, 8, 9)
        kinds = ["random", "walk", "ones", "ramp", "topbits", "dropouts"]
        lines = l1b.default_lines(fmt, n, start, first=rng.choice([1, 5, 100]))
        truth = []
        for i, line in enumerate(lines):
            kind = kinds[i % len(kinds)] if i < 2 * len(kinds) else "random"
            words = line_words(rng, NW, kind)
            line["words"] = l1b.words_bytes(words)
            if i % 5 == 2:      # quality flags do not change what the counts of a line are
                line["qual"] = rng.choice([1 << 31, 1 << 28, 1 << 27, 1 << 30] if fam == "klm" else [1 << 31, 1 << 27, 1 << 26, 1 << 30])
            if fam == "klm":
                line["switch"] = i % 4 if i < 8 else rng.randrange(4)
                if i == n - 1:
                    line["switch"] = 0     # first and last line select 3b, lines in between select anything: routing is per line
                line["bitfield_hi"] = rng.getrandbits(16)
                line["prt"] = [rng.randrange(65536) for _ in range(3)]
                line["ict"] = [rng.randrange(65536) for _ in range(30)]
                line["space"] = [rng.randrange(65536) for _ in range(50)]
                if i % 3 == 1:  # drop-outs: some (not all) of the ten words of a channel read 0 / full scale
                    for key in ("prt", "ict", "space"):
                        line[key] = [rng.choice([0, 0, 1023, v % 1024]) for v in line[key]]
                tw = None
            else:
                tw = line_words(rng, 35, kinds[(i + 1) % len(kinds)] if i < 12 else rng.choice(["random", "dropouts"]))
                line["tele_words"] = tw
                line.pop("prt", None)
            truth.append((words, tw, kind))
        data = l1b.build_file(fmt, sc, start, lines)
        r = impl.open_reader(fmt, data, adjust_clock_drift=False)
        if len(r.scans) != n:
            res.violations.append(("reader dropped lines of a clean pass", dict(fmt=fmt, n=n, got=len(r.scans))))
            continue
        counts = r.get_counts()
        prt, ict, space = r.get_telemetry()
        ds = r.create_counts_dataset()
        dsc = ds["channels"].values
        if not (impl.nan_eq(dsc, counts) and impl.nan_eq(ds["prt_counts"].values, prt)
                and impl.nan_eq(ds["ict_counts"].values, ict) and impl.nan_eq(ds["space_counts"].values, space)):
            res.violations.append(("dataset variables differ from get_counts/get_telemetry", dict(fmt=fmt, seed=seed)))
        res.traces += 1
        # the counts must still be the samples after the same reader has produced calibrated products
        try:
            import warnings as _w
            with _w.catch_warnings():
                _w.simplefilter("ignore")
                r.get_calibrated_channels()
            again = r.get_counts()
            if not (impl.nan_eq(again, counts) and impl.nan_eq(dsc, counts)):
                bad_ = np.argwhere(~((again == counts) | (np.isnan(again) & np.isnan(counts))))
                res.violations.append(("get_counts() after get_calibrated_channels() on the same reader no longer returns the packed samples",
                                       dict(fmt=fmt, spacecraft=sc, lines=n, differing_values=int(len(bad_)),
                                            first=[int(x) for x in bad_[0]] if len(bad_) else None, seed=seed)))
        except Exception as e:  # noqa
            res.notes["calibration_after_counts"] = repr(e)[:200]
        for i, line in enumerate(lines):
            words, tw, kind = truth[i]
            got = counts[i]
            if not np.all(got == np.floor(got)):
                res.violations.append(("non-integral count", dict(fmt=fmt, line=i)))
                continue
            goti = got.astype(np.int64)
            # ---------- oracle: independent extraction with Python ints ----------
            bad = None
            sw = line.get("switch")
            for p in (range(W) if W == 409 or i < 2 else rng.sample(range(W), 300)):
                s = [spec_sample(words, 5 * p + c) for c in range(5)]
                if fam == "klm":
                    exp = [s[0], s[1], s[2] if sw == 1 else 0, s[2] if sw == 0 else 0, s[3], s[4]]
                else:
                    exp = s
                if list(goti[p]) != exp:
                    bad = dict(fmt=fmt, spacecraft=sc, line_index=i, pixel=p, expected=exp, got=[int(x) for x in goti[p]],
                               switch=sw, words=[hex(w) for w in words[(5 * p) // 3:(5 * p + 4) // 3 + 1]], pattern=kind)
                    break
            if bad:
                res.violations.append(("count is not the format's 10-bit sample 5p+c", bad))
            if fam == "klm":
                e_prt = frac_mean(line["prt"])
                e_ict = [frac_mean(line["ict"][j::3]) for j in range(3)]
                e_sp = [frac_mean(line["space"][2 + j::5]) for j in range(3)]
            else:
                smp = [spec_sample(tw, k) for k in range(105)]
                e_prt = frac_mean(smp[17:20])                                     # frame words 18-20
                e_ict = [frac_mean([smp[22 + j + 3 * t] for t in range(10)]) for j in range(3)]   # words 23-52
                e_sp = [frac_mean([smp[52 + 2 + j + 5 * t] for t in range(10)]) for j in range(3)]  # words 53-102
            g = [float(prt[i])] + [float(x) for x in ict[i]] + [float(x) for x in space[i]]
            e = [e_prt] + e_ict + e_sp
            if any(abs(Fraction(a) - b) > Fraction(1, 10**9) for a, b in zip(g, e)):
                res.violations.append(("telemetry count is not the mean of the designated words",
                                       dict(fmt=fmt, spacecraft=sc, line_index=i, got=g, expected=[float(x) for x in e],
                                            tele_words=[hex(w) for w in tw] if tw else None)))
            distinct = len(set(int(x) for x in goti.ravel()[:600]))
            res.add_case((fmt, kind, hash(bytes(line["words"][:64]))), distinct >= 3,
                         dict(format=fmt, line_index=i, pattern=kind, switch=sw, first_words=[hex(w) for w in words[:3]]))
            # ---------- Coq model on a subset ----------
            if i < ncoq or (i < 2 * len(kinds) and tier == "thorough"):
                rows = common.zpack(goti.ravel().tolist())
                if fam == "klm":
                    bf = (line["bitfield_hi"] & 0xFFFC) | (sw & 3)
                    coq["klm_counts"].append(("(Z.to_nat %d, %d, %s, %s)" % (W, bf, common.zpack(words), rows), (fmt, i)))
                else:
                    coq["pod_counts"].append(("(Z.to_nat %d, %s, %s)" % (W, common.zpack(words), rows), (fmt, i)))
            gq = qtriple(Fraction(float(prt[i])), [Fraction(float(x)) for x in ict[i]], [Fraction(float(x)) for x in space[i]])
            if fam == "klm":
                coq["klm_tele"].append(("(%s, %s, %s, %s)" % (common.zlist(line["prt"]), common.zlist(line["ict"]),
                                                                common.zlist(line["space"]), gq), (fmt, i)))
            else:
                coq["pod_tele"].append(("(%s, %s)" % (common.zlist(tw), gq), (fmt, i)))
    # ---------- KLM passes without a single 3b line (all 3a / 3a and transition): the telemetry of all three thermal views is still the file's ----------
    for fmt, sc, swset in (("gac_klm", "noaa17", (1,)), ("lac_klm", "metopa", (1, 2)), ("gac_klm", "noaa18", (1, 2, 3))):
        n = 9
        start = datetime.datetime(2005, 6, 7, 8, 9, 10)
        lines = l1b.default_lines(fmt, n, start, switch=[swset[i % len(swset)] for i in range(n)])
        for ln in lines:
            ln["prt"] = [rng.randrange(1024) for _ in range(3)]
            ln["ict"] = [rng.randrange(200, 1024) for _ in range(30)]
            ln["space"] = [rng.randrange(200, 1024) for _ in range(50)]
        r = impl.open_reader(fmt, l1b.build_file(fmt, sc, start, lines), adjust_clock_drift=False)
        prt, ict, space = r.get_telemetry()
        ds = r.create_counts_dataset()
        ctx = dict(fmt=fmt, spacecraft=sc, channel_select_values=list(swset), seed=seed)
        for i, ln in enumerate(lines):
            e = [frac_mean(ln["prt"])] + [frac_mean(ln["ict"][j::3]) for j in range(3)] + [frac_mean(ln["space"][2 + j::5]) for j in range(3)]
            g = [float(prt[i])] + [float(x) for x in ict[i]] + [float(x) for x in space[i]]
            gd = [float(ds["prt_counts"].values[i])] + [float(x) for x in ds["ict_counts"].values[i]] + [float(x) for x in ds["space_counts"].values[i]]
            if any(abs(Fraction(a) - b) > Fraction(1, 10**9) for a, b in zip(g, e)) or g != gd:
                res.violations.append(("telemetry count is not the mean of the designated words (pass without a 3b line)",
                                       dict(ctx, line_index=i, got=g, dataset=gd, expected=[float(x) for x in e])))
                break
        res.add_case(("no3b", fmt, swset), True, ctx)
        res.traces += 1
    # ---------- long passes (whole-array oracle in numpy from the raw words): every line of a full-size pass ----------
    for fmt, sc in (("gac_klm", "noaa19"), ("gac_pod", "noaa12")):
        info = l1b.FMT[fmt]
        fam, W, NW = info["family"], info["width"], info["words"]
        n = 2100 if tier == "quick" else 4400   # more than 2048 lines and not a multiple of it
        rs = np.random.RandomState(rng.randrange(2 ** 31))
        words = rs.randint(0, 2 ** 32, size=(n, NW), dtype=np.uint64).astype(np.uint32)
        sws = rs.randint(0, 2, size=n)
        sws[0] = sws[-1] = 1               # 3a at both ends, both settings in between
        start = datetime.datetime(2004 if fam == "klm" else 1993, 2, 3, 4, 5, 6)
        lines = l1b.default_lines(fmt, n, start, counts=lambda i: words[i].astype(">u4").tobytes(), switch=[int(x) for x in sws])
        ictw = rs.randint(0, 1024, size=(n, 30))
        spw = rs.randint(0, 1024, size=(n, 50))
        for i, ln in enumerate(lines):
            if fam == "klm":
                ln["ict"], ln["space"] = [int(x) for x in ictw[i]], [int(x) for x in spw[i]]
        r = impl.open_reader(fmt, l1b.build_file(fmt, sc, start, lines), adjust_clock_drift=False)
        got = r.get_counts()
        k = np.arange(5 * W)
        smp = ((words[:, k // 3].astype(np.int64) >> (20 - 10 * (k % 3))) & 1023).reshape(n, W, 5)
        if fam == "klm":
            exp = np.zeros((n, W, 6), dtype=np.int64)
            exp[:, :, 0], exp[:, :, 1], exp[:, :, 4], exp[:, :, 5] = smp[:, :, 0], smp[:, :, 1], smp[:, :, 3], smp[:, :, 4]
            exp[:, :, 2] = np.where(sws[:, None] == 1, smp[:, :, 2], 0)
            exp[:, :, 3] = np.where(sws[:, None] == 0, smp[:, :, 2], 0)
        else:
            exp = smp
        ctx = dict(fmt=fmt, spacecraft=sc, lines=n, seed=seed)
        if got.shape != exp.shape or not np.array_equal(got, exp):
            badl = sorted(set(np.argwhere(got != exp)[:, 0].tolist())) if got.shape == exp.shape else []
            res.violations.append(("count is not the format's 10-bit sample 5p+c (long pass)",
                                   dict(ctx, lines_affected=len(badl), first_lines=badl[:5], shape=list(got.shape))))
        if fam == "klm":
            prt, ict, space = r.get_telemetry()
            e_ict = ictw.reshape(n, 10, 3).mean(axis=1)
            e_sp = spw.reshape(n, 10, 5)[:, :, 2:].mean(axis=1)
            if not (np.allclose(ict, e_ict, rtol=0, atol=1e-9) and np.allclose(space, e_sp, rtol=0, atol=1e-9)):
                res.violations.append(("telemetry count is not the mean of the designated words (long pass)", ctx))
        res.add_case(("long", fmt, n), True, dict(ctx, kind="long pass, whole-array comparison"))
        res.traces += 1
    for key, lst in coq.items():
        if not lst:
            continue
        failing, logs = common.coq_eval("c02_" + key, "From PV Require Import M_Counts.", "check_" + key,
                                        [c for c, _ in lst], shard=(4 if "counts" in key else 200))
        res.notes["coq_cases_" + key] = len(lst)
        for kind, idx, msg in failing:
            if kind == "error":
                res.no_input.append("correspondence corr_C02/%s could not be evaluated: %s" % (key, msg[-300:]))
            else:
                res.no_input.append("corr_C02/%s: model and implementation disagree on %s line %d" % ((key,) + lst[idx][1]))
    res.violations = res.violations[:5]
