"""C13 -- brightness temperatures behave physically: monotone, anchored, phase-free."""
import json
import math

import numpy as np

import common
import impl
import thermal
from c05 import load_coeffs, call_impl

PROP = "C13"
RULE = ("calibrate_thermal on all 17 spacecraft x 3 thermal channels: passes of 60..200 lines with telemetry in the operating "
        "range (target 285..305 K, the four thermometers at equal or different temperatures, passes of 52..120 lines, C_S 950..1000, C_BB from the target temperature), ALL counts 0..1023 on sampled lines "
        "(monotonicity), count = smoothed target count (anchor), five starting phases of one underlying line stream "
        "(phase-freedom, lines further than 25 from either end), permuted pixels (locality); the anchor also through the KLM readers on "
        "passes where channel 3a is active for the middle third (its calibration views then read low counts). A case = (spacecraft, "
        "channel, telemetry level); non-trivial = all")
ASSUME = ["the anchor is checked on target/space counts constant along the pass and each thermometer constant (the four may differ): the expected target temperature is the mean of the four PRT polynomial values",
          "float64 monotonicity is checked with a 1e-9 K slack"]
TB = ["coqc 8.16.1 kernel; coq-interval (Bignums: PrimInt63/Uint63 primitives and their spec axioms) for the 51 anchor bounds; "
      "Reals axioms (sig_forall_dec, sig_not_dec, functional_extensionality_dep, classic)",
      "translator/gen.py (Gen_Coeffs)", "correspondence check_thermal evaluated in Coq (shared with C05)"]


def prt_for_temperature(co, k, target):
    """Integer PRT count (x3) whose polynomial value for thermometer k is close to the target temperature."""
    d = [co["thermometer_%d" % k]["d%d" % j] for j in range(5)]
    best = min(range(600, 2400), key=lambda s: abs(sum(d[j] * (s / 3.0) ** j for j in range(5)) - target))
    return best, sum(d[j] * (best / 3.0) ** j for j in range(5))


def run(res, tier, seed):
    import l1b as _l1b
    _l1b.AUTO_NOISE = 7919 * seed + 13      # random bytes in every record field the spec writer does not set
    rng = common.rng_for(seed, PROP)
    import warnings
    warnings.simplefilter("ignore")
    from pygac.calibration.noaa import Calibrator
    co_all = load_coeffs()
    order = list(common.gen_json()["Gen_Coeffs"]["spacecraft"].keys())
    coq = []
    worst_anchor = 0.0
    for sc in sorted(co_all):
        co = co_all[sc]
        cal = Calibrator(sc)
        for chan in range(3):
            target = rng.choice([285.0, 290.0, 295.0, 300.0, 305.0]) if tier == "quick" else None
            for tgt in ([target] if target else [285.0, 288.0, 292.0, 296.0, 300.0, 303.0, 305.0]):
                n = rng.choice([52, 60, 77, 101, 120])
                first = rng.choice([1, 2, 3, 4, 5])
                lns = list(range(first, first + n))
                residue = rng.randrange(5)
                prt3, tvals = [], {}
                # a temperature gradient across the target: the four thermometers read different temperatures
                deltas = rng.choice([(0, 0, 0, 0), (-2.5, -1, 1, 2.5), (2.5, -2.5, 2.5, -2.5), (0, 0, 0, 2.5), (-2, -2, 2, 2)])
                for k in range(1, 5):
                    tvals[k] = prt_for_temperature(co, k, min(305.0, max(285.0, tgt + deltas[k - 1])))
                tmean4 = sum(tvals[k][1] for k in range(1, 5)) / 4.0
                for ln in lns:
                    k = (ln - residue) % 5
                    prt3.append(0 if k == 0 else tvals[k][0])
                # a telemetry drop-out: the PRT words read 0 on 20 consecutive lines (4 readings of every thermometer; the
                # remaining readings of each thermometer are the majority and the drop-outs are filled from them)
                if rng.random() < 0.5:
                    a0 = rng.randrange(3, n - 25)
                    for i_ in range(a0, a0 + 20):
                        prt3[i_] = 0
                tmean = None
                cs = rng.randrange(950, 1000)
                # target count: such that the scene range is sensible
                cbb = rng.randrange(350, 480) if chan else rng.randrange(600, 800)
                ict10 = [[10 * cbb] * 3 for _ in lns]
                space10 = [[10 * cs] * 3 for _ in lns]
                ctx = dict(spacecraft=sc, channel=thermal.IR[chan], target_K=tgt, lines=n, first_line=first, residue=residue,
                           space_count=cs, target_count=cbb, seed=seed, thermometer_offsets_K=list(deltas), mean_prt_temperature=tmean4,
                           prt_dropout_lines=[i_ for i_, v_ in enumerate(prt3) if v_ == 0 and (lns[i_] - residue) % 5 != 0][:3])
                W = 1024
                counts = np.tile(np.arange(1024, dtype=float), (n, 1))
                kind, out = call_impl(cal, chan, lns, prt3, ict10, space10, counts)
                if kind != 3:
                    res.violations.append(("calibrate_thermal failed on operating-range telemetry (kind %d)" % kind, ctx))
                    continue
                # --- monotone in the count ---
                for i in (0, n // 2, n - 1):
                    row = out[i]
                    ok = ~np.isnan(row)
                    v = row[ok]
                    if v.size > 1 and np.any(np.diff(v) > 1e-9):
                        j = int(np.argmax(np.diff(v) > 1e-9))
                        cc = np.flatnonzero(ok)
                        res.violations.append(("brightness temperature increases with the earth count",
                                               dict(ctx, line_index=i, count=int(cc[j]), bt=float(v[j]), next_count=int(cc[j + 1]), next_bt=float(v[j + 1]))))
                        break
                # --- anchor: count = target count reads the (mean PRT) target temperature ---
                # smoothed PRT temperature of constant-per-thermometer readings: boxcar mean of the interpolated series
                exp, sm = thermal.spec_bt(co, chan, lns, residue, [x / 3.0 for x in prt3], [float(cbb)] * n, [float(cs)] * n, {n // 2: [float(cbb)]})
                tbb_mid = sm[0][n // 2]
                # constant telemetry: every line (first and last included) must read the target temperature at the target count
                for li in range(n):
                    bt_anchor = float(out[li, cbb])
                    if math.isnan(bt_anchor) or abs(bt_anchor - tbb_mid) > 1.0 or abs(bt_anchor - tmean4) > 1.0:
                        res.violations.append(("scene at the internal-target count does not read the internal-target temperature within 1 K",
                                               dict(ctx, line_index=li, bt=bt_anchor, target_temperature=tbb_mid)))
                        break
                    worst_anchor = max(worst_anchor, abs(bt_anchor - tbb_mid))
                res.add_case((sc, chan, tgt, cs, cbb, first, residue), True, ctx)
                # Coq correspondence on a few counts
                if n <= 80:
                    samples = ["(%d%%nat, %d, %s)" % (n // 2, c, common.flit(float(out[n // 2, c]))) for c in (0, cbb, cbb + 1, cs - 1, cs + 1, 1023, rng.randrange(1024)) if c != cs]   # count == smoothed space count: decided by float noise
                    coq.append(("(%d%%nat, %d%%nat, %s, %s, %s, %s, 3, [%s])" % (order.index(sc), chan, common.zpack(lns), common.zpack(prt3),
                                common.zpack([x[chan] for x in ict10]), common.zpack([x[chan] for x in space10]), "; ".join(samples)), ctx))
        # --- phase-free: five starting phases of one underlying stream ---
        chan = rng.randrange(3)
        N = 140
        stream_l = list(range(101, 101 + N))
        residue = rng.randrange(5)
        prt3, ict10, space10, base = thermal.make_telemetry(rng, stream_l, residue)
        cnt = np.tile(np.array([200.0, 400.0, 600.0, 800.0]), (N, 1))
        ref = None
        # the readers hand over the scan line numbers in the type of the record field: unsigned 16 bit (KLM), signed 16 bit (POD)
        ldt = rng.choice([None, ">u2", ">i2"])
        for ph in range(5):
            sl = slice(ph, N)
            kind, out = call_impl(cal, chan, stream_l[sl], prt3[sl], ict10[sl], space10[sl], cnt[sl], line_dtype=ldt)
            if kind != 3:
                res.violations.append(("calibrate_thermal failed for a starting phase (kind %d)" % kind, dict(spacecraft=sc, phase=ph)))
                continue
            core = out[30 - ph:N - 30 - ph]          # the same absolute lines 131..210, more than 25 lines from both ends
            if ref is None:
                ref = core
            elif not np.allclose(core, ref, rtol=0, atol=1e-9, equal_nan=True):
                res.violations.append(("result depends on the PRT-cycle phase at which the file starts",
                                       dict(spacecraft=sc, channel=thermal.IR[chan], phase=ph, residue=residue, line_number_dtype=ldt,
                                            max_difference=float(np.nanmax(np.abs(core - ref))))))
        # --- pixel-local ---
        kind, a = call_impl(cal, chan, stream_l, prt3, ict10, space10, cnt)
        cnt2 = cnt.copy()
        cnt2[:, 1:] = cnt2[:, 1:][:, ::-1] + 17
        kind, b = call_impl(cal, chan, stream_l, prt3, ict10, space10, cnt2)
        if kind == 3 and not np.array_equal(a[:, 0], b[:, 0], equal_nan=True):
            res.violations.append(("result for a pixel depends on the other pixels of its line", dict(spacecraft=sc, channel=thermal.IR[chan])))
        res.traces += 1
    # ---------- through the readers: channel 3a active for a part of the pass (its target / space readings are then low) ----------
    import datetime
    import l1b
    for fmt, sc, whole in (("gac_klm", "noaa16", False), ("lac_klm", "metopa", False), ("gac_pod", "noaa14", False), ("lac_pod", "noaa12", False),
                           ("gac_klm", "noaa17", True)):     # last: 3a during the whole pass (a day-side pass): channels 4 and 5 as usual
        co = co_all[sc]
        pod = l1b.FMT[fmt]["family"] == "pod"
        n = 300 if fmt == "gac_klm" else 120
        seg = range(n // 3, 2 * n // 3) if not pod else range(0)      # (POD: channel 3 is always the thermal one)
        if whole:
            n, seg = 120, range(120)
        first, residue = rng.choice([1, 2, 3, 4, 5]), rng.randrange(5)
        lns = list(range(first, first + n))
        tgt = rng.choice([288.0, 295.0, 301.0])
        tv = {k: prt_for_temperature(co, k, tgt) for k in range(1, 5)}
        tmean4 = sum(tv[k][1] for k in range(1, 5)) / 4.0
        cbb, cs = (rng.randrange(620, 760), rng.randrange(360, 460), rng.randrange(360, 460)), (990, 991, 992)
        W = l1b.FMT[fmt]["width"]
        samples = []
        for p_ in range(W):
            samples += [300, 310, cbb[0] if p_ == 0 else 400 + p_ % 500, cbb[1] if p_ == 0 else 350 + p_ % 400, cbb[2] if p_ == 0 else 360 + p_ % 380]
        start = datetime.datetime(2003, 3, 4, 5, 6, 7) if sc in ("noaa16", "noaa17") else (datetime.datetime(1996, 3, 4, 5, 6, 7) if pod else datetime.datetime(2010, 3, 4, 5, 6, 7))
        flagged = range(18, 24)      # six lines without earth location: blanked themselves, but their telemetry is valid and used
        lines = l1b.default_lines(fmt, n, start, numbers=lns, counts=samples, switch=[1 if i in seg else 0 for i in range(n)],
                                  qual=[(1 << (26 if pod else 27)) if i in flagged else 0 for i in range(n)])
        for i, l in enumerate(lines):
            k = (lns[i] - residue) % 5
            s3 = 0 if k == 0 else tv[k][0]
            a, b_ = divmod(s3, 3)
            l["prt"] = [a + (1 if b_ > 0 else 0), a + (1 if b_ > 1 else 0), a]
            c3i, c3s = (40, 41) if i in seg else (cbb[0], cs[0])      # 3a on: the channel-3 calibration views read visible-channel levels
            l["ict"] = [c3i, cbb[1], cbb[2]] * 10
            l["space"] = [40, 40, c3s, cs[1], cs[2]] * 10
        ctx = dict(reader=fmt, spacecraft=sc, lines=n, channel_3a_on=([seg[0], seg[-1]] if len(seg) else None), first_line=first, residue=residue,
                   mean_prt_temperature=tmean4, target_counts=list(cbb), seed=seed)
        try:
            r = impl.open_reader(fmt, l1b.build_file(fmt, sc, start, lines), adjust_clock_drift=False)
            ch = r.get_calibrated_channels()
            if pod:      # lay the five POD channels out like the six KLM ones (3a slot empty)
                ch6 = np.full(ch.shape[:2] + (6,), np.nan)
                ch6[:, :, [0, 1, 3, 4, 5]] = ch
            r.get_counts()
            ch_again = r.get_calibrated_dataset()["channels"].values     # a second calibration on the same reader
        except Exception as e:  # noqa
            res.violations.append(("reader pipeline raised %r" % (e,), ctx))
            continue
        if not impl.nan_eq(ch, ch_again):
            dif = np.abs(np.where(np.isnan(ch) | np.isnan(ch_again), 0.0, ch - ch_again))
            res.violations.append(("a second calibration of the same reader gives other brightness temperatures (the result is not a function of the pixel's count and the telemetry alone)",
                                   dict(ctx, max_difference_K=float(dif.max()), nan_pattern_differs=bool(np.any(np.isnan(ch) != np.isnan(ch_again))))))
        for chan in range(3):
            col = (ch6 if pod else ch)[:, 0, 3 + chan]
            for i in range(n):
                if (chan == 0 and i in seg) or i in flagged:
                    continue      # 3b is not delivered on these lines (C14) / flagged lines are blanked (C07)
                if math.isnan(col[i]) or abs(float(col[i]) - tmean4) > 1.0:
                    res.violations.append(("through the reader, a scene at the internal-target count does not read the internal-target temperature within 1 K",
                                           dict(ctx, channel=thermal.IR[chan], line_index=i, bt=float(col[i]))))
                    break
        res.add_case(("reader", fmt, sc, first, residue, tgt), True, ctx)
        res.traces += 1
    res.notes["worst_anchor_deviation_K"] = worst_anchor
    failing, logs = common.coq_eval("c13", "From PV Require Import M_ThermalCheck.", "check_thermal", [c for c, _ in coq], shard=8,
                                    ctype="nat * nat * list Z * list Z * list Z * list Z * Z * list (nat * Z * PrimFloat.float)",
                                    preamble="Require Import PrimFloat.")
    res.notes["coq_cases"] = len(coq)
    for kind_, idx, msg in failing:
        if kind_ == "error":
            res.no_input.append("correspondence corr_C13 could not be evaluated: " + msg[-400:])
        else:
            res.no_input.append("corr_C13: thermal model and calibrate_thermal disagree on %s" % (coq[idx][1],))
    res.violations = res.violations[:5]
