"""C03 -- recorded scan-line times are decoded exactly and consistent ones preserved."""
import datetime

import numpy as np

import common
import impl
import l1b
import timesgen as tg

PROP = "C03"
RULE = ("(a) decoding: POD time-code word triples (all 7-bit years incl. the pivot 75/76, days 1..366, ms 0 and 86399999, "
        "random) and KLM (year, day, ms) triples + header start times, compared with the instant 1 Jan + (day-1) d + ms; "
        "(b) clean passes (4 formats, first line 1..3000, 0-4 gaps, midnight / new year / 29 Feb boundary placed at "
        "chosen lines incl. a line exactly at 00:00:00.000, header = nominal time of line 1 or time of first line) read "
        "through the real readers; a case = one decoded triple or one pass; non-trivial = distinct pass with a gap, a "
        "first line > 1 or a day boundary inside, or decode triple with year field in {0,75,76,99,127} or extreme ms")
ASSUME = ["float64 rounding of (n-1)/scan_freq and truncation to ms are not modelled: 1 ms tolerance (the property's own)",
          "numpy median / ediff1d / where / uint32 wrap-around as modelled", "datetime.now().year is passed to the model as a parameter"]
TB = ["coqc 8.16.1 kernel", "Coq.Sorting.Mergesort (median model)", "harness/l1b.py spec writer; correspondence check_times, "
      "check_pod_decode evaluated in Coq; translator: Gen_Consts (periods, correct_times_thresh defaults)"]

KINDS = ["plain", "plain", "midnight", "midnight-exact", "newyear", "newyear-exact", "leapday"]


def finding_class(p):
    """Class predicate of the open finding F-C03-1 (see known_findings.json): a clean pass in which some line other
    than the first is recorded at exactly 00:00:00.000 and fewer than 1 % of the lines (or no line within 6 min of the
    header) precede midnight, or the New Year falls inside the pass under the same scarcity."""
    rec, nums = p["rec"], p["nums"]
    n = len(rec)
    zero_ms = [i for i in range(1, n) if rec[i] % 86400000 == 0]
    day0 = rec[0] // 86400000
    before = sum(1 for t in rec if t // 86400000 == day0)
    crosses = any(t // 86400000 != day0 for t in rec)
    if not crosses:
        return False
    per = 500.0 if l1b.FMT[p["fmt"]]["res"] == "gac" else 1000.0 / 6
    head_far = p["reading"] == "firstline" and (nums[0] - 1) * per > 360000
    newyear = tg.dt_of(rec[0]).year != tg.dt_of(rec[-1]).year
    scarce = before * 100 < n or head_far
    return scarce and (bool(zero_ms) or newyear or bool(p["gaps"]))


def coq_case(p, got, linef=None):
    fmt = p["fmt"]
    per_u = 12000 if l1b.FMT[fmt]["res"] == "gac" else 4000
    ys, js, ms = [], [], []
    for i in range(len(p["nums"])):
        y, d, m = tg.fields(p["rec"][i]) if linef is None or linef[i] is None else linef[i]
        ys.append(y); js.append(d); ms.append(m)
    h = p.get("header_for_model", p["header"])
    return "(%d, %d, %s, %s, %s, %s, %s, %s)" % (per_u, tg.NOW_YEAR, common.zpack(p["nums"]), common.zpack(ys), common.zpack(js),
                                                  common.zpack(ms), "None" if h is None else "(Some %d)" % h, common.zpack(got))


TH = "(mkTh (Qnum thresh_max_diff_from_t0_head) (Qnum thresh_min_frac_near_t0_head) " \
     "(Zpos (Qden thresh_min_frac_near_t0_head)) (Qnum thresh_max_diff_from_ideal_t))"
CTYPE = "Z * Z * list Z * list Z * list Z * list Z * option Z * list Z"


def run(res, tier, seed):
    l1b.AUTO_NOISE = 7919 * seed + 13      # random bytes in every record field the spec writer does not set
    rng = common.rng_for(seed, PROP)
    from pygac.pod_reader import PODReader
    # ---------- (a) decoding ----------
    dec_cases = []
    triples = []
    for yy in [0, 1, 50, 74, 75, 76, 77, 78, 99, 100, 127]:
        for day in [1, 59, 60, 365, 366, 511, 0]:
            for ms in [0, 1, 86399999, 65535, 65536, 2 ** 27 - 1]:
                triples.append((yy, day, ms, rng.getrandbits(5)))
    triples = rng.sample(triples, 120 if tier == "quick" else len(triples))
    for _ in range(200 if tier == "quick" else 2000):
        triples.append((rng.randrange(128), rng.randrange(512), rng.getrandbits(27), rng.getrandbits(5)))
    for yy, day, ms, junk in triples:
        w0 = (yy << 9) | day
        w1 = (junk << 11) | (ms >> 16)
        w2 = ms & 0xFFFF
        y, j, m = PODReader.decode_timestamps(np.array([w0, w1, w2], dtype=">u2"))
        y, j, m = int(y), int(j), int(m)
        ey = 1900 + yy if yy > 75 else 2000 + yy
        if (y, j, m) != (ey, day, ms):
            res.violations.append(("POD time code decoded wrongly", dict(words=[w0, w1, w2], got=[y, j, m], expected=[ey, day, ms])))
        dec_cases.append("(%d, %d, %d, (%d, %d, %d))" % (w0, w1, w2, y, j, m))
        res.add_case(("dec", yy, day, ms), yy in (0, 75, 76, 99, 127) or ms in (0, 86399999), dict(pod_words=[w0, w1, w2]))
    # ---------- (b) clean passes ----------
    plans = []
    sizes = [2, 3, 12, 40, 200, 900] if tier == "quick" else [2, 3, 12, 40, 200, 900, 3000, 9000]
    for fmt in ("gac_klm", "gac_pod", "lac_klm", "lac_pod"):
        for n in sizes:
            if l1b.FMT[fmt]["res"] == "lac" and n > 200:
                continue
            for kind in KINDS:
                plans.append((fmt, n, kind))
    coq = []
    known_hits = []
    # ---------- header start time at the boundary values of its fields (ms 0 / 1 / 86399999, day 1 / 365 / 366) ----------
    for fmt in ("gac_klm", "gac_pod", "lac_klm", "lac_pod"):
        fam = l1b.FMT[fmt]["family"]
        years = [2000, 2001, 2004, 2019] if fam == "klm" else [1985, 1992, 1996, 2000]
        for year in years:
            leap = year % 4 == 0
            for doy in (1, 60, 365) + ((366,) if leap else ()):
                for ms in (0, 1, 43200000, 86399999):
                    H = tg.ms_of(datetime.datetime(year, 1, 1)) + (doy - 1) * 86400000 + ms
                    nums = [1, 2, 3]
                    p = dict(fmt=fmt, nums=nums, rec=tg.recorded_ms(fmt, nums, H), header=H, start=H, kind="header-boundary",
                             reading="firstline", gaps=[])
                    ctx = dict(fmt=fmt, header=str(tg.dt_of(H)), header_fields=[year, doy, ms], seed=seed)
                    try:
                        r, t = tg.read_times(fmt, tg.build(p))
                        hts = tg.ms_of(r.get_header_timestamp())
                    except Exception as e:  # noqa
                        res.violations.append(("header start time at a boundary value of its fields is not decoded: %r" % (e,), ctx))
                        continue
                    if hts != H:
                        res.violations.append(("header start time decoded wrongly", dict(ctx, got=str(tg.dt_of(hts)))))
                    res.add_case(("hdr", fmt, year, doy, ms), True, ctx)
    # LAC passes whose first line number lies in the upper part of the 6-minute header window of the LAC rate (721 < n <= 2161),
    # with the day / year boundaries that the first repair stage alters and the second one restores
    for fmt in ("lac_klm", "lac_pod"):
        for kind in ("newyear", "midnight-exact", "newyear-exact"):
            for first_ in (800, 1500, 2100):
                for _rep in range(2):
                    plans.append((fmt, 200, kind + "@%d" % first_))
    for fmt, n, kind in plans:
        forced = None
        if "@" in kind:
            kind, forced = kind.split("@")[0], int(kind.split("@")[1])
        p = tg.clean_pass(rng, fmt, n, kind, first_forced=forced)
        data = tg.build(p)
        ctx = dict(fmt=fmt, n=n, kind=kind, first=p["nums"][0], gaps=p["gaps"], start=str(tg.dt_of(p["start"])),
                   header=str(tg.dt_of(p["header"])), header_reading=p["reading"], seed=seed)
        try:
            r, t = tg.read_times(fmt, data)
            got = tg.to_ms_array(t)
            hts = tg.ms_of(r.get_header_timestamp())
        except Exception as e:  # noqa
            res.violations.append(("get_times raised on a clean pass: %r" % (e,), ctx))
            continue
        res.traces += 1
        if hts != p["header"]:
            res.violations.append(("header start time decoded wrongly", dict(ctx, got=str(tg.dt_of(hts)))))
        if l1b.FMT[fmt]["family"] == "klm" and n <= 200:
            # a KLM reader with its default options: the times after the coordinates were computed, and the dataset's time
            # coordinate, are the same instants (KLM time codes are UTC; no other record field takes part)
            try:
                rd = impl.reader_class(fmt)()
                rd.read("f", fileobj=__import__("io").BytesIO(data))
                rd.get_lonlat()
                t_after = tg.to_ms_array(rd.get_times())
                t_ds = tg.to_ms_array(rd.create_counts_dataset()["times"].values)
                if t_after != got or t_ds != got:
                    k = next(i for i in range(len(got)) if t_after[i] != got[i] or t_ds[i] != got[i])
                    res.violations.append(("times returned after the coordinate computation / as dataset coordinate differ from the recorded instants",
                                           dict(ctx, line_index=k, recorded=str(tg.dt_of(got[k])), after_get_lonlat=str(tg.dt_of(t_after[k])),
                                                dataset=str(tg.dt_of(t_ds[k])))))
            except Exception as e:  # noqa
                res.violations.append(("default-option KLM reader raised %r on a clean pass" % (e,), ctx))
        surv = [int(x) for x in r.scans["scan_line_number"]]
        if len(got) != len(surv):
            res.violations.append(("not one time per line", dict(ctx, got=len(got), lines=len(surv))))
            continue
        if surv != p["nums"]:
            # the line-number sanitising (C11) removed records of this gappy pass: continue with the surviving lines
            keep = {x: i for i, x in enumerate(p["nums"])}
            idx = [keep[x] for x in surv]
            p = dict(p, nums=surv, rec=[p["rec"][i] for i in idx])
            n = len(surv)
            ctx["lines_removed_by_number_sanitising"] = len(keep) - n
        bad = [i for i in range(n) if abs(got[i] - p["rec"][i]) > 1]
        if bad:
            i = bad[0]
            info = dict(ctx, bad_lines=len(bad), line_index=i, line_number=p["nums"][i], recorded=str(tg.dt_of(p["rec"][i])),
                        returned=str(tg.dt_of(got[i])), error_ms=got[i] - p["rec"][i])
            if finding_class(p):
                known_hits.append(info)
            else:
                res.violations.append(("consistent recorded times are not returned (error > 1 ms)", info))
        nontriv = bool(p["gaps"]) or p["nums"][0] > 1 or kind != "plain"
        res.add_case((fmt, n, kind, p["nums"][0], tuple(p["gaps"]), p["start"]), nontriv,
                     dict(fmt=fmt, n=n, kind=kind, first=p["nums"][0], gaps=p["gaps"], start=str(tg.dt_of(p["start"]))))
        if n <= 900:
            coq.append((coq_case(p, got), ctx))
    res.notes["known_finding_hits"] = len(known_hits)
    res._c03_known = known_hits
    failing, logs = common.coq_eval("c03_dec", "From PV Require Import M_Times.", "check_pod_decode", dec_cases, shard=500)
    for kind, idx, msg in failing:
        res.no_input.append("corr_C03/decode: " + (msg[-300:] if kind == "error" else "model and implementation disagree on " + dec_cases[idx]))
    failing, logs = common.coq_eval("c03_times", "From PV Require Import M_Times Gen_Consts.", "(check_times %s)" % TH,
                                    [c for c, _ in coq], shard=12, ctype=CTYPE)
    res.notes["coq_pass_cases"] = len(coq)
    for kind, idx, msg in failing:
        if kind == "error":
            res.no_input.append("correspondence corr_C03 could not be evaluated: " + msg[-300:])
        else:
            res.no_input.append("corr_C03: stage-1/stage-2 model and implementation disagree on pass %s" % (coq[idx][1],))
    res.violations = res.violations[:5]


def witness_pass():
    """The Coq witness of C03_clean_identity_refuted as a pass: 300 GAC lines, line 2 at exactly 00:00:00.000."""
    start = tg.ms_of(datetime.datetime(2001, 6, 14, 23, 59, 59, 500000))
    nums = list(range(1, 301))
    return dict(fmt="gac_klm", nums=nums, rec=tg.recorded_ms("gac_klm", nums, start), header=start, start=start,
                kind="midnight-exact", reading="line1", gaps=[])


def known(res):
    for f in common.known_findings(PROP):
        if f["status"] != "open":
            continue
        # replay the witness on the implementation: the finding is only reported while it still fails
        p = witness_pass()
        r, t = tg.read_times(p["fmt"], tg.build(p))
        got = tg.to_ms_array(t)
        still = any(abs(a - b) > 1 for a, b in zip(got, p["rec"]))
        hits = getattr(res, "_c03_known", [])
        if still or hits:
            res.known.append("%s (witness replayed: %s; %d generated passes of this class failed in this run)"
                             % (f["line"], "still fails" if still else "no longer fails", len(hits)))
