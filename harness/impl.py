"""Access to the implementation under test (pygac from the /repo working tree)."""
import importlib
import io
import os
import shutil
import sys
import warnings

import numpy as np

from common import REPO
import l1b

warnings.filterwarnings("ignore")
import logging  # noqa: E402

logging.disable(logging.CRITICAL)

_here = os.path.realpath(REPO)
if os.path.realpath(sys.path[0]) != _here and _here not in [os.path.realpath(p) for p in sys.path if p]:
    sys.path.insert(0, _here)

import pygac  # noqa: E402

assert os.path.realpath(os.path.dirname(os.path.dirname(pygac.__file__))) == _here, \
    "pygac imported from %s instead of %s" % (pygac.__file__, _here)


def reader_class(fmt):
    mod, cls = l1b.READER[fmt]
    return getattr(importlib.import_module(mod), cls)


def make_tle_dir(scratch, spacecraft=("noaa16", "noaa14", "noaa15", "noaa12", "noaa11", "noaa9", "noaa7",
                                       "noaa17", "noaa18", "noaa19", "metopa", "metopb", "metopc", "tirosn",
                                       "noaa6", "noaa8", "noaa10")):
    """A TLE directory for tests: the only element sets shipped with the repository are NOAA-16's; they are
    copied under the other names (orbit realism is irrelevant where this is used)."""
    d = os.path.join(scratch, "tle")
    os.makedirs(d, exist_ok=True)
    src = os.path.join(REPO, "gapfilled_tles", "TLE_noaa16.txt")
    # the shipped file is not in epoch order (its gap-filling sets are appended at the end); the readers expect a
    # chronologically ordered file (C17), so the sets are written in epoch order here
    sets = tle_sets(src)
    sets.sort(key=lambda x: x[0])
    text = "".join(a + "\n" + b + "\n" for _, a, b in sets)
    for sc in spacecraft:
        with open(os.path.join(d, "TLE_%s.txt" % sc), "w") as f:
            f.write(text)
    return d, "TLE_%(satname)s.txt"


def tle_epoch_ms(line1):
    """Epoch of a TLE (fixed columns 19-32, two-digit year with the 1957 pivot of the format) in ms since 1970."""
    import datetime
    from fractions import Fraction
    f = line1[18:32]
    yy = int(f[:2])
    year = 1900 + yy if yy >= 57 else 2000 + yy
    day = Fraction(f[2:].strip())
    return ((datetime.date(year, 1, 1) - datetime.date(1970, 1, 1)).days + day - 1) * 86400000


_TLE_CACHE = {}


def tle_sets(path):
    key = (path, os.path.getmtime(path), os.path.getsize(path))
    if key not in _TLE_CACHE:
        lines = [l.rstrip("\n") for l in open(path) if l.strip()]
        _TLE_CACHE[key] = [(tle_epoch_ms(lines[i]), lines[i], lines[i + 1]) for i in range(0, len(lines) - 1, 2)]
    return list(_TLE_CACHE[key])


def nearest_tle(path, t_ms):
    """Independent choice of the element set: brute-force minimum of |epoch - t| over the whole file (any order)."""
    best = min(tle_sets(path), key=lambda x: abs(x[0] - t_ms))
    return best[1], best[2]


def open_reader(fmt, data, name="file", **kw):
    cls = reader_class(fmt)
    r = cls(**kw)
    r.read(name, fileobj=io.BytesIO(data))
    return r


def nan_eq(a, b):
    a = np.asarray(a)
    b = np.asarray(b)
    return a.shape == b.shape and bool(np.array_equal(a, b, equal_nan=True))
