"""Access to the implementation under test (pygac from the /repo working tree)."""
import importlib
import io
import os
import shutil
import sys
import warnings

import numpy as np

from common import REPO
import l1b

warnings.filterwarnings("ignore")
import logging  # noqa: E402

logging.disable(logging.CRITICAL)

_here = os.path.realpath(REPO)
if os.path.realpath(sys.path[0]) != _here and _here not in [os.path.realpath(p) for p in sys.path if p]:
    sys.path.insert(0, _here)

import pygac  # noqa: E402

assert os.path.realpath(os.path.dirname(os.path.dirname(pygac.__file__))) == _here, \
    "pygac imported from %s instead of %s" % (pygac.__file__, _here)


def reader_class(fmt):
    mod, cls = l1b.READER[fmt]
    return getattr(importlib.import_module(mod), cls)


def make_tle_dir(scratch, spacecraft=("noaa16", "noaa14", "noaa15", "noaa12", "noaa11", "noaa9", "noaa7",
                                       "noaa17", "noaa18", "noaa19", "metopa", "metopb", "metopc", "tirosn",
                                       "noaa6", "noaa8", "noaa10")):
    """A TLE directory for tests: the only element sets shipped with the repository are NOAA-16's; they are
    copied under the other names (orbit realism is irrelevant where this is used)."""
    d = os.path.join(scratch, "tle")
    os.makedirs(d, exist_ok=True)
    src = os.path.join(REPO, "gapfilled_tles", "TLE_noaa16.txt")
    for sc in spacecraft:
        shutil.copy(src, os.path.join(d, "TLE_%s.txt" % sc))
    return d, "TLE_%(satname)s.txt"


def open_reader(fmt, data, name="file", **kw):
    cls = reader_class(fmt)
    r = cls(**kw)
    r.read(name, fileobj=io.BytesIO(data))
    return r


def nan_eq(a, b):
    a = np.asarray(a)
    b = np.asarray(b)
    return a.shape == b.shape and bool(np.array_equal(a, b, equal_nan=True))
