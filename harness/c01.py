"""C01 -- header and scan-line fields are decoded at the format's byte layout."""
import datetime
import io
import warnings

import numpy as np

import common
import impl
import l1b

PROP = "C01"
RULE = ("files written field by field from the frozen format tables (all four formats, POD header epochs 1/2/3 chosen "
        "by date or forced, KLM header versions 2/5, with/without archive header, n in 1..12 records, partial trailing "
        "record, right/wrong header count); every spec field of every record gets a random, all-ones, sign-bit or "
        "walking-bit value; a case = one (file, record) pair; non-trivial = distinct (format, variant, record index, "
        "value pattern) with record index >= 1 or header variant != default")
ASSUME = ["numpy.frombuffer on a packed structured dtype reads consecutive fields without padding (modelled in Lib/Layout.v)",
          "spec tables are a hand-frozen transcription of the NOAA POD/KLM guides (spec/formats.json, anchors checked)"]
TB = ["coqc 8.16.1 kernel; vm_compute (vm_cast_no_check) decides the finite table checks fmt_ok/hdr_ok",
      "translator/gen.py (Gen_Layout from dtype.fields recursively, Gen_Consts from reader instances)",
      "translator/spec2coq.py (prints spec/formats.json)", "harness/l1b.py spec writer; correspondence check_read in Coq"]

KEEP = {  # fields the harness must control to keep the file a well-formed pass
    "klm_scan": {"scan_line_number"},
    "pod_scan": {"scan_line_number"},
    "klm_header": {"data_set_name", "noaa_level_1b_format_version_number", "noaa_spacecraft_identification_code",
                   "count_of_data_records", "data_type_code"},
    "pod_header": {"data_set_name", "noaa_spacecraft_identification_code", "number_of_scans", "start_time", "data_type_code"},
}


def rand_value(rng, leaf, pattern, idx):
    w, kind = leaf["width"], leaf["kind"]
    if kind in ("S", "f"):
        if pattern == "ones":
            return bytes([255] * w)
        b = bytes(rng.randrange(256) for _ in range(w))
        if kind == "S" and b.endswith(b"\x00"):      # numpy's S dtype strips trailing NULs on read: not a layout question
            b = b[:-1] + bytes([1 + rng.randrange(255)])
        return b
    bits = 8 * w
    if pattern == "random":
        u = rng.getrandbits(bits)
    elif pattern == "ones":
        u = (1 << bits) - 1
    elif pattern == "sign":
        u = 1 << (bits - 1)
    elif pattern == "walk":
        u = 1 << (idx % bits)
    else:
        u = (idx * 2654435761) & ((1 << bits) - 1)
    if kind == "i" and u >= 1 << (bits - 1):
        u -= 1 << bits
    return u


def fill_record(rng, layout, pattern, skip, salt):
    rec = bytearray(l1b.SPEC[layout]["size"])
    vals = {}
    for j, leaf in enumerate(l1b.SPEC[layout]["leaves"]):
        if leaf["name"] in skip:
            continue
        v = [rand_value(rng, leaf, pattern, salt + j + k) for k in range(leaf["count"])]
        l1b.put(rec, layout, leaf["name"], v)
        vals[leaf["name"]] = v
    return rec, vals


def field_array(arr, name):
    a = arr
    for part in name.split("."):
        a = a[part]
    return np.asarray(a)


def compare_fields(res, arr, layout, vals, ctx):
    """arr: numpy record (0-d) or 1-element selection; vals: name -> list of written values."""
    for leaf in l1b.SPEC[layout]["leaves"]:
        nm = leaf["name"]
        if nm not in vals:
            continue
        try:
            a = field_array(arr, nm)
        except (KeyError, ValueError, IndexError) as e:
            res.violations.append(("field of the format is not exposed under its name", dict(ctx, field=nm, error=repr(e))))
            return False
        if leaf["kind"] in ("S", "f"):
            if leaf["kind"] == "f":  # numpy hands scalars back in native order: normalise to the file's byte order
                a = a.astype(">f%d" % leaf["width"])
            got = a.tobytes()
            exp = b"".join(vals[nm])
            ok = got == exp
        else:
            got = [int(x) for x in a.ravel()]
            exp = [int(x) for x in vals[nm]]
            ok = got == exp
        if not ok:
            k = next((i for i, (g, e) in enumerate(zip(got, exp)) if g != e), 0)
            res.violations.append(("field does not read back the value written at the format's byte range",
                                   dict(ctx, field=nm, element=k, written=repr(exp[k] if not isinstance(exp, bytes) else exp[:16]),
                                        read=repr(got[k] if not isinstance(got, bytes) else got[:16]),
                                        spec_offset=leaf["off"], width=leaf["width"], kind=leaf["kind"])))
            return False
    return True


def gen_order_values(arr, leaves):
    """Flatten a numpy record following the *generated* layout's cell order (for the Coq model)."""
    out = []
    for leaf in leaves:
        a = field_array(arr, leaf["name"])
        if leaf["kind"] in ("S", "f"):
            if leaf["kind"] == "f":
                a = a.astype(">f%d" % leaf["width"])
            out.extend(a.tobytes())
        else:
            out.extend(int(x) for x in a.ravel())
    return out


def variants(tier):
    v = []
    for fmt in ("gac_klm", "lac_klm"):
        for version in (2, 5):
            for archive in (False, True):
                v.append(dict(fmt=fmt, version=version, archive=archive))
    for fmt in ("gac_pod", "lac_pod"):
        for epoch in (1, 2, 3):
            for archive in (False, True):
                v.append(dict(fmt=fmt, epoch=epoch, archive=archive, forced=False))
        v.append(dict(fmt=fmt, epoch=2, archive=False, forced=True))
        # the first / last day of each header epoch (the layout is chosen from the header's own start date)
        for ep, day in ((1, datetime.datetime(1992, 9, 7, 23, 0, 0)), (2, datetime.datetime(1992, 9, 8, 0, 30, 0)),
                        (2, datetime.datetime(1992, 10, 20, 12, 0, 0)), (2, datetime.datetime(1994, 11, 15, 23, 0, 0)),
                        (3, datetime.datetime(1994, 11, 16, 0, 30, 0)),
                        # passes of 2000 and later: the 7-bit year field holds 0..7 (century window), the layout is still epoch 3
                        (3, datetime.datetime(2000, 1, 1, 0, 30, 0)), (3, datetime.datetime(2001, 12, 1, 10, 0, 0)),
                        (3, datetime.datetime(2007, 6, 30, 23, 0, 0))):
            v.append(dict(fmt=fmt, epoch=ep, archive=False, forced=False, start_override=str(day)))
        # TIROS-N: spacecraft code 1 with a start date before 1982 (the code is shared with NOAA-11); the header keeps the file's byte
        v.append(dict(fmt=fmt, epoch=1, archive=False, forced=False, sc="tirosn", start_override="1980-06-01 10:00:00"))
        v.append(dict(fmt=fmt, epoch=3, archive=True, forced=False, blank_tbm=True))     # TBM header whose name field is blank (42 NUL + 2 spaces)
    # scan line numbers using the top bit of the (unsigned, KLM) field: legal for LAC/FRAC passes (< 65535)
    v.append(dict(fmt="lac_klm", version=5, archive=False, first=32765))
    v.append(dict(fmt="gac_klm", version=2, archive=True, first=14990))
    v.append(dict(fmt="lac_pod", epoch=3, archive=False, forced=False, first=32000))
    return v


EPOCH_DATE = {1: datetime.datetime(1988, 3, 4, 5, 6, 7), 2: datetime.datetime(1993, 6, 7, 8, 9, 10),
              3: datetime.datetime(1999, 2, 3, 4, 5, 6)}
POD_SC_BY_EPOCH = {1: "noaa9", 2: "noaa11", 3: "noaa14"}


def run(res, tier, seed):
    rng = common.rng_for(seed, PROP)
    gen = common.gen_json()
    coq_cases = {}
    patterns = ["random", "ones", "sign", "walk", "mult"]
    for vi, var in enumerate(variants(tier)):
        fmt = var["fmt"]
        info = l1b.FMT[fmt]
        fam, lay = info["family"], info["scan"]
        lac = info["res"] == "lac"
        n = rng.choice([1, 2, 3, 5] if lac else [1, 2, 3, 7, 12])
        if tier == "thorough":
            n = rng.choice([2, 6] if lac else [3, 17, 40])
        if "first" in var:
            n = 6       # keeps first + n below the format's highest admissible line number (C11 drops the others)
        size = l1b.SPEC[lay]["size"]
        recs, written = [], []
        for i in range(n):
            pat = patterns[(i + vi) % len(patterns)]
            rec, vals = fill_record(rng, lay, pat, KEEP[fam + "_scan"], 131 * i + vi)
            l1b.put(rec, lay, "scan_line_number", i + var.get("first", 1))
            vals["scan_line_number"] = [i + var.get("first", 1)]
            recs.append(bytes(rec))
            written.append((vals, pat))
        wrong_count = rng.random() < 0.4
        hdr_count = (n + rng.choice([1, 5, -1]) if wrong_count else n) % 65536
        tail = bytes(rng.randrange(256) for _ in range(rng.choice([0, 0, 1, size - 1, size // 2])))
        # ---------- header ----------
        if fam == "klm":
            sc = rng.choice(sorted(l1b.KLM_SC))
            start = datetime.datetime(2004, 5, 6, 7, 8, 9)
            hrec, hvals = fill_record(rng, "klm_header", patterns[vi % 5], KEEP["klm_header"], vi)
            name = l1b.data_set_name(fmt, sc, start)
            base = bytearray(size)
            base[:len(hrec)] = hrec
            alay = "klm_analog_v5" if var["version"] >= 5 else "klm_analog_v2"
            arec, avals = fill_record(rng, alay, patterns[(vi + 1) % 5], set(), vi)
            base[len(hrec):len(hrec) + len(arec)] = arec
            l1b.put(base, "klm_header", "data_set_name", name.encode().ljust(42))
            l1b.put(base, "klm_header", "noaa_level_1b_format_version_number", var["version"])
            l1b.put(base, "klm_header", "noaa_spacecraft_identification_code", l1b.KLM_SC[sc][0])
            l1b.put(base, "klm_header", "count_of_data_records", hdr_count)
            l1b.put(base, "klm_header", "data_type_code", 1 if lac else 2)
            hvals.update({"data_set_name": [name.encode().ljust(42)], "noaa_level_1b_format_version_number": [var["version"]],
                          "noaa_spacecraft_identification_code": [l1b.KLM_SC[sc][0]], "count_of_data_records": [hdr_count],
                          "data_type_code": [1 if lac else 2]})
            arch = l1b.make_ars_header(name) if var["archive"] else b""
            asize = 512
            kw = {}
        else:
            ep = var["epoch"]
            sc = var.get("sc") or POD_SC_BY_EPOCH[ep]
            start = EPOCH_DATE[ep]
            if var.get("start_override"):
                start = datetime.datetime.strptime(var["start_override"], "%Y-%m-%d %H:%M:%S")
            hl = "pod_header%d" % ep
            hrec, hvals = fill_record(rng, hl, patterns[vi % 5], KEEP["pod_header"], vi)
            name = l1b.data_set_name(fmt, sc, start)
            base = bytearray(size)
            base[:len(hrec)] = hrec
            w = l1b.LEAVES[hl]["data_set_name"]["width"]
            tw = l1b.pod_time_words(*l1b.dt_fields(start))
            l1b.put(base, hl, "data_set_name", name.encode().ljust(w))
            l1b.put(base, hl, "noaa_spacecraft_identification_code", l1b.POD_SC[sc][0])
            l1b.put(base, hl, "number_of_scans", hdr_count)
            l1b.put(base, hl, "start_time", tw)
            l1b.put(base, hl, "data_type_code", 1 if lac else 2)
            hvals.update({"data_set_name": [name.encode().ljust(w)], "noaa_spacecraft_identification_code": [l1b.POD_SC[sc][0]],
                          "number_of_scans": [hdr_count], "start_time": tw, "data_type_code": [1 if lac else 2]})
            arch = (l1b.make_tbm_header(blank_name=True) if var.get("blank_tbm") else l1b.make_tbm_header(name)) if var["archive"] else b""
            asize = 122
            kw = {}
            if var.get("forced"):
                # start time says epoch 3 but the caller forces the epoch-2 header
                tw = l1b.pod_time_words(*l1b.dt_fields(EPOCH_DATE[3]))
                l1b.put(base, hl, "start_time", tw)
                hvals["start_time"] = tw
                kw["header_date"] = datetime.date(1993, 6, 7)
        data = arch + bytes(base) + b"".join(recs) + tail
        ctx = dict(var, spacecraft=sc, n=n, header_count=hdr_count, tail_len=len(tail), seed=seed)
        # ---------- implementation ----------
        try:
            with warnings.catch_warnings(record=True) as wl:
                warnings.simplefilter("always")
                r = impl.reader_class(fmt)(adjust_clock_drift=False, **kw)
                r.read("somefile", fileobj=io.BytesIO(data))
            warned = any("Unexpected number of scanlines" in str(x.message) for x in wl)
        except Exception as e:  # noqa
            res.violations.append(("reader raised on a file written from the format specification: %r" % (e,), ctx))
            continue
        res.traces += 1
        if len(r.scans) != n:
            res.violations.append(("number of records read differs from the number of complete records in the file",
                                   dict(ctx, got=len(r.scans))))
            continue
        if warned != (hdr_count != n):
            res.violations.append(("count warning is not equivalent to a header-count mismatch", dict(ctx, warned=warned)))
        has_arch = (getattr(r, "ars_head", None) is not None) if fam == "klm" else (getattr(r, "tbm_head", None) is not None)
        if has_arch != var["archive"]:
            res.violations.append(("archive header presence misdetected", dict(ctx, detected=has_arch)))
            continue
        okh = compare_fields(res, r.head, "klm_header" if fam == "klm" else hl, hvals, dict(ctx, where="header"))
        if fam == "klm":
            compare_fields(res, r.analog_telemetry, alay, avals, dict(ctx, where="analog telemetry"))
        for i in range(n):
            ok = compare_fields(res, r.scans[i], lay, written[i][0], dict(ctx, where="scan line", record=i))
            res.add_case((fmt, tuple(sorted((k, str(v)) for k, v in var.items())), i, written[i][1]),
                         i >= 1 or var.get("archive") or var.get("version") == 2 or var.get("epoch", 3) != 3,
                         dict(ctx, record=i, pattern=written[i][1]))
            if not ok:
                break
        # ---------- Coq model on small GAC files ----------
        if not lac and n <= 3:
            gl = gen["Gen_Layout"]["klm_gac" if fam == "klm" else "pod_gac"]["leaves"]
            vals = [gen_order_values(r.scans[i], gl) for i in range(n)]
            case = "(%s, %s, %d, (%d%%nat, %s, [%s]))" % (common.blit(has_arch), common.zpack(data), hdr_count, n,
                                                         common.blit(warned), "; ".join(common.zpack(v) for v in vals))
            coq_cases.setdefault(fam, []).append((case, ctx))
    for fam, lst in coq_cases.items():
        lst = lst[:3] if tier == "quick" else lst
        g, a = ("klm_gac", "klm_ars_size") if fam == "klm" else ("pod_gac", "pod_tbm_size")
        off = "gac_%s_offset" % fam
        fn = "(check_read (layout_cells %s) (Z.to_nat %s) (Z.to_nat %s) (Z.to_nat %s_size))" % (g, off, a, g)
        failing, logs = common.coq_eval("c01_" + fam, "From PV Require Import Layout M_Read Gen_Layout Gen_Consts.",
                                        fn, [c for c, _ in lst], shard=1)
        res.notes["coq_cases_" + fam] = len(lst)
        for kind, idx, msg in failing:
            if kind == "error":
                res.no_input.append("correspondence corr_C01 could not be evaluated: " + msg[-300:])
            else:
                res.no_input.append("corr_C01: reader model and implementation disagree on %s" % (lst[idx][1],))
    res.violations = res.violations[:5]
