"""C08 -- corrupt scan-line times are repaired, and times are always returned."""
import datetime

import numpy as np

import common
import impl
import l1b
import timesgen as tg
from c03 import coq_case, TH, CTYPE

PROP = "C08"
RULE = ("clean passes as in C03 (kinds plain/midnight, header = nominal time of line 1) with garbage injected into the "
        "time fields of a random subset (0-39 %, first line excluded) of the lines: year / day / ms (or POD words) "
        "individually or together, magnitudes from 11 s to years, i.i.d. or clustered, plus adversarial families "
        "(garbage near the header; day+1 with small ms; a block of up to 39 % of the lines right after the first one on a "
        "common wrong clock, also on 2600-line passes); fallback clause: backward line numbers, unusable header "
        "(year 0 / 9999+, day 0 / 400+), header hours away. A case = one pass; non-trivial = distinct pass with at "
        "least one corrupted line or a fallback condition")
ASSUME = ["1 ms float tolerance as in C03", "garbage years stay within numpy's datetime64[Y] string parser range (1..9999)"]
TB = ["coqc 8.16.1 kernel", "Coq.Sorting.Mergesort", "harness/l1b.py spec writer; correspondence check_times evaluated in Coq"]


def corrupt(rng, p, frac, family):
    """Returns per-line field overrides (None = intact)."""
    n = len(p["nums"])
    k = int(frac * (n - 1))
    if family == "tail-forward" and k > 0:
        idx = list(range(n - k, n))
        off = rng.choice([15000, 120000, 1800000])
        out = [None] * n
        for i in idx:
            out[i] = tg.fields(p["rec"][i] + off)      # the whole tail runs late by the same amount: times stay increasing
        return out, idx
    if family == "year-only" and k > 0:
        # every corrupt line carries another PLAUSIBLE year (day and millisecond intact): nothing a per-field check can reject
        idx = sorted(rng.sample(range(1, n), k))
        out = [None] * n
        for i in idx:
            y, d, ms = tg.fields(p["rec"][i])
            out[i] = (rng.choice([y - 1, y - 2, 1985, y - 1]), d, ms)
        return out, idx
    if family == "last-day" and n > 3:
        y, d, ms = tg.fields(p["rec"][n - 1])
        out = [None] * n
        out[n - 1] = (y, min(d + rng.choice([1, 30, 150]), 365), ms)
        return out, [n - 1]
    if family == "block-offset" and k > 0:
        # a contiguous block right after the first line runs on a wrong clock (one common offset, within the header window)
        idx = list(range(1, 1 + k))
        off = rng.choice([90000, -45000, 300000, 15000, -200000])
        out = [None] * n
        for i in idx:
            out[i] = tg.fields(p["rec"][i] + off)
        return out, idx
    if family == "clustered" and k > 0:
        s0 = rng.randrange(1, max(2, n - k))
        idx = list(range(s0, min(n, s0 + k)))
    else:
        idx = sorted(rng.sample(range(1, n), k)) if k else []
    out = [None] * n
    fam = l1b.FMT[p["fmt"]]["family"]
    for i in idx:
        y, d, ms = tg.fields(p["rec"][i])
        what = rng.choice(["ms", "ms", "day", "year", "all", "zero"]) if family != "near-header" else "near"
        if family == "dayplus":
            what = "dayplus"
        if what == "ms":
            ms = rng.choice([ms + rng.choice([-1, 1]) * rng.randint(11000, 40000000), rng.getrandbits(27), 0, 86399999])
            ms = max(0, min(ms, 2 ** 27 - 1))
        elif what == "day":
            d = rng.choice([0, d + 1, d - 1, 366, 367, 400, 511, rng.randrange(512)])
            d = max(0, min(d, 511))
        elif what == "year":
            y = rng.choice([y + 1, y - 1, 1977, 1976, 2075, tg.NOW_YEAR + 1] if fam == "pod" else [y + 1, y - 1, 1977, 3000, 1, 9999])
        elif what == "all":
            y = rng.choice([1976 + rng.randrange(100)] if fam == "pod" else [rng.randrange(1, 9999)])
            d = rng.randrange(512)
            ms = rng.getrandbits(27)
        elif what == "zero":
            y, d, ms = (2000 if fam == "pod" else 1), 0, 0
        elif what == "near":   # mutually consistent garbage within 6 min of the header
            t = p["header"] + rng.randint(11000, 300000)
            y, d, ms = tg.fields(t)
        elif what == "dayplus":
            d, ms = d + 1, rng.randrange(0, 60000)
        out[i] = (y, d, ms)
    return out, idx


def run(res, tier, seed):
    l1b.AUTO_NOISE = 7919 * seed + 13      # random bytes in every record field the spec writer does not set
    rng = common.rng_for(seed, PROP)
    plans = []
    sizes = [12, 40, 200, 900] if tier == "quick" else [12, 40, 200, 900, 3000]
    for fmt in ("gac_klm", "gac_pod", "lac_klm", "lac_pod"):
        for n in sizes:
            if l1b.FMT[fmt]["res"] == "lac" and n > 200:
                continue
            for frac in (0.05, 0.2, 0.39):
                for family in ("iid", "clustered"):
                    plans.append((fmt, n, frac, family, rng.choice(["plain", "plain", "midnight"])))
            plans.append((fmt, n, 0.3, "near-header", "plain"))
            plans.append((fmt, n, rng.choice([0.1, 0.25, 0.39]), "tail-forward", "plain"))
            plans.append((fmt, n, 0.3, "dayplus", "midnight"))
            plans.append((fmt, n, rng.choice([0.2, 0.3, 0.39]), "block-offset", "plain"))
            plans.append((fmt, n, rng.choice([0.05, 0.2]), "year-only", "plain"))
            plans.append((fmt, n, 0.01, "last-day", "plain"))
            plans.append((fmt, n, rng.choice([0.1, 0.3]), "block-offset", "day366"))
        if l1b.FMT[fmt]["res"] == "gac":   # a long pass: the offset estimate must survive a wrong block of more than 500 lines
            plans.append((fmt, 2600, rng.choice([0.25, 0.3, 0.38]), "block-offset", "plain"))
    coq = []
    adversarial_fail = []
    scarce_fail = []
    sanit_fail = []
    plans.append(("gac_pod", 200, 0.01, "sanitiser-witness", "plain"))
    plans.append(("gac_klm", 50, 0.388, "coq-witness", "plain"))
    plans.append(("gac_pod", 50, 0.388, "coq-witness", "plain"))
    for fmt, n, frac, family, kind in plans:
        if family == "coq-witness":   # the pass of C08_repairs_refuted
            start = tg.ms_of(datetime.datetime(2001 if fmt == "gac_klm" else 1995, 6, 14, 23, 59, 30))
            nums = list(range(1, 51))
            p = dict(fmt=fmt, nums=nums, rec=tg.recorded_ms(fmt, nums, start), header=start, start=start, kind="witness",
                     reading="line1", gaps=[])
        elif family == "sanitiser-witness":   # F-C08-3: stored pass (intact numbers 30, 33.., two gaps)
            import json as _json
            import os as _os
            wit = _json.load(open(_os.path.join(_os.path.dirname(_os.path.abspath(__file__)), "data_c08_f3.json")))
            nums = wit["nums"]
            p = dict(fmt=fmt, nums=nums, rec=tg.recorded_ms(fmt, nums, wit["start"]), header=wit["header"], start=wit["start"],
                     kind="witness", reading="line1", gaps=[(62, 1), (1, 2)])
        else:
            p = tg.clean_pass(rng, fmt, n, "plain" if kind == "day366" else kind)
            if kind == "day366":     # the whole pass on 31 December of a leap year (day of year 366 in header and lines)
                st = tg.ms_of(datetime.datetime(2004 if l1b.FMT[fmt]["family"] == "klm" else 1996, 12, 31, rng.randrange(1, 20), 0, 0)) + rng.randrange(1000)
                p = dict(p, start=st, rec=tg.recorded_ms(fmt, p["nums"], st), header=tg.header_ms(fmt, p["nums"], st, "line1"), reading="line1")
        if p["reading"] != "line1":
            p["header"] = tg.header_ms(fmt, p["nums"], p["start"], "line1")
            p["reading"] = "line1"
        if family == "coq-witness":
            idx = [i for i in range(1, 38, 2)]
            linef = [None] * 50
            for i in idx:
                y, d, ms = tg.fields(p["rec"][i])
                linef[i] = (y, d + 1, ms + 30000 - 86400000)
        elif family == "sanitiser-witness":
            idx = sorted(int(k) for k in wit["line_fields"])
            linef = [None] * len(p["nums"])
            for k, f in wit["line_fields"].items():
                linef[int(k)] = tuple(f)
        else:
            linef, idx = corrupt(rng, p, frac, family)
        data = tg.build(p, line_fields=linef)
        ctx = dict(fmt=fmt, n=n, fraction=frac, family=family, kind=kind, first=p["nums"][0], gaps=p["gaps"],
                   start=str(tg.dt_of(p["start"])), corrupted=len(idx), seed=seed)
        try:
            r, t = tg.read_times(fmt, data)
            ok_type = isinstance(t, np.ndarray) and np.issubdtype(t.dtype, np.datetime64)
            got = tg.to_ms_array(t) if ok_type else None
        except Exception as e:  # noqa
            res.violations.append(("get_times raised: %r" % (e,), ctx))
            continue
        res.traces += 1
        surv = [int(x) for x in r.scans["scan_line_number"]]
        if not ok_type or len(got) != len(surv):
            res.violations.append(("get_times did not return one timestamp per line", dict(ctx, type=str(type(t)))))
            continue
        keep = {x: i for i, x in enumerate(p["nums"])}
        sidx = [keep[x] for x in surv]
        truth = [p["rec"][i] for i in sidx]
        lf = [linef[i] for i in sidx]
        ps = dict(p, nums=surv, rec=truth)
        exact_periodic = l1b.FMT[fmt]["res"] == "gac"
        tol = 10000
        bad = [j for j in range(len(surv)) if abs(got[j] - truth[j]) > tol]
        if bad:
            j = bad[0]
            info = dict(ctx, bad_lines=len(bad), line_index=j, truth=str(tg.dt_of(truth[j])), returned=str(tg.dt_of(got[j])),
                        error_ms=got[j] - truth[j], line_was_corrupted=lf[j] is not None)
            if c08_class(ps, lf):
                adversarial_fail.append(info)
            elif scarce_midnight(ps):
                scarce_fail.append(info)
            elif sanitiser_drops_first(p["nums"]) and surv[0] != p["nums"][0] and lf[0] is not None:
                sanit_fail.append(info)
            else:
                res.violations.append(("garbage in fewer than 40 % of the lines is not repaired to within 10 s", info))
        res.add_case((fmt, n, frac, family, kind, p["start"], tuple(idx[:5])), len(idx) > 0,
                     dict(fmt=fmt, n=n, fraction=frac, family=family, first=p["nums"][0], corrupted=len(idx),
                          example=(None if not idx else dict(line=idx[0], fields=linef[idx[0]]))))
        if len(surv) <= 900:
            coq.append((coq_case(ps, got, lf), ctx))
    # ---------- fallback clause: never an exception, never another kind of object ----------
    fb = []
    for fmt in ("gac_klm", "gac_pod", "lac_klm", "lac_pod"):
        fam = l1b.FMT[fmt]["family"]
        for cond in ("backwards", "backwards-far", "header-hours-off", "header-year0", "header-year9999", "header-day0",
                     "header-day400", "header-ms-big", "header-beyond-9999"):
            p = tg.clean_pass(rng, fmt, rng.choice([5, 30, 120]), "plain")
            while cond == "backwards-far" and p["nums"][0] <= 150:
                p = tg.clean_pass(rng, fmt, rng.choice([30, 120]), "plain")
            hx = None
            if cond.startswith("backwards"):
                n = len(p["nums"])
                i = rng.randrange(1, n - 1)
                nums = list(p["nums"])
                if cond == "backwards":
                    nums[i], nums[i + 1] = nums[i + 1], nums[i]
                else:
                    nums = nums[:i] + [x - 100 if x > 100 else x for x in nums[i:]]
                    if nums == p["nums"]:
                        nums[i], nums[i + 1] = nums[i + 1], nums[i]
                p = dict(p, nums=nums)   # recorded times stay as they are: intact clock, broken numbering
            elif cond == "header-hours-off":
                p = dict(p, header=p["header"] + rng.choice([-1, 1]) * rng.randint(3600000, 86400000 * 3))
            elif fam == "klm":
                hx = {"header-year0": {"start_of_data_set_year": 0}, "header-year9999": {"start_of_data_set_year": rng.choice([9999, 10000, 65535])},
                      "header-day0": {"start_of_data_set_day_of_year": 0}, "header-day400": {"start_of_data_set_day_of_year": rng.choice([400, 65535])},
                      "header-ms-big": {"start_of_data_set_utc_time_of_day": 4294967295},
                      # year field in range, but day / millisecond carry the date past 9999-12-31
                      "header-beyond-9999": rng.choice([{"start_of_data_set_year": 9999, "start_of_data_set_day_of_year": 366},
                                                        {"start_of_data_set_year": 9999, "start_of_data_set_day_of_year": 365,
                                                         "start_of_data_set_utc_time_of_day": 90000000},
                                                        {"start_of_data_set_year": 9900, "start_of_data_set_day_of_year": 65535}])}[cond]
            else:
                hx = {"header-year0": {"start_time": [0, 0, 0]}, "header-year9999": {"start_time": [65535, 65535, 65535]},
                      "header-day0": {"start_time": [(95 << 9) | 0, 0, 0]}, "header-day400": {"start_time": [(95 << 9) | 400, 0, 0]},
                      "header-ms-big": {"start_time": [(95 << 9) | 100, 2047, 65535]},
                      "header-beyond-9999": {"start_time": [(75 << 9) | 511, 2047, 65535]}}[cond]
            ctx = dict(fmt=fmt, condition=cond, n=len(p["nums"]), numbers=p["nums"][:12], header_fields=hx, seed=seed)
            try:
                data = tg.build(p, header_fields=hx)
                if fam == "pod" and hx is not None:
                    # keep the POD header epoch selectable: the reader derives the header layout from the start time
                    pass
                r, t = tg.read_times(fmt, data)
                ok = isinstance(t, np.ndarray) and np.issubdtype(t.dtype, np.datetime64) and len(t) == len(r.scans)
                if ok and hx is None and [int(x) for x in r.scans["scan_line_number"]] == list(p["nums"]) and len(p["nums"]) <= 900:
                    # the values: the model (stage 1, then the refusal of stage 2) must give the very times the reader returns
                    coq.append((coq_case(dict(p), tg.to_ms_array(t)), dict(ctx, fallback=True)))
            except Exception as e:  # noqa
                if fam == "pod" and hx is not None and not isinstance(e, (AttributeError, TypeError, KeyError, IndexError)):
                    # a POD file whose header start time is garbage cannot even be opened (the header layout is chosen
                    # from it): that is read(), not get_times(); skipped and counted
                    res.notes["pod_header_unreadable"] = res.notes.get("pod_header_unreadable", 0) + 1
                    continue
                res.violations.append(("fallback clause: get_times raised %r" % (e,), ctx))
                continue
            if not ok:
                res.violations.append(("fallback clause: get_times returned %s instead of one timestamp per line" % type(t).__name__, ctx))
                continue
            fb.append(cond)
            res.add_case((fmt, cond, tuple(p["nums"][:6])), True, dict(fmt=fmt, fallback_condition=cond))
    # header inconsistent with the lines, plus a few (< 1 %) decoy lines that agree with the wrong header: stage 2 must
    # refuse (too few lines near the header) and the intact lines must come back as recorded
    for fmt in ("gac_klm", "gac_pod", "lac_klm"):
        n = 400 if l1b.FMT[fmt]["res"] == "gac" else 300
        p = tg.clean_pass(rng, fmt, n, "plain")
        while not (4 * 3600000 < p["start"] % 86400000 < 19 * 3600000):
            p = tg.clean_pass(rng, fmt, n, "plain")
        p["header"] = tg.header_ms(fmt, p["nums"], p["start"], "line1")
        shift = rng.choice([7200000, -3 * 3600000, 86400000, 86400000])
        decoys = sorted(rng.sample(range(1, len(p["nums"]) - 1), 1))   # decoy + spoiled successor: 2 lines, strictly < 1 %
        linef = [None] * len(p["nums"])
        for i in decoys:
            linef[i] = tg.fields(p["rec"][i] + shift)
        p2 = dict(p, header=p["header"] + shift)
        ctx = dict(fmt=fmt, condition="header-off-with-decoys", n=n, header_shift_ms=shift, decoy_lines=decoys, seed=seed)
        try:
            r, t = tg.read_times(fmt, tg.build(p2, line_fields=linef))
            got = tg.to_ms_array(t)
        except Exception as e:  # noqa
            res.violations.append(("fallback clause: get_times raised %r" % (e,), ctx))
            continue
        surv = [int(x) for x in r.scans["scan_line_number"]]
        if surv == p["nums"]:
            # a decoy dated to the next day also spoils its direct successor in stage 1 (max(jday) rule): excluded
            bad = [i for i in range(len(surv)) if linef[i] is None and (i == 0 or linef[i - 1] is None)
                   and abs(got[i] - p["rec"][i]) > 1]
            if bad:
                res.violations.append(("fallback clause: header inconsistent with the lines, yet intact recorded times were changed",
                                       dict(ctx, changed_lines=len(bad), first=bad[0], error_ms=got[bad[0]] - p["rec"][bad[0]])))
            coq.append((coq_case(dict(p2, header_for_model=p2["header"]), got, linef), ctx))
            fb.append("header-off-with-decoys")
            res.add_case((fmt, "decoys", shift, tuple(decoys)), True, dict(fmt=fmt, fallback_condition="header-off-with-decoys", shift_ms=shift))
    res.notes["fallback_cases"] = len(fb)
    res.notes["adversarial_failures_attributed_to_F-C08-1"] = len(adversarial_fail)
    res._c08_known = adversarial_fail
    res._c08_scarce = scarce_fail
    res._c08_sanit = sanit_fail
    res.notes["failures_attributed_to_F-C08-3"] = len(sanit_fail)
    res.notes["failures_attributed_to_F-C08-2"] = len(scarce_fail)
    failing, logs = common.coq_eval("c08_times", "From PV Require Import M_Times Gen_Consts.", "(check_times %s)" % TH,
                                    [c for c, _ in coq], shard=12, ctype=CTYPE)
    res.notes["coq_pass_cases"] = len(coq)
    for kind, idx, msg in failing:
        if kind == "error":
            res.no_input.append("correspondence corr_C08 could not be evaluated: " + msg[-300:])
        else:
            res.no_input.append("corr_C08: stage-1/stage-2 model and implementation disagree on pass %s" % (coq[idx][1],))
    res.violations = res.violations[:5]


def garbage_instant(f):
    y, d, ms = f
    try:
        return tg.ms_of(datetime.datetime(y, 1, 1)) + (d - 1) * 86400000 + ms
    except (ValueError, OverflowError):
        return None


def c08_class(p, linef):
    """Class predicate of the open finding F-C08-1, decided on the INPUT (so that a defect in the repair code cannot
    hide behind it): the corrupted lines whose garbage time lies within 6 min of their true time (but more than 10 s
    off) are at least as many as the intact lines that do not directly follow a corrupted line."""
    near_garbage = 0
    safe_exact = 0
    for i, f in enumerate(linef):
        if f is None:
            if i == 0 or linef[i - 1] is None:
                safe_exact += 1
        else:
            g = garbage_instant(f)
            if g is not None and 10000 < abs(g - p["rec"][i]) <= 360000:
                near_garbage += 1
    return near_garbage >= safe_exact


def scarce_midnight(p):
    """Class predicate of F-C08-2 (same root cause as F-C03-1): the pass crosses UTC midnight and fewer than 1 % of its
    lines lie before midnight, so stage 2 finds too few lines near the header to undo stage 1's extrapolation."""
    day0 = p["rec"][0] // 86400000
    before = sum(1 for t in p["rec"] if t // 86400000 == day0)
    return before < len(p["rec"]) and before * 100 < len(p["rec"])


def sanitiser_drops_first(nums):
    """Class predicate of F-C08-3, decided on the INPUT line numbers alone (all intact, increasing): the documented
    statistical rule of the line-number sanitising (>= 50 records off the median offset, mean/median of those deviations
    < 3: threshold = mean + 3 standard deviations, which can be far below 500 lines) excludes the FIRST record although
    its number is correct -- the time repair then starts from the second record."""
    import statistics
    n = len(nums)
    offs = [x - (i + 1) for i, x in enumerate(nums)]
    med = statistics.median(offs)
    diffs = [abs(o - med) for o in offs]
    nz = [x for x in diffs if x > 0]
    if len(nz) < 50 or any(b <= a for a, b in zip(nums, nums[1:])):
        return False
    mean = sum(nz) / len(nz)
    if mean / statistics.median(nz) >= 3:
        return False
    std = statistics.pstdev(nz)
    return diffs[0] > mean + 3 * std


def known(res):
    for f in common.known_findings(PROP):
        if f["status"] != "open":
            continue
        hits = getattr(res, {"F-C08-1": "_c08_known", "F-C08-2": "_c08_scarce", "F-C08-3": "_c08_sanit"}[f["id"]], [])
        if hits:
            res.known.append("%s (%d generated passes of this class failed in this run)" % (f["line"], len(hits)))
