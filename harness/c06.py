"""C06 -- returned coordinates reproduce the file's tie points over the whole globe."""
import datetime
import os
import random
import warnings
from fractions import Fraction

import numpy as np

import common
import impl
import l1b
import timesgen as tg
from c09 import truth_positions, gc_dist

PROP = "C06"
RULE = ("(A) all four formats, passes of 1..40 lines whose 51 x 2 earth-location words are drawn over the whole representable range "
        "(extremes +-180/+-90 and one unit beyond, date-line and pole sequences, random 16/32-bit words, flagged lines): with "
        "interpolation disabled the 51 returned columns are compared with word/128 resp. word/1e4 (1e-6 degree) by an exact Python "
        "oracle and by the Coq model (check_ties); with interpolation enabled shape, range and NaN rows; (B) equatorial and meridional "
        "linear swaths whose every pixel position is exactly representable (lon = lon0 + j/128): every one of the 409/2048 returned "
        "columns must equal its pixel's position (1e-5 degree), incl. across the date line; (C) real orbit (TLE-propagated, "
        "start times over the whole orbit so that poles and date line are crossed): tie points written from the orbit at scan positions "
        "23.5+40k / 24+40k, returned full-width coordinates compared with the orbit's position of every pixel: 0.005 degree between "
        "first and last tie point, 0.03 degree in the edge columns (POD: plus the 1/128-degree resolution of the format, see ASSUME); "
        "dataset variables longitude/latitude = get_lonlat(). A case = one pass; non-trivial = distinct pass with at least one "
        "unflagged line")
ASSUME = ["POD realistic-orbit tolerance: the file's 1/128-degree words carry up to 0.0055 degree (great circle) of rounding, which the cubic "
          "spline amplifies between the tie points (factor <= 2) and in the extrapolated edge columns (factor <= 6): tolerances 0.005 + 0.011 "
          "and 0.03 + 0.033 degree; the exactly representable swaths of (B) have no such allowance",
          "pyorbital's propagation is the reference for (C)", "the flagged-line mask is the implementation's own (property C07)"]
TB = ["coqc 8.16.1 kernel; Flocq (Reals axioms) for C06_pod_scaling_exact / C06_klm_scaling_error",
      "translator/gen.py (Gen_Geo: probes run through _get_lonlat_from_file, get_lonlat and the interpolators; Gen_Layout field types)",
      "correspondence check_ties evaluated in Coq", "python-geotiepoints is an oracle of the model (contract: shape, tie points reproduced at their columns)"]

TIE_COLS = {"gac": [4 + 8 * k for k in range(51)], "lac": [24 + 40 * k for k in range(51)]}


def optq(v):
    return "None" if np.isnan(v) else "(Some %s)" % common.qlit(Fraction(float(v)).limit_denominator(10 ** 9))


def words_for(rng, fam, kind, nlines):
    scale = 128 if fam == "pod" else 10000
    lim = 32767 if fam == "pod" else 2 ** 31 - 1
    rows = []
    for i in range(nlines):
        if kind == "extremes":
            pool_lon = [180 * scale, -180 * scale, 180 * scale + 1, -180 * scale - 1, 0, 1, -1, 179 * scale + scale - 1, lim, -lim - 1]
            pool_lat = [90 * scale, -90 * scale, 90 * scale + 1, -90 * scale - 1, 0, 1, -1, 89 * scale + scale - 1, lim, -lim - 1]
            lo = [rng.choice(pool_lon) for _ in range(51)]
            la = [rng.choice(pool_lat) for _ in range(51)]
        elif kind == "random":
            lo = [rng.randrange(-lim - 1, lim + 1) for _ in range(51)]
            la = [rng.randrange(-lim - 1, lim + 1) for _ in range(51)]
        elif kind == "globe":
            lo = [rng.randrange(-180 * scale, 180 * scale + 1) for _ in range(51)]
            la = [rng.randrange(-90 * scale, 90 * scale + 1) for _ in range(51)]
        elif kind == "dateline":
            base = 179.0 + 0.01 * i
            lo = [int(round((((base + 0.05 * k) + 180) % 360 - 180) * scale)) for k in range(51)]
            la = [int(round((10 + 0.03 * i - 0.002 * k) * scale)) for k in range(51)]
        elif kind == "onebad":   # a smooth track; on some lines ONE tie point carries an out-of-range word (no quality flag)
            lo = [int(round((-163.0 + 0.01 * i + 0.25 * k) * scale)) for k in range(51)]
            la = [int(round((10 + 0.03 * i - 0.002 * k) * scale)) for k in range(51)]
            if rng.random() < 0.5:
                k = rng.randrange(51)
                if rng.random() < 0.5:
                    lo[k] = rng.choice([200, -190, 250]) * scale
                else:
                    la[k] = rng.choice([95, -93]) * scale
        elif kind == "nearpole":   # a smooth track over the pole: the nadir tie point lies within 0.01 degree of the pole (or on it)
            lo = [int(round((-60.0 if k < 25 else 120.0) * scale)) for k in range(51)]
            top = (90.0, 89.995, 89.9999)[i % 3]
            la = [min(90 * scale, int(round((top - abs(k - 25) * 0.21 - (0.0 if k == 25 else 0.003 * i)) * scale))) for k in range(51)]
        else:       # pole
            lo = [int(round((((-170 + 7.0 * k) + 180) % 360 - 180) * scale)) for k in range(51)]
            la = [int(round((89.9 - abs(k - 25) * 0.05 - 0.001 * i) * scale)) for k in range(51)]
        rows.append((lo, la))
    return rows


def part_a(res, rng, tier, seed, coq):
    reps = 2 if tier == "quick" else 10
    for _ in range(reps):
        for fmt, sc, year in (("gac_pod", "noaa11", 1990), ("lac_pod", "noaa14", 1996), ("gac_klm", "noaa16", 2003), ("lac_klm", "noaa18", 2008)):
            fam = l1b.FMT[fmt]["family"]
            scale = 128 if fam == "pod" else 10000
            for kind in ("extremes", "random", "globe", "dateline", "pole", "onebad", "nearpole"):
                n = rng.choice([1, 2, 3, 7, 20, 40]) if kind not in ("onebad", "nearpole") else rng.choice([7, 20])
                rows = words_for(rng, fam, kind, n)
                start = datetime.datetime(year, 3, 4, 5, 6, 7)
                flagged = [rng.random() < 0.15 for _ in range(n)]
                lines = l1b.default_lines(fmt, n, start, qual=[(1 << 31) if f else 0 for f in flagged],
                                          latlon=lambda i: ([w / float(scale) for w in rows[i][1]], [w / float(scale) for w in rows[i][0]]),
                                          noise=random.Random(rng.getrandbits(32)))   # every other field of the records: random bytes
                for i, ln in enumerate(lines):      # the words themselves, not a rounding of a float
                    ln["lats"], ln["lons"] = list(rows[i][1]), list(rows[i][0])
                data = l1b.build_file(fmt, sc, start, lines)
                ctx = dict(fmt=fmt, kind=kind, lines=n, seed=seed)
                try:
                    with warnings.catch_warnings():
                        warnings.simplefilter("ignore")
                        r = impl.open_reader(fmt, data, interpolate_coords=False, adjust_clock_drift=False)
                        lons, lats = r.get_lonlat()
                        mask = np.array(r.mask)
                        r2 = impl.open_reader(fmt, data, interpolate_coords=True, adjust_clock_drift=False)
                        flons, flats = r2.get_lonlat()
                        ds = r2.create_counts_dataset()
                except Exception as e:  # noqa
                    import traceback
                    res.violations.append(("get_lonlat raised %r on representable tie points" % (e,), dict(ctx, traceback=traceback.format_exc()[-500:])))
                    continue
                res.traces += 1
                width = l1b.FMT[fmt]["width"]
                if lons.shape != (n, 51) or lats.shape != (n, 51):
                    res.violations.append(("with interpolation disabled the result is not one row of 51 tie-point columns per scan line", dict(ctx, shape=list(lons.shape))))
                    continue
                if flons.shape != (n, width) or flats.shape != (n, width):
                    res.violations.append(("with interpolation enabled the result is not one full-width row per scan line", dict(ctx, shape=list(flons.shape), width=width)))
                if not (impl.nan_eq(ds["longitude"].values, flons) and impl.nan_eq(ds["latitude"].values, flats)):
                    res.violations.append(("dataset variables longitude/latitude differ from get_lonlat()", ctx))
                for name, arr, lim in (("longitude", flons, 180.0), ("latitude", flats, 90.0), ("longitude", lons, 180.0), ("latitude", lats, 90.0)):
                    bad = ~np.isnan(arr) & (np.abs(arr) > lim)
                    if bad.any():
                        res.violations.append(("returned %s outside its range" % name, dict(ctx, value=float(arr[bad][0]))))
                if mask.any() and not (np.isnan(flons[mask]).all() and np.isnan(lons[mask]).all() and np.isnan(lats[mask]).all()):
                    res.violations.append(("coordinates of a flagged line are not NaN", ctx))
                if kind in ("onebad", "nearpole") and flons.shape == (n, width):
                    # with interpolation on, the in-range tie points of an unflagged line are still reproduced (1e-6 degree),
                    # whatever the other words of the line are
                    cols = TIE_COLS[l1b.FMT[fmt]["res"]]
                    for i in range(n):
                        if mask[i]:
                            continue
                        badk = [k for k in range(51) if abs(rows[i][0][k]) <= 180 * scale and abs(rows[i][1][k]) <= 90 * scale and (
                            np.isnan(flons[i, cols[k]]) or np.isnan(flats[i, cols[k]])
                            or (abs(rows[i][1][k]) < 89.9 * scale and abs((float(flons[i, cols[k]]) - rows[i][0][k] / float(scale) + 180) % 360 - 180) > 1e-6)
                            or abs(float(flats[i, cols[k]]) - rows[i][1][k] / float(scale)) > 1e-6)]
                        if badk:
                            k = badk[0]
                            res.violations.append(("with interpolation enabled an in-range tie point of an unflagged line is not reproduced (1e-6 degree)",
                                                   dict(ctx, line_index=i, tie_point=k, tie_points_lost=len(badk), file=[rows[i][0][k] / float(scale), rows[i][1][k] / float(scale)],
                                                        returned=[float(flons[i, cols[k]]), float(flats[i, cols[k]])],
                                                        out_of_range_words=[kk for kk in range(51) if abs(rows[i][0][kk]) > 180 * scale or abs(rows[i][1][kk]) > 90 * scale])))
                            break
                # exact oracle
                done = False
                for i in range(n):
                    for k in range(51):
                        for name, got, w, lim in (("longitude", lons[i, k], rows[i][0][k], 180), ("latitude", lats[i, k], rows[i][1][k], 90)):
                            exp = Fraction(w, scale)
                            if mask[i] or abs(exp) > lim:
                                ok = bool(np.isnan(got))
                            else:
                                ok = (not np.isnan(got)) and abs(Fraction(float(got)) - exp) <= Fraction(1, 10 ** 6)
                            if not ok and not done:
                                done = True
                                res.violations.append(("tie-point %s is not the file's word scaled by 1/%d degree" % (name, scale),
                                                       dict(ctx, line_index=i, tie_point=k, word=w, returned=None if np.isnan(got) else float(got),
                                                            expected=None if (mask[i] or abs(exp) > lim) else float(exp), flagged=bool(mask[i]))))
                res.add_case((fmt, kind, n, tuple(rows[0][0][:4])), not mask.all(), dict(ctx, flagged_lines=int(mask.sum())))
                if n <= 7 and len(coq) < (60 if tier == "quick" else 300):
                    lines_lit = "[%s]" % "; ".join("mkLine %s %s %s" % (common.blit(bool(mask[i])), common.zlist(rows[i][0]), common.zlist(rows[i][1])) for i in range(n))
                    got_lit = "[%s]" % "; ".join("([%s], [%s])" % ("; ".join(optq(v) for v in lons[i]), "; ".join(optq(v) for v in lats[i])) for i in range(n))
                    coq.append(("(%s, %s, %s, %s, %s)" % (common.qlit(Fraction(scale)), common.qlit(Fraction(180)), common.qlit(Fraction(90)), lines_lit, got_lit), ctx))


def part_b(res, rng, tier, seed):
    """Exactly representable linear swaths: every returned column must be its pixel's position."""
    for fmt, sc, year in (("gac_pod", "noaa11", 1990), ("lac_pod", "noaa14", 1996), ("gac_klm", "noaa16", 2003), ("lac_klm", "noaa18", 2008)):
        fam, res_, width = l1b.FMT[fmt]["family"], l1b.FMT[fmt]["res"], l1b.FMT[fmt]["width"]
        cols = TIE_COLS[res_]
        for kind in (["equator", "dateline", "meridian"] if tier == "quick" else ["equator", "dateline", "meridian"] * 3):
            n = rng.choice([1, 4, 15])
            step = Fraction(1, 128) if fam == "pod" else Fraction(1, 100)     # exactly representable in the format's unit
            if kind == "equator":
                lon0 = Fraction(rng.randrange(-150 * 128, 100 * 128), 128) if fam == "pod" else Fraction(rng.randrange(-15000, 10000), 100)
            elif kind == "dateline":
                lon0 = 180 - step * rng.randrange(5, width - 5)
            else:
                lon0 = Fraction(rng.randrange(-170 * 128, 170 * 128), 128) if fam == "pod" else Fraction(rng.randrange(-17000, 17000), 100)

            def pix(i, j):
                if kind == "meridian":      # pixels along a meridian: lat = j/128 - 8, lon constant
                    return (lon0, step * j - 8 + step * i)
                lon = lon0 + step * j
                lon = (lon + 180) % 360 - 180
                return (lon, step * i)
            start = datetime.datetime(year, 3, 4, 5, 6, 7)
            lines = l1b.default_lines(fmt, n, start, latlon=lambda i: ([float(pix(i, c)[1]) for c in cols], [float(pix(i, c)[0]) for c in cols]))
            ctx = dict(fmt=fmt, kind=kind, lines=n, lon0=float(lon0), seed=seed)
            try:
                with warnings.catch_warnings():
                    warnings.simplefilter("ignore")
                    r = impl.open_reader(fmt, l1b.build_file(fmt, sc, start, lines), adjust_clock_drift=False)
                    lons, lats = r.get_lonlat()
            except Exception as e:  # noqa
                res.violations.append(("get_lonlat raised %r on a linear swath" % (e,), ctx))
                continue
            res.traces += 1
            exp_lon = np.array([[float(pix(i, j)[0]) for j in range(width)] for i in range(n)])
            exp_lat = np.array([[float(pix(i, j)[1]) for j in range(width)] for i in range(n)])
            if lons.shape != exp_lon.shape:
                res.violations.append(("full-width result has the wrong shape", dict(ctx, shape=list(lons.shape))))
                continue
            dlon = np.abs((lons - exp_lon + 180) % 360 - 180)
            dlat = np.abs(lats - exp_lat)
            # an INTERPOLATED pixel lying exactly on the antimeridian of an exactly symmetric synthetic swath gets y == 0.0 exactly, for
            # which the third-party geotiepoints conversion (acos(x/r) * sign(y)) returns longitude 0: outside the pixel clause's
            # quantifier (real orbits), not compared
            degenerate = (np.abs(exp_lon) == 180.0) & ~np.isin(np.arange(width), cols)[None, :]
            dlon[degenerate] = 0.0
            dlat[degenerate] = 0.0
            worst = float(max(np.nanmax(dlon), np.nanmax(dlat)))
            if np.isnan(lons).any() or worst > 1e-5:
                i, j = np.unravel_index(np.nanargmax(np.maximum(dlon, dlat)), dlon.shape)
                res.violations.append(("a returned column does not carry the position of its own pixel (tie points attributed to the wrong pixels)",
                                       dict(ctx, line_index=int(i), column=int(j), returned=[float(lons[i, j]), float(lats[i, j])],
                                            pixel_position=[float(exp_lon[i, j]), float(exp_lat[i, j])], worst_deg=worst)))
            res.add_case((fmt, kind, n, float(lon0)), True, dict(ctx, worst_deg=worst))


def part_c(res, rng, tier, seed, d):
    tle_dir, tle_name = impl.make_tle_dir(d)
    plans = [("gac_klm", "noaa16"), ("lac_klm", "noaa16"), ("gac_pod", "noaa14"), ("lac_pod", "noaa14")]
    reps = 2 if tier == "quick" else 8
    for rep in range(reps):
        for fmt, sc in plans:
            fam, res_, width = l1b.FMT[fmt]["family"], l1b.FMT[fmt]["res"], l1b.FMT[fmt]["width"]
            n = rng.choice([40, 120]) if res_ == "gac" else rng.choice([60, 150])
            if rep == 0 and fmt == "gac_klm":
                n = 4500        # a long pass (more than a third of an orbit)
            if rep == 1 and fmt == "gac_pod" and tier == "thorough":
                n = 13000       # a whole orbit
            if (rep == 0 and fmt == "lac_klm") or (rep == 1 and fmt in ("gac_klm", "lac_pod")):
                n = rng.choice([1, 2, 3])     # the shortest passes: the across-track interpolation is the same cubic one
            # any position of the orbit (period about 102 min), any day of a month
            t0 = tg.ms_of(datetime.datetime(2001, 3, 4, 0, 0, 0)) + rng.randrange(0, 30 * 86400) * 1000
            start = tg.dt_of(t0)
            period_us = 500000.0 if res_ == "gac" else 1e6 / 6
            times_us = [t0 * 1000 + int(round(i * period_us)) for i in range(n)]
            tie_pos = [23.5 + 40 * k for k in range(51)] if res_ == "gac" else [24.0 + 40 * k for k in range(51)]
            pix_pos = [3.5 + 5 * j for j in range(409)] if res_ == "gac" else [float(j) for j in range(2048)]
            ctx = dict(fmt=fmt, lines=n, start=str(start), seed=seed, orbit="TLE noaa16")
            try:
                with warnings.catch_warnings():
                    warnings.simplefilter("ignore")
                    probe = impl.open_reader(fmt, l1b.build_file(fmt, sc, start, l1b.default_lines(fmt, 2, start)), tle_dir=tle_dir,
                                             tle_name=tle_name, tle_thresh=40000)
                    tlon, tlat = truth_positions(probe, times_us, tie_pos)
                    plon, plat = truth_positions(probe, times_us, pix_pos)
                    lines = l1b.default_lines(fmt, n, start, latlon=lambda i: (list(tlat[i]), list(tlon[i])),
                                              noise=(random.Random(rng.getrandbits(32)) if n < 1000 else None))
                    r = impl.open_reader(fmt, l1b.build_file(fmt, sc, start, lines), adjust_clock_drift=False,
                                         tle_dir=tle_dir, tle_name=tle_name, tle_thresh=40000)
                    lons, lats = r.get_lonlat()
            except Exception as e:  # noqa
                import traceback
                res.violations.append(("get_lonlat raised %r on a real-orbit pass" % (e,), dict(ctx, traceback=traceback.format_exc()[-500:])))
                continue
            res.traces += 1
            if lons.shape != (n, width):
                res.violations.append(("full-width result has the wrong shape", dict(ctx, shape=list(lons.shape))))
                continue
            if 40 <= n <= 200 and rep in (0, 1):
                # writing the legacy files of the whole pass in between does not change what get_lonlat returns
                try:
                    out_ = os.path.join(d, "save_%s_%d" % (fmt, rep))
                    os.makedirs(out_, exist_ok=True)
                    before_ = (np.array(lons, copy=True), np.array(lats, copy=True))
                    with warnings.catch_warnings():
                        warnings.simplefilter("ignore")
                        r.save(0, 0, output_dir=out_ + "/")
                        lons_b, lats_b = r.get_lonlat()
                    if not (impl.nan_eq(lons_b, before_[0]) and impl.nan_eq(lats_b, before_[1])):
                        res.violations.append(("get_lonlat() after a save() of the whole pass no longer returns the coordinates it returned before",
                                               dict(ctx, max_longitude=float(np.nanmax(np.abs(lons_b))))))
                except Exception as e:  # noqa
                    res.violations.append(("save() of the whole pass raised %r" % (e,), ctx))
            cols = TIE_COLS[res_]
            scale = 128.0 if fam == "pod" else 1e4
            wlon = np.array([ln["lons"] for ln in lines]) / scale
            wlat = np.array([ln["lats"] for ln in lines]) / scale
            dl = np.abs((lons[:, cols].astype(float) - wlon + 180) % 360 - 180)
            db = np.abs(lats[:, cols].astype(float) - wlat)
            if max(dl.max(), db.max()) > 1e-6:
                i, k = np.unravel_index(np.argmax(np.maximum(dl, db)), dl.shape)
                res.violations.append(("with interpolation enabled the tie-point columns do not carry the file's tie points (1e-6 degree)",
                                       dict(ctx, line_index=int(i), tie_point=int(k), column=cols[int(k)], file=[float(wlon[i, k]), float(wlat[i, k])],
                                            returned=[float(lons[i, cols[k]]), float(lats[i, cols[k]])], dtype=str(lons.dtype),
                                            tie_points_off=int(((dl > 1e-6) | (db > 1e-6)).sum()))))
            dist = gc_dist(lons, lats, plon, plat)
            q = 0.0055 if fam == "pod" else 0.0
            tol_in, tol_edge = 0.005 + 2 * q, 0.03 + 6 * q
            inner = dist[:, cols[0]:cols[-1] + 1]
            edge = np.concatenate([dist[:, :cols[0]], dist[:, cols[-1] + 1:]], axis=1)
            ctx2 = dict(ctx, lat_range=[float(np.min(plat)), float(np.max(plat))], crosses_dateline=bool(np.max(np.abs(np.diff(plon, axis=1))) > 180),
                        inner_max_deg=float(np.nanmax(inner)), edge_max_deg=float(np.nanmax(edge)))
            if np.isnan(dist).any():
                res.violations.append(("NaN coordinates on an unflagged real-orbit pass", ctx2))
            elif inner.max() > tol_in:
                i, j = np.unravel_index(np.argmax(inner), inner.shape)
                res.violations.append(("interpolated coordinates between the first and last tie point are farther than 0.005 degree from the pixel's true position",
                                       dict(ctx2, line_index=int(i), column=int(j + cols[0]), tolerance=tol_in)))
            elif edge.max() > tol_edge:
                res.violations.append(("extrapolated edge columns are farther than 0.03 degree from the pixel's true position", dict(ctx2, tolerance=tol_edge)))
            key = "worst_inner_%s" % fam
            res.notes[key] = max(res.notes.get(key, 0.0), float(inner.max()) if inner.max() <= tol_in else 0.0)
            res.add_case((fmt, n, str(start)), True, ctx2)


def run(res, tier, seed):
    rng = common.rng_for(seed, PROP)
    coq = []
    part_a(res, rng, tier, seed, coq)
    part_b(res, rng, tier, seed)
    with common.scratch_dir() as d:
        part_c(res, rng, tier, seed, d)
    failing, logs = common.coq_eval("c06", "From PV Require Import M_Geo.", "check_ties", [c for c, _ in coq], shard=8,
                                    ctype="Q * Q * Q * list line * list (list (option Q) * list (option Q))")
    res.notes["coq_cases"] = len(coq)
    for kind, idx, msg in failing:
        res.no_input.append("corr_C06: " + (msg[-300:] if kind == "error" else "read-out model and get_lonlat disagree on %s" % (coq[idx][1],)))
    res.violations = res.violations[:6]
