"""C09 -- POD clock-drift correction shifts time and position consistently, exactly once."""
import datetime
import os
import math
import warnings
from fractions import Fraction
from unittest import mock

import numpy as np

import common
import impl
import l1b
import timesgen as tg

PROP = "C09"
RULE = ("(A) real GAC/LAC POD readers on spec-written passes (20..300 lines, first number 1/5/300, gap patterns) with synthetic "
        "clock-error tables (constant +3.75/-2.2/+0.1/-0.07/+12.3/0 s, linear along the pass, several nodes inside the pass, pass "
        "before/after the table) and the real tables of noaa7/9/11/12/14 away from their non-chronological entries; tie points and a "
        "stand-in orbit on the equator encode the line number, so that the returned longitude decodes to the fractional line "
        "actually used: compared with n - err/period (1e-4 line), times with t - trunc(1000 err) (1 ms), the nominal times handed "
        "to the orbit computation with t0 + (m - n0) period; (B) real orbit (TLE-propagated, tie points written with scan "
        "positions 23.5+40k / 24+40k, lines removed, errors +-): returned positions against the orbit evaluated directly at the "
        "corrected times (0.02 degree great-circle), scan positions handed to pyorbital recorded; (C) histories: repeated "
        "get_lonlat/get_times/get_angles/dataset calls, KLM, no table, TLE too old, correction disabled. "
        "A case = (pass, table); non-trivial = non-zero error or a skip configuration")
ASSUME = ["'missing TLE data' = no element set within tle_thresh days, or no TLE file for the spacecraft in the configured directory (both NoTLEData); "
          "an unset TLE directory raises RuntimeError (configuration error)",
          "float64 vs exact rationals: 1 ms on times, 1e-4 line on the fractional line, 1e-9 s on interpolated errors",
          "pyorbital's propagation is the reference for (B): the harness calls it with its own times and scan positions"]
TB = ["coqc 8.16.1 kernel; Reals axioms for the slerp lemmas (C09_slerp_*)", "translator/gen.py (Gen_Drift: line periods, tie-point scan positions, KLM no-op, call sites from the live objects; Gen_Clock tables)", "correspondence check_drift / check_offsets evaluated in Coq",
      "the orbit computation and slerp's trigonometry are oracles of the model (slerp contract slerp p q 0 = p)"]

BASE_LON_STEP = 32.0     # tie-point longitude (degrees) = (line - base) / 32 + 0.5 * column


def interp_q(tab, t):
    """np.interp on an increasing abscissa, exact."""
    if t <= tab[0][0]:
        return tab[0][1]
    for (x0, f0), (x1, f1) in zip(tab, tab[1:]):
        if t < x1:
            return (f1 - f0) / (x1 - x0) * (t - x0) + f0
    return tab[-1][1]


def table_lit(tab):
    return "[%s]" % "; ".join("(%d, %s)" % (x, common.qlit(f)) for x, f in tab)


def synth_table(rng, kind, t_first, t_last):
    span = max(t_last - t_first, 1000)
    F = Fraction
    if kind == "zero":
        return [(t_first - 10 ** 7, F(0)), (t_last + 10 ** 7, F(0))]
    if kind == "const":
        v = rng.choice([F(375, 100), F(-22, 10), F(1, 10), F(-7, 100), F(123, 10), F(1, 2), F(-1, 2), F(59, 100)])
        return [(t_first - 10 ** 7, v), (t_last + 10 ** 7, v)]
    if kind == "linear":
        a, b = F(rng.randrange(-300, 300), 100), F(rng.randrange(-300, 300), 100)
        return [(t_first - rng.randrange(0, 5000), a), (t_last + rng.randrange(1, 5000), b)]
    if kind == "nodes":
        xs = sorted(rng.sample(range(t_first - 2000, t_last + 2000), 5))
        return [(x, F(rng.randrange(-250, 250), 100)) for x in xs]
    if kind == "crossing":   # the error changes sign from negative to positive inside the pass, staying below one line period
        return [(t_first - 1000, F(-rng.randrange(1, 9), 100)), (t_last + 1000, F(rng.randrange(1, 9), 100))]
    if kind == "after":      # the pass lies after the table's end
        return [(t_first - 10 ** 8, F(-4, 10)), (t_first - 10 ** 6, F(131, 100))]
    if kind == "before":
        return [(t_last + 10 ** 6, F(-83, 100)), (t_last + 10 ** 8, F(2))]
    raise ValueError(kind)


def as_offsets(tab):
    return ([datetime.datetime(1970, 1, 1) + datetime.timedelta(milliseconds=x) for x, _ in tab], [float(f) for _, f in tab])


def numbers_for(rng, n, first, pattern):
    if pattern == "none":
        return list(range(first, first + n))
    nums, k = [], first
    while len(nums) < n:
        if pattern == "single" and len(nums) == n // 2 and k == first + n // 2:
            k += 1
            continue
        if pattern == "block" and first + n // 3 <= k < first + n // 3 + 7:
            k += 1
            continue
        if pattern == "random" and rng.random() < 0.12 and nums:
            k += rng.choice([1, 2, 5])
        nums.append(k)
        k += 1
    return nums


def part_a(res, rng, tier, seed, gen, coq):
    plans = []
    reps = 2 if tier == "quick" else 10
    for _ in range(reps):
        for fmt in ("gac_pod", "lac_pod"):
            for kind in ("const", "const", "linear", "nodes", "zero", "after", "before", "crossing"):
                plans.append((fmt, "noaa14", kind))
        plans += [("gac_pod", "noaa11", "real"), ("gac_pod", "noaa9", "real"), ("lac_pod", "noaa7", "real"),
                  ("gac_pod", "noaa14", "real"), ("gac_pod", "noaa12", "real")]
    clock = gen["Gen_Clock"]
    for fmt, sc, kind in plans:
        res_ = l1b.FMT[fmt]["res"]
        rate_us = gen["Gen_Drift"][res_ + "_rate_us"]
        step_us = rate_us      # the model hands out nominal times on the reader's own line period; the implementation is compared with it
        # the stand-in trajectory runs at the reader's own line period (timedelta(milliseconds=1/scan_freq): 500000 / 166667 us;
        # C09_source_shape pins these values, 2e-6 relative from 1/6 s)
        true_period_us = Fraction(rate_us)
        n = rng.choice([20, 60, 150, 300])
        first = rng.choice([1, 5, 300])
        nums = numbers_for(rng, n, first, "none" if kind == "crossing" else rng.choice(["none", "single", "block", "random"]))
        if kind == "real":
            rows = [(int(x), Fraction(int(f["num"]), int(f["den"]))) for x, f in clock[sc]]
            inv = [i for i in range(len(rows) - 1) if rows[i + 1][0] < rows[i][0]]
            while True:      # a time covered by exactly one pair of consecutive entries and by no overlap of two periods
                j = rng.randrange(len(rows) - 1)
                lo, hi = rows[j][0], rows[j + 1][0]
                if hi - lo <= 86400000 * 3:
                    continue
                t0 = rng.randrange(lo + 86400000, hi - 86400000)
                cover = sum(1 for q in range(len(rows) - 1) if rows[q][0] <= t0 < rows[q + 1][0])
                if cover == 1 and not any(rows[i + 1][0] - 86400000 <= t0 <= rows[i][0] + 86400000 for i in inv):
                    break
            tab = rows
        else:
            t0 = tg.ms_of(datetime.datetime(2001, 3, 4, 10, 0, 0)) + rng.randrange(0, 10 ** 7)
            tab = None
        start = tg.dt_of(t0)
        base = nums[0] - 200
        lines = l1b.default_lines(fmt, n, start, numbers=nums,
                                  latlon=lambda i: ([0.0] * 51, [(nums[i] - base) / BASE_LON_STEP + 0.5 * k - 12.0 for k in range(51)]))
        data = l1b.build_file(fmt, sc, start, lines)
        ctx = dict(fmt=fmt, spacecraft=sc, table=kind, lines=n, first_number=nums[0], last_number=nums[-1], start=str(start), seed=seed)
        recorded = {}
        try:
            r = impl.open_reader(fmt, data, interpolate_coords=False, tle_dir="/nonexistent", tle_name="x")
            t_before = tg.to_ms_array(np.array(r.get_times()))
            if tab is None:
                tab = synth_table(rng, kind, int(t_before[0]), int(t_before[-1]))
            got_nums = [int(x) for x in r.scans["scan_line_number"]]

            def fake_orbit(missed_utcs, _r=r, _rec=recorded, _t0=int(t_before[0]), _n0=got_nums[0]):
                us = missed_utcs.astype("datetime64[us]").astype(np.int64)
                _rec["utcs_us"] = [int(x) for x in us]
                frac_line = [Fraction(int(x) - _t0 * 1000) / true_period_us + _n0 for x in us]
                lons = np.array([[float((f - base) / 32) + 0.5 * k - 12.0 for k in range(51)] for f in frac_line]).reshape(-1, 51)
                return lons, np.zeros_like(lons)
            r._compute_missing_lonlat = fake_orbit
            with mock.patch("pygac.pod_reader.get_offsets", (lambda s, _tab=tab: as_offsets(_tab)) if kind != "real" else
                            __import__("pygac.clock_offsets_converter", fromlist=["x"]).get_offsets):
                lons, lats = r.get_lonlat()
                lons2, lats2 = r.get_lonlat()
            t_after = tg.to_ms_array(np.array(r.get_times()))
        except Exception as e:  # noqa
            import traceback
            res.violations.append(("clock-drift correction raised %r" % (e,), dict(ctx, traceback=traceback.format_exc()[-600:])))
            continue
        res.traces += 1
        ok = True
        if lons.shape != (len(got_nums), 51) or np.isnan(lons).any():
            res.violations.append(("corrected coordinates contain unfilled rows (NaN) or have the wrong shape", dict(ctx, shape=list(lons.shape), nan_rows=int(np.isnan(lons).any(axis=1).sum()))))
            continue
        # decode the fractional line actually used; all 51 columns must agree
        dec = (lons + 12.0 - 0.5 * np.arange(51)[None, :]) * 32.0 + base
        if np.max(np.abs(dec - dec[:, :1])) > 1e-6 or np.max(np.abs(lats)) > 1e-6:
            res.violations.append(("tie-point columns are not shifted consistently", dict(ctx)))
            ok = False
        exp_frac, exp_t = [], []
        for nn, tt in zip(got_nums, t_before):
            e = interp_q(tab, int(tt))
            exp_frac.append(nn - e / Fraction(rate_us, 10 ** 6))
            exp_t.append(int(tt) - int(e * 1000))           # int() truncates toward zero
        bad = [i for i in range(len(got_nums)) if abs(dec[i, 0] - float(exp_frac[i])) > 1e-4]
        if bad:
            i = bad[-1]
            res.violations.append(("position of a line is not the trajectory's position at line number n - error/period",
                                   dict(ctx, line_index=i, number=got_nums[i], clock_error_s=float(interp_q(tab, int(t_before[i]))),
                                        fractional_line_used=float(dec[i, 0]), expected=float(exp_frac[i]), lines_affected=len(bad),
                                        table=[(x, float(f)) for x, f in tab][:6])))
            ok = False
        badt = [i for i in range(len(got_nums)) if abs(int(t_after[i]) - exp_t[i]) > 1]
        if badt:
            i = badt[0]
            res.violations.append(("time of a line is not shifted by minus the interpolated clock error",
                                   dict(ctx, line_index=i, recorded=int(t_before[i]), returned=int(t_after[i]), expected=exp_t[i])))
            ok = False
        if not np.array_equal(lons, lons2):
            res.violations.append(("a second get_lonlat() returned different coordinates", ctx))
        # nominal times handed to the orbit computation
        utcs = recorded.get("utcs_us", [])
        present = set(got_nums)
        fl = [math.floor(f) for f in exp_frac]
        lo_, hi_ = min(min(got_nums), min(fl)), max(max(got_nums), max(fl) + 1)
        exp_missed = [m for m in range(lo_, hi_ + 1) if m not in present]
        exp_utcs = [int(t_before[0]) * 1000 + (m - got_nums[0]) * true_period_us for m in exp_missed]
        if len(utcs) != len(exp_missed):
            res.violations.append(("the set of lines recomputed from the orbit is not the set of absent lines of the interpolation range",
                                   dict(ctx, recomputed=len(utcs), expected=len(exp_missed))))
            ok = False
        else:
            worst = max([abs(u - float(x)) for u, x in zip(utcs, exp_utcs)] or [0])
            if worst > 1000 + 2 * len(exp_missed):          # 1 ms + microsecond rounding of the period
                j = max(range(len(utcs)), key=lambda q: abs(utcs[q] - float(exp_utcs[q])))
                res.violations.append(("nominal time of an absent line is not t0 + (m - n0) line periods",
                                       dict(ctx, absent_line=exp_missed[j], handed_to_orbit_us=utcs[j], expected_us=float(exp_utcs[j]),
                                            error_ms=(utcs[j] - float(exp_utcs[j])) / 1000.0)))
                ok = False
        res.add_case((fmt, sc, kind, n, nums[0], len(exp_missed), tuple(tab[:2])), kind != "zero", dict(ctx, recomputed_lines=len(exp_missed)))
        if len(got_nums) <= 150 and len(coq) < (40 if tier == "quick" else 200):
            missed_lines = [round(Fraction(u - int(t_before[0]) * 1000, step_us)) + got_nums[0] for u in utcs]
            sub = tab
            if kind == "real":     # only the neighbourhood of the pass (the model assumes a chronological table)
                jj = max(i for i in range(len(tab)) if tab[i][0] <= t_before[0])
                sub = tab[max(0, jj - 1):jj + 3]
            coq.append(("(%d, %d, %s, [%s], %s, [%s], %s, %s)" % (
                rate_us, step_us, table_lit(sub), "; ".join("(%d, %d)" % (a, b) for a, b in zip(got_nums, t_before)),
                common.zlist([int(x) for x in t_after]),
                "; ".join(common.qlit(Fraction(int(round(float(x) * 10 ** 7)), 10 ** 7)) for x in dec[:, 0]),
                common.zlist(missed_lines), common.zlist(utcs)), ctx))


def truth_positions(reader, times_us, positions):
    """Tie-point positions of the scans observed at the given times (us since 1970) from pyorbital."""
    from pyorbital.geoloc import compute_pixels, get_lonlatalt
    from pyorbital.geoloc_instrument_definitions import avhrr_gac
    t = np.array(times_us, dtype="datetime64[us]")
    order = np.argsort(t)
    ts = t[order]
    with warnings.catch_warnings():
        warnings.simplefilter("ignore")
        sgeom = avhrr_gac(ts.astype(datetime.datetime), np.asarray(positions, dtype=float), frequency=0.5)
        s_times = sgeom.times(ts[0].astype(datetime.datetime))
        # the element set: nearest epoch to the FIRST line's time, found by brute force in the reader's TLE file
        first_ms = int(np.asarray(reader.get_times()[0], dtype="datetime64[ms]").astype("int64"))
        tle_path = os.path.join(reader.tle_dir, reader.tle_name % {"satname": reader.spacecraft_name})
        pix = compute_pixels(impl.nearest_tle(tle_path, first_ms), sgeom, s_times, reader.get_attitude_coeffs())
        lon, lat = get_lonlatalt(pix, s_times)[:2]
    lon = lon.reshape(-1, len(positions))
    lat = lat.reshape(-1, len(positions))
    inv = np.argsort(order)
    return lon[inv], lat[inv]


def gc_dist(lon1, lat1, lon2, lat2):
    a = np.deg2rad(lat1)
    b = np.deg2rad(lat2)
    d = np.deg2rad(lon1 - lon2)
    h = np.sin((a - b) / 2) ** 2 + np.cos(a) * np.cos(b) * np.sin(d / 2) ** 2
    return np.rad2deg(2 * np.arcsin(np.sqrt(np.clip(h, 0, 1))))


def part_b(res, rng, tier, seed, gen, d):
    tle_dir, tle_name = impl.make_tle_dir(d)
    plans = [("gac_pod", 200, "const"), ("lac_pod", 1500, "const"), ("gac_pod", 120, "linear"), ("gac_pod", 90, "crossing"), ("lac_pod", 150, "crossing")]
    if tier != "quick":
        plans += [("gac_pod", 400, "nodes"), ("lac_pod", 2500, "linear"), ("lac_pod", 600, "const"), ("gac_pod", 60, "const")] * 2
    expected_pos = {"gac": [23.5 + 40 * k for k in range(51)], "lac": [24.0 + 40 * k for k in range(51)]}
    for fmt, n, kind in plans:
        res_ = l1b.FMT[fmt]["res"]
        period_us = Fraction(10 ** 6, 2) if res_ == "gac" else Fraction(10 ** 6, 6)
        first = rng.choice([1, 40])
        nums = numbers_for(rng, n, first, "none" if kind == "crossing" else rng.choice(["single", "block", "random"]))
        t0 = tg.ms_of(datetime.datetime(2001, 3, 4, 0, 0, 0)) + rng.randrange(0, 40 * 86400) * 1000
        start = tg.dt_of(t0)
        ctx = dict(fmt=fmt, lines=n, first_number=nums[0], table=kind, start=str(start), seed=seed, orbit="TLE noaa16 (as noaa14)")
        try:
            probe = impl.open_reader(fmt, l1b.build_file(fmt, "noaa14", start, l1b.default_lines(fmt, 2, start)), tle_dir=tle_dir, tle_name=tle_name,
                                     tle_thresh=40000)
            nominal_us = [t0 * 1000 + int(round((m - nums[0]) * period_us)) for m in nums]
            tlon, tlat = truth_positions(probe, nominal_us, expected_pos[res_])
            lines = l1b.default_lines(fmt, n, start, numbers=nums, latlon=lambda i: (list(tlat[i]), list(tlon[i])))
            data = l1b.build_file(fmt, "noaa14", start, lines)
            r = impl.open_reader(fmt, data, interpolate_coords=False, tle_dir=tle_dir, tle_name=tle_name, tle_thresh=40000)
            t_before = tg.to_ms_array(np.array(r.get_times()))
            tab = synth_table(rng, kind, int(t_before[0]), int(t_before[-1]))
            if kind == "const":
                v = rng.choice([Fraction(-31, 10), Fraction(27, 10), Fraction(-1), Fraction(3, 4)])
                tab = [(x, v) for x, _ in tab]
            seen = {}
            import pygac.pod_reader as pr
            real_avhrr = pr.avhrr_gac

            def spy(scan_times, scan_points, *a, **k):
                seen["positions"] = [float(x) for x in np.asarray(scan_points)]
                seen["times"] = len(scan_times) if hasattr(scan_times, "__len__") else int(scan_times)
                return real_avhrr(scan_times, scan_points, *a, **k)
            with mock.patch("pygac.pod_reader.get_offsets", lambda s, _tab=tab: as_offsets(_tab)), mock.patch("pygac.pod_reader.avhrr_gac", spy), \
                    warnings.catch_warnings():
                warnings.simplefilter("ignore")
                lons, lats = r.get_lonlat()
            t_after = tg.to_ms_array(np.array(r.get_times()))
        except Exception as e:  # noqa
            import traceback
            res.violations.append(("clock-drift correction with a real orbit raised %r" % (e,), dict(ctx, traceback=traceback.format_exc()[-600:])))
            continue
        res.traces += 1
        if seen and seen.get("positions") != expected_pos[res_]:      # (nothing is handed over when no line of the range is absent)
            res.violations.append(("absent lines are recomputed with scan positions other than the tie points' (23.5+40k GAC / 24+40k LAC, LAC pixel units)",
                                   dict(ctx, handed_to_pyorbital=(seen.get("positions") or [])[:4], expected=expected_pos[res_][:4])))
        # the orbit evaluated directly at the corrected times
        errs = [interp_q(tab, int(t)) for t in t_before]
        true_us = [int(t) * 1000 - int(round(e * 10 ** 6)) for t, e in zip(t_before, errs)]
        elon, elat = truth_positions(probe, true_us, expected_pos[res_])
        dist = gc_dist(lons, lats, elon, elat)
        worst = float(np.nanmax(dist))
        res.notes["worst_position_error_deg"] = max(res.notes.get("worst_position_error_deg", 0.0), worst if worst < 0.02 else 0.0)
        if np.isnan(lons).any() or worst > 0.02:
            i, k = np.unravel_index(np.nanargmax(dist), dist.shape)
            res.violations.append(("corrected position differs from the orbit's position at the corrected time by more than 0.02 degree",
                                   dict(ctx, line_index=int(i), number=nums[int(i)], column=int(k), clock_error_s=float(errs[int(i)]),
                                        returned=[float(lons[i, k]), float(lats[i, k])], orbit=[float(elon[i, k]), float(elat[i, k])],
                                        distance_deg=worst, lines_over=int((dist.max(axis=1) > 0.02).sum()))))
        res.add_case(("orbit", fmt, n, kind, nums[0], float(errs[0])), True, dict(ctx, worst_deg=worst, recomputed=seen.get("times")))


def part_c(res, rng, tier, seed, gen, d):
    """Exactly once over histories; skip configurations."""
    tle_dir, tle_name = impl.make_tle_dir(d)
    start = datetime.datetime(2001, 5, 6, 7, 8, 9)
    ops = ["lonlat", "times", "angles", "dataset", "lonlat", "calibrated"]
    for fmt, sc, kw, applies in (("gac_pod", "noaa14", {}, True), ("lac_pod", "noaa14", {}, True),
                                 ("gac_pod", "noaa14", dict(adjust_clock_drift=False), False),
                                 ("gac_pod", "noaa10", {}, False), ("gac_pod", "tirosn", {}, False),
                                 ("gac_pod", "noaa14", dict(tle_thresh=3), False),
                                 ("gac_pod", "noaa14", dict(tle_dir=d, tle_name="no_such_%(satname)s.txt"), False),
                                 ("gac_klm", "noaa16", {}, False), ("lac_klm", "noaa18", {}, False)):
        st = start if sc not in ("noaa10", "tirosn") else datetime.datetime(1988 if sc == "noaa10" else 1980, 5, 6, 7, 8, 9)
        if "tle_thresh" in kw:
            st = datetime.datetime(1999, 5, 6, 7, 8, 9)      # more than a year before the first element set of the TLE file
        n = 40
        nums = numbers_for(rng, n, rng.choice([1, 7]), rng.choice(["none", "block"]))
        lines = l1b.default_lines(fmt, n, st, numbers=nums)
        if l1b.FMT[fmt]["family"] == "klm":
            # KLM records carry clock-drift words (2*ms+1 on adjusted lines); their time codes are already UTC: nothing is corrected
            for i, ln in enumerate(lines):
                ln.setdefault("extra", {})["satellite_clock_drift_delta"] = rng.choice([0, 1, 501, 2 * 750 + 1, 201]) if i % 2 else 0
        else:
            for i, ln in enumerate(lines):   # the POD record's own drift word is not what the correction uses (published table)
                ln.setdefault("extra", {})["clock_drift_delta"] = rng.choice([0, 40, 65000])
        data = l1b.build_file(fmt, sc, st, lines)
        kwargs = dict(tle_dir=tle_dir, tle_name=tle_name, tle_thresh=40000, interpolate_coords=False)
        kwargs.update(kw)
        ctx = dict(fmt=fmt, spacecraft=sc, options={k: v for k, v in kw.items()}, seed=seed)
        try:
            with warnings.catch_warnings():
                warnings.simplefilter("ignore")
                ref = impl.open_reader(fmt, data, **dict(kwargs, adjust_clock_drift=False))
                t_file = tg.to_ms_array(np.array(ref.get_times()))
                lo_file, la_file = ref.get_lonlat()
                one = impl.open_reader(fmt, data, **kwargs)
                lo1, la1 = one.get_lonlat()
                t1 = tg.to_ms_array(np.array(one.get_times()))
                r = impl.open_reader(fmt, data, **kwargs)
                hist = [rng.choice(ops) for _ in range(rng.randint(3, 8))]
                for op in hist:
                    if op == "lonlat":
                        r.get_lonlat()
                    elif op == "times":
                        r.get_times()
                    elif op == "angles":
                        r.get_angles()
                    elif op == "dataset":
                        r.create_counts_dataset()
                    else:
                        r.get_calibrated_channels()
                lo2, la2 = r.get_lonlat()
                t2 = tg.to_ms_array(np.array(r.get_times()))
        except Exception as e:  # noqa
            import traceback
            res.violations.append(("configuration in which the correction must be skipped (or applied once) raised %r" % (e,),
                                   dict(ctx, traceback=traceback.format_exc()[-500:])))
            continue
        res.traces += 1
        coord = any(o != "times" for o in hist) or True
        if not (np.array_equal(t1, t2) and impl.nan_eq(lo1, lo2) and impl.nan_eq(la1, la2)):
            res.violations.append(("the correction is not applied exactly once: a history of calls gives other times/positions than a single get_lonlat()",
                                   dict(ctx, history=hist, max_time_difference_ms=int(np.max(np.abs(np.array(t1) - np.array(t2)))))))
        if applies:
            if np.array_equal(t1, t_file):
                res.violations.append(("the correction was not applied although table, TLE and switch are present", ctx))
        else:
            if not (np.array_equal(t1, t_file) and impl.nan_eq(lo1, lo_file) and impl.nan_eq(la1, la_file)):
                res.violations.append(("times/positions altered although the correction must be skipped", ctx))
        res.add_case(("hist", fmt, sc, tuple(sorted(kw.items())), tuple(hist)), True, dict(ctx, history=hist, applies=applies))
    # table presence = the model's has_table
    from pygac.clock_offsets_converter import get_offsets
    have = []
    for sc in ("tirosn", "noaa6", "noaa7", "noaa8", "noaa9", "noaa10", "noaa11", "noaa12", "noaa14"):
        try:
            get_offsets(sc)
            have.append(sc)
        except KeyError:
            pass
    if sorted(have) != sorted(gen["Gen_Clock"].keys()):
        res.no_input.append("corr_C09: spacecraft with a clock table %s differ from the generated tables %s" % (have, sorted(gen["Gen_Clock"])))


def tables_chronological(res, gen):
    """Premise of C09_constant_beyond_ends / C09_interpolation: evaluated in Coq on the generated tables."""
    cases = ["clock_%s" % sc for sc in gen["Gen_Clock"]]
    pre = "Definition check_inv (t : list (Z * Q)) : bool := match inversions t with [] => true | _ => false end.\n"
    failing, _ = common.coq_eval("c09_tabs", "From PV Require Import M_Drift Gen_Clock.", "check_inv", cases, shard=10, preamble=pre,
                                 ctype="list (Z * Q)")
    out = {}
    for kind, idx, msg in failing:
        if kind == "error":
            res.no_input.append("corr_C09/tables: " + msg[-300:])
            continue
        sc = list(gen["Gen_Clock"])[idx]
        rows = gen["Gen_Clock"][sc]
        out[sc] = [i for i in range(len(rows) - 1) if rows[i + 1][0] < rows[i][0]]
    return out


def run(res, tier, seed):
    import l1b as _l1b
    _l1b.AUTO_NOISE = 7919 * seed + 13      # random bytes in every record field the spec writer does not set
    rng = common.rng_for(seed, PROP)
    gen = common.gen_json()
    coq = []
    part_a(res, rng, tier, seed, gen, coq)
    with common.scratch_dir() as d:
        part_b(res, rng, tier, seed, gen, d)
        part_c(res, rng, tier, seed, gen, d)
    failing, logs = common.coq_eval("c09", "From PV Require Import M_Drift.", "check_drift", [c for c, _ in coq], shard=10,
                                    ctype="Z * Z * list (Z * Q) * list (Z * Z) * list Z * list Q * list Z * list Z")
    res.notes["coq_cases"] = len(coq)
    for kind, idx, msg in failing:
        res.no_input.append("corr_C09: " + (msg[-300:] if kind == "error" else "drift model and _adjust_clock_drift disagree on %s" % (coq[idx][1],)))
    # np.interp against the model on the real tables (chronological neighbourhoods)
    res.notes["unsorted_tables"] = tables_chronological(res, gen)
    res.violations = res.violations[:6]


def witness_shift(sc, t0_ms):
    """The shift the real reader applies to a 4-line GAC pass of spacecraft sc starting at t0 (stand-in orbit)."""
    start = tg.dt_of(t0_ms)
    lines = l1b.default_lines("gac_pod", 4, start, latlon=lambda i: ([0.0] * 51, [0.1 * i + 0.5 * k for k in range(51)]))
    r = impl.open_reader("gac_pod", l1b.build_file("gac_pod", sc, start, lines), interpolate_coords=False, tle_dir="/nonexistent", tle_name="x")
    before = tg.to_ms_array(np.array(r.get_times()))
    r._compute_missing_lonlat = lambda utcs: (np.zeros((len(utcs), 51)) + 0.5 * np.arange(51)[None, :], np.zeros((len(utcs), 51)))
    r.get_lonlat()
    after = tg.to_ms_array(np.array(r.get_times()))
    return int(before[0]) - int(after[0])


def known(res):
    """Open finding D8: non-chronological clock tables (np.interp's contract and the property's 'interpolated' are undefined there)."""
    listed = {f["id"]: f for f in common.known_findings(PROP) if f.get("status") == "open"}
    unsorted_ = res.notes.get("unsorted_tables", {})
    clock = common.gen_json()["Gen_Clock"]
    for sc, inv in sorted(unsorted_.items()):
        fid = "F-C09-%s" % sc
        if fid in listed and listed[fid].get("inversions") == inv:
            rows = [(int(x), Fraction(int(f["num"]), int(f["den"]))) for x, f in clock[sc]]
            i = inv[0]
            t = (rows[i + 1][0] + rows[i][0]) // 2          # inside the overlap of the two periods
            try:
                got = witness_shift(sc, t)
                ending = interp_q(rows[max(0, i - 1):i + 1], t)              # the period that ends at entry i
                starting = interp_q(rows[i + 1:i + 3], t)                    # the period that starts at entry i+1
                wit = "witness replayed: at %s the reader shifts by %d ms; the period ending later gives %d ms, the period that has already started %d ms" % (
                    tg.dt_of(t), got, int(ending * 1000), int(starting * 1000))
            except Exception as e:  # noqa
                wit = "witness could not be replayed: %r" % (e,)
            res.known.append("%s clock table of %s is not chronological at entries %s (overlapping correction periods): the error 'interpolated at "
                             "the line's time' is undefined inside the overlaps (%s)" % (fid, sc, inv, wit))
        else:
            res.violations.append(("clock-error table is not chronological (np.interp requires an increasing abscissa)",
                                   dict(spacecraft=sc, entries=inv)))
