"""C16 -- calibration coefficients are a pure function of spacecraft, overrides and file."""
import copy
import datetime
import json
import os
import warnings

import numpy as np

import common
import impl

PROP = "C16"
RULE = ("histories of 6-14 Calibrator requests in one process mixing all 17 spacecraft, the shipped file, an exact copy "
        "(recognised md5), a modified copy (unrecognised), a missing and a malformed file, a file rewritten in place between requests "
        "(three contents), and custom overrides of 0-3 "
        "top-level entries (channels, thermometers, launch date) whose values differ from the file's; every result is "
        "compared field by field with an independent construction from (spacecraft, custom, file content); "
        "the version reported by a reader (meta_data, dataset attrs) over 3-6 calibrations of ONE reader with changing parameters; "
        "a case = one request inside a history; non-trivial = distinct request preceded by a request with a different "
        "file or a custom override")
ASSUME = ["json / md5 as in the Python standard library"]
TB = ["coqc 8.16.1 kernel; vm_compute for the completeness of the generated coefficient table",
      "translator/gen.py (Gen_Coeffs from calibration.json with Decimal parsing, Gen_Consts spacecraft names)",
      "correspondence check_history evaluated in Coq (entry identities)"]

VIS = ("channel_1", "channel_2", "channel_3a")
IR = ("channel_3b", "channel_4", "channel_5")


def expected_arrays(sc, entries):
    """Independent construction of the namedtuple fields from the merged top-level entries."""
    e = entries
    out = {}
    for k in ("dark_count", "gain_switch", "s0", "s1", "s2"):
        out[k] = np.array([e[ch][k] for ch in VIS], dtype=float)
    for k in ("centroid_wavenumber", "space_radiance", "to_eff_blackbody_intercept", "to_eff_blackbody_slope"):
        out[k] = np.array([e[ch][k] for ch in IR], dtype=float)
    out["b"] = np.array([[e[ch][k] for k in ("b0", "b1", "b2")] for ch in IR], dtype=float)
    out["d"] = np.array([[e.get("thermometer_%d" % t, {}).get("d%d" % d, 0.0) for t in range(5)] for d in range(5)], dtype=float)
    out["date_of_launch"] = launch_utc(e["date_of_launch"])
    out["spacecraft"] = sc
    return out


def launch_utc(text):
    """ISO 8601 instant -> naive UTC datetime, parsed here (not with the library call the package uses)."""
    import re
    m = re.fullmatch(r"(\d{4})-(\d\d)-(\d\d)T(\d\d):(\d\d):(\d\d)(?:\.(\d{1,6}))?(Z|[+-]\d\d:\d\d)", text)
    y, mo, d, h, mi, sec = (int(m.group(i)) for i in range(1, 7))
    us = int((m.group(7) or "0").ljust(6, "0"))
    t = datetime.datetime(y, mo, d, h, mi, sec, us)
    z = m.group(8)
    if z != "Z":
        off = datetime.timedelta(hours=int(z[1:3]), minutes=int(z[4:6]))
        t = t - off if z[0] == "+" else t + off
    return t


def perturb(rng, key, val):
    if isinstance(val, dict):
        out = {k: (v if v is None or isinstance(v, str) else round(v * rng.choice([0.5, 1.5, 2.0]) + rng.choice([0, 1]), 6)) for k, v in val.items()}
        if key.startswith("thermometer_") and rng.random() < 0.5:
            # a partial thermometer block: the coefficients it does not name are zero (the block REPLACES the default block)
            keep = rng.sample(sorted(out), rng.randint(1, max(1, len(out) - 1)))
            out = {k: out[k] for k in keep}
        return out
    if key == "date_of_launch":
        return "1999-0%d-1%dT0%d:27:36.000000%s" % (rng.randrange(1, 9), rng.randrange(0, 9), rng.randrange(0, 9),
                                                      rng.choice(["Z", "Z", "+00:00", "+05:30", "-08:00", "+01:00"]))
    return val


def run(res, tier, seed):
    rng = common.rng_for(seed, PROP)
    from importlib.resources import files
    from pygac.calibration.noaa import Calibrator
    from pygac.klm_reader import KLMReader
    from pygac.pod_reader import PODReader
    shipped_path = str(files("pygac") / "data/calibration.json")
    shipped_bytes = open(shipped_path, "rb").read()
    shipped = json.loads(shipped_bytes)
    names = sorted(set(KLMReader.spacecraft_names.values()) | set(PODReader.spacecraft_names.values()))
    warnings.simplefilter("ignore")
    coq = []
    with common.scratch_dir() as d:
        copy_path = os.path.join(d, "copy.json")
        open(copy_path, "wb").write(shipped_bytes)
        mod = copy.deepcopy(shipped)
        for sc in names:
            mod[sc]["channel_1"]["dark_count"] += 1.25
            mod[sc]["thermometer_2"]["d1"] *= 1.01
        for sc in names[::3]:      # launch dates written with a UTC offset
            if mod[sc]["date_of_launch"].endswith("Z"):
                mod[sc]["date_of_launch"] = mod[sc]["date_of_launch"][:-1] + "+05:30"
        mod_path = os.path.join(d, "modified.json")
        json.dump(mod, open(mod_path, "w"))
        bad_path = os.path.join(d, "malformed.json")
        open(bad_path, "w").write("{ this is not json")
        missing = os.path.join(d, "missing.json")
        # a user file that lists only some spacecraft: the others are unknown THERE (KeyError), whatever was loaded before
        part_names = [names[0], names[len(names) // 2], "noaa19"]
        part = {k: copy.deepcopy(mod[k]) for k in part_names}
        for k in part_names:
            part[k]["channel_1"]["s0"] = 0.25
        part_path = os.path.join(d, "partial.json")
        json.dump(part, open(part_path, "w"))
        FILES = {None: (shipped, True), copy_path: (shipped, True), mod_path: (mod, False), bad_path: (None, None), missing: (None, None),
                 part_path: (part, False)}
        # a file that is REWRITTEN in place between requests: the coefficients follow its content, not its path
        rw_path = os.path.join(d, "rewritten.json")
        mod2 = copy.deepcopy(shipped)
        for sc in names:
            mod2[sc]["channel_2"]["dark_count"] += 2.5
            mod2[sc]["channel_4"]["b1"] *= 1.5
        RW = {"A": (shipped, shipped_bytes), "B": (mod, json.dumps(mod).encode()), "C": (mod2, json.dumps(mod2).encode())}
        # ---------- completeness ----------
        Calibrator.default_coeffs = None
        for sc in names:
            ctx = dict(spacecraft=sc)
            try:
                c = Calibrator(sc)
            except Exception as e:  # noqa
                res.violations.append(("no complete coefficient set for a spacecraft a reader can report: %r" % (e,), ctx))
                continue
            exp = expected_arrays(sc, shipped[sc])
            for k, v in exp.items():
                g = getattr(c, k)
                if not (impl.nan_eq(g, v) if isinstance(v, np.ndarray) else g == v):
                    res.violations.append(("default coefficients differ from the shipped file", dict(ctx, field=k)))
            finite = [k for k in ("dark_count", "s0", "s1", "s2", "centroid_wavenumber", "space_radiance", "b") if not np.all(np.isfinite(getattr(c, k)))]
            if finite or not all(np.any(c.d[:, t] != 0) for t in range(1, 5)) or not all("thermometer_%d" % t in shipped[sc] for t in range(1, 5)):
                res.violations.append(("coefficient set is incomplete", dict(ctx, fields=finite, thermometer_columns=[bool(np.any(c.d[:, t] != 0)) for t in range(5)])))
            if c.version is None:
                res.violations.append(("shipped coefficient file has no known version name", ctx))
            res.add_case(("complete", sc), True, dict(completeness=sc))
        # ---------- histories ----------
        nh = 6 if tier == "quick" else 40
        for h in range(nh):
            Calibrator.default_coeffs, Calibrator.default_file, Calibrator.default_version = None, None, None
            hist = []
            prev = None
            last_passed = None
            reqs_coq, outs_coq = [], []
            rw_state = None
            for k in range(rng.randint(6, 14)):
                sc = rng.choice(names)
                f = rng.choice([None, None, copy_path, mod_path, mod_path, bad_path, missing, rw_path, rw_path, part_path, part_path])
                if f == part_path and rng.random() < 0.4:
                    sc = rng.choice(part_names)
                if prev and rng.random() < 0.5:
                    sc, f = prev[0], (prev[1] if rng.random() < 0.7 else f)
                custom = None
                if f == rw_path:
                    if rw_state is None or rng.random() < 0.6:
                        rw_state = rng.choice([x for x in "ABC" if x != rw_state])
                        with open(rw_path, "wb") as fh_:
                            fh_.write(RW[rw_state][1])
                    table = RW[rw_state][0]
                else:
                    table = FILES[f][0]
                if prev and prev[0] == sc and prev[2] and rng.random() < 0.6:
                    # same spacecraft, same overridden entries as the previous request, but different values
                    keys = list(prev[2])
                    base = (table or shipped).get(sc, shipped[sc])
                    custom = {kk: perturb(rng, kk, base[kk]) for kk in keys}
                elif rng.random() < 0.5:
                    keys = rng.sample(sorted(shipped[sc].keys()), rng.randint(1, 3))
                    base = (table or shipped).get(sc, shipped[sc])
                    custom = {kk: perturb(rng, kk, base[kk]) for kk in keys}
                # a caller re-using one overrides dictionary for several requests (e.g. shared reader kwargs in a batch loop)
                passed = copy.deepcopy(custom)
                if last_passed is not None and rng.random() < 0.3:
                    passed, custom = last_passed
                ctx = dict(history=h, position=k, spacecraft=sc, file=(os.path.basename(f) if f else None),
                           rewritten_file_content=(rw_state if f == rw_path else None), same_dict_object_as_before=passed is (last_passed or [None])[0],
                           custom_keys=sorted(custom) if custom else None, earlier=[(a, os.path.basename(b) if b else None, c_) for a, b, c_ in hist[-3:]], seed=seed)
                if rng.random() < 0.25:
                    # a direct use of the public reading helper in between (e.g. to inspect a file): no request may depend on it
                    try:
                        Calibrator.read_coeffs(rng.choice([None, copy_path, mod_path, part_path]))
                        ctx["read_coeffs_called_before"] = True
                    except Exception:  # noqa
                        pass
                try:
                    c = Calibrator(sc, custom_coeffs=passed, coeffs_file=f)
                    out = "ok"
                except (FileNotFoundError, json.JSONDecodeError, OSError, ValueError) as e:
                    c, out = None, "readerror"
                except KeyError as e:
                    c, out = None, "unknown"
                except Exception as e:  # noqa
                    res.violations.append(("request raised %r" % (e,), ctx))
                    hist.append((sc, f, sorted(custom) if custom else None))
                    continue
                if passed != custom:
                    res.violations.append(("Calibrator modified the caller's custom_coeffs dictionary",
                                           dict(ctx, keys_before=sorted(custom or {}), keys_after=sorted(passed or {})[:12])))
                    passed = copy.deepcopy(custom)
                if custom:
                    last_passed = (passed, custom)
                unknown = False
                if table is None:
                    if out != "readerror":
                        res.violations.append(("unreadable coefficient file did not fail (stale coefficients returned)", dict(ctx, version=c.version)))
                    ids, ver = None, None
                elif sc not in table:
                    unknown = True
                    if out != "unknown":
                        res.violations.append(("spacecraft not listed in the requested coefficient file did not fail with KeyError (coefficients of another file returned)",
                                               dict(ctx, outcome=out, s0=None if c is None else str(c.s0))))
                    ids, ver = None, None
                else:
                    if out != "ok":
                        res.violations.append(("readable coefficient file failed", ctx))
                        hist.append((sc, f, None))
                        continue
                    merged = dict(table[sc])
                    merged.update(custom or {})
                    exp = expected_arrays(sc, merged)
                    for kk, v in exp.items():
                        g = getattr(c, kk)
                        if not (impl.nan_eq(g, v) if isinstance(v, np.ndarray) else g == v):
                            res.violations.append(("coefficients are not the pure function of (spacecraft, custom, file content)",
                                                   dict(ctx, field=kk, got=str(g)[:80], expected=str(v)[:80])))
                            break
                    ev = None if custom else (Calibrator.version_hashs.get(__import__("hashlib").md5(open(f or shipped_path, "rb").read()).hexdigest(), {}).get("name"))
                    if c.version != ev:
                        res.violations.append(("reported coefficient version is wrong", dict(ctx, got=c.version, expected=ev)))
                    # entry identities for the Coq model: 2*i for the file's entry i, 2*i+1 for a custom entry
                    keys = list(table[sc].keys())
                    ids = []
                    for i, kk in enumerate(keys):
                        src = custom[kk] if custom and kk in custom else table[sc][kk]
                        ids.append((kk, 2 * i + (1 if custom and kk in custom else 0)))
                    ver = c.version
                nontriv = bool(prev) and (prev[1] != f or prev[2] is not None)
                res.add_case((h, k, sc, f, tuple(sorted(custom)) if custom else None), nontriv,
                             dict(spacecraft=sc, file=(os.path.basename(f) if f else "default"), custom=sorted(custom) if custom else None))
                fid = {None: "None", copy_path: '(Some "copy")', mod_path: '(Some "mod")', bad_path: '(Some "bad")', missing: '(Some "missing")',
                       part_path: '(Some "part")',
                       rw_path: '(Some "rw%s")' % rw_state}[f]   # the model identifies a file by its content
                keys_all = list(shipped[sc].keys())
                cu = "[%s]" % "; ".join('(%s, %d)' % (common.slit(kk), 2 * keys_all.index(kk) + 1) for kk in (custom or {}))
                reqs_coq.append("(%s, %s, %s)" % (common.slit(sc), cu, fid))
                if unknown:
                    outs_coq.append("UnknownSpacecraft _")
                elif ids is None:
                    outs_coq.append("ReadError _")
                else:
                    outs_coq.append("Result _ [%s] %s" % ("; ".join("(%s, %d)" % (common.slit(a), b) for a, b in ids),
                                                            "None" if ver is None else "(Some %s)" % common.slit(ver)))
                prev = (sc, f, sorted(custom) if custom else None)
                hist.append(prev)
            res.traces += 1
            coq.append(("([%s], [%s])" % ("; ".join(reqs_coq), "; ".join(outs_coq)), dict(history=h, seed=seed)))
        # ---------- the version a READER reports (meta_data / dataset attrs) over a history of requests on one reader ----------
        import l1b
        vsh = Calibrator.version_hashs.get(__import__("hashlib").md5(shipped_bytes).hexdigest(), {}).get("name")
        for fmt, sc in (("gac_klm", "noaa16"), ("gac_pod", "noaa14"), ("lac_klm", "metopb")):
            start = datetime.datetime(2003 if "klm" in fmt else 1996, 4, 5, 6, 7, 8)
            data = l1b.build_file(fmt, sc, start, l1b.default_lines(fmt, 12, start))
            r = impl.open_reader(fmt, data, adjust_clock_drift=False)
            settings = [("defaults", {}, vsh), ("copy", dict(coeffs_file=copy_path), vsh), ("modified", dict(coeffs_file=mod_path), None),
                        ("custom", dict(custom_coeffs={"channel_1": perturb(rng, "channel_1", shipped[sc]["channel_1"])}), None)]
            seq = [rng.choice(settings) for _ in range(rng.randint(3, 6))]
            if len({x[0] for x in seq}) < 2:
                seq = settings[:]
                rng.shuffle(seq)
            for k, (nm, params, ev) in enumerate(seq):
                ctx = dict(reader=fmt, spacecraft=sc, sequence=[x[0] for x in seq], position=k, seed=seed)
                try:
                    r.calibration_parameters = copy.deepcopy(params)
                    ch = r.get_calibrated_channels()
                    got_meta = r.meta_data.get("calib_coeffs_version", "absent")
                    ds = r.get_calibrated_dataset()
                    got_attr = ds.attrs.get("calib_coeffs_version", "absent")
                    fresh = impl.open_reader(fmt, data, adjust_clock_drift=False, calibration_parameters=copy.deepcopy(params))
                    ch_f = fresh.get_calibrated_channels()
                except Exception as e:  # noqa
                    res.violations.append(("reader calibration request raised %r" % (e,), ctx))
                    break
                if got_meta != ev or got_attr != ev:
                    res.violations.append(("version reported by the reader is not that of the coefficient set just used",
                                           dict(ctx, setting=nm, meta_data=got_meta, dataset_attr=got_attr, expected=ev)))
                if not impl.nan_eq(ch, ch_f):
                    res.violations.append(("channels of a reader depend on the coefficient sets it used before", dict(ctx, setting=nm)))
                res.add_case(("reader", fmt, k, tuple(x[0] for x in seq)), k > 0, dict(ctx, setting=nm))
            res.traces += 1
        # the table handed to the model: spacecraft -> [(key, 2*i)] for each file
        tbl = "[%s]" % "; ".join("(%s, [%s])" % (common.slit(sc), "; ".join("(%s, %d)" % (common.slit(kk), 2 * i) for i, kk in enumerate(shipped[sc].keys()))) for sc in names)
        vshipped = Calibrator.version_hashs.get(__import__("hashlib").md5(shipped_bytes).hexdigest(), {}).get("name")
        tbl_part = "[%s]" % "; ".join("(%s, [%s])" % (common.slit(sc), "; ".join("(%s, %d)" % (common.slit(kk), 2 * i) for i, kk in enumerate(shipped[sc].keys()))) for sc in part_names)
        pre = ("Definition tbl : table Z := %s.\nDefinition tbl_part : table Z := %s.\n" % (tbl, tbl_part) +
               "Definition FS : fs Z := fun f => match f with None => Some (mkContent Z tbl %s) | Some s => "
               "if orb (String.eqb s \"copy\") (String.eqb s \"rwA\") then Some (mkContent Z tbl %s) else if orb (String.eqb s \"mod\") (orb (String.eqb s \"rwB\") (String.eqb s \"rwC\")) then Some (mkContent Z tbl None) else if String.eqb s \"part\" then Some (mkContent Z tbl_part None) else None end.\n"
               % (("(Some %s)" % common.slit(vshipped)) if vshipped else "None", ("(Some %s)" % common.slit(vshipped)) if vshipped else "None") +
               "Definition out_eqb (a b : outcome (list (string * Z))) : bool := match a, b with ReadError _, ReadError _ => true | UnknownSpacecraft _, UnknownSpacecraft _ => true "
               "| Result _ x v, Result _ y w => (if list_eq_dec (fun p q : string * Z => match string_dec (fst p) (fst q), Z.eq_dec (snd p) (snd q) with left _, left _ => left _ | _, _ => right _ end) x y then true else false) "
               "&& (match v, w with None, None => true | Some s, Some t => String.eqb s t | _, _ => false end) | _, _ => false end.\n")
    # simpler equality to avoid dependent decision terms
    pre = pre.split("Definition out_eqb")[0] + (
        "Fixpoint ent_eqb (x y : list (string * Z)) : bool := match x, y with [] , [] => true | (a, b) :: r, (c, d) :: s => String.eqb a c && Z.eqb b d && ent_eqb r s | _, _ => false end.\n"
        "Definition out_eqb (a b : outcome (list (string * Z))) : bool := match a, b with ReadError _, ReadError _ => true | UnknownSpacecraft _, UnknownSpacecraft _ => true "
        "| Result _ x v, Result _ y w => ent_eqb x y && (match v, w with None, None => true | Some s, Some t => String.eqb s t | _, _ => false end) | _, _ => false end.\n"
        "Fixpoint outs_eqb (a b : list (outcome (list (string * Z)))) : bool := match a, b with [], [] => true | x :: r, y :: s => out_eqb x y && outs_eqb r s | _, _ => false end.\n"
        "Definition check_history (c : list (string * list (string * Z) * option string) * list (outcome (list (string * Z)))) : bool :=\n"
        "  outs_eqb (snd (run_requests Z (list (string * Z)) (fun _ e => e) FS (c_init Z) (fst c))) (snd c).\n")
    failing, logs = common.coq_eval("c16", "From PV Require Import M_Coeffs.", "check_history", [c for c, _ in coq], shard=10, preamble=pre,
                                    ctype="list (string * list (string * Z) * option string) * list (outcome (list (string * Z)))")
    res.notes["coq_histories"] = len(coq)
    for kind, idx, msg in failing:
        if kind == "error":
            res.no_input.append("correspondence corr_C16 could not be evaluated: " + msg[-400:])
        else:
            res.no_input.append("corr_C16: cache model and Calibrator disagree on history %s" % (coq[idx][1],))
    res.violations = res.violations[:5]
