"""C15 -- angles are in their documented ranges and agree with sun and scan geometry."""
import datetime
import math
import warnings
from fractions import Fraction

import numpy as np

import common
import impl
import l1b
import timesgen as tg
from c09 import truth_positions

PROP = "C15"
RULE = ("(A) folding functions on arrays of exact half-degree multiples and random floats incl. the boundaries -540..540 against an exact "
        "rational oracle; (B) get_angles of real readers (GAC/LAC, KLM/POD, interpolated and tie-point-only coordinates) on passes whose "
        "tie points cover the globe (poles, date line) at random dates 2001-2005 and times of day: shapes, ranges, NaN on flagged "
        "lines, relative azimuth recomputed from the returned azimuths, sun zenith/azimuth against an independent implementation of the "
        "Astronomical Almanac's low-precision solar position (0.1 degree, direction compared as a vector); (C) real-orbit passes "
        "(TLE-propagated tie points): satellite zenith against the geometric zenith angle from the satellite's propagated position over "
        "the WGS84 ellipsoid (0.5 degree), nadir < 0.5, swath edge 66..70.5 degree; (D) TLE too old / file absent: angles still returned, "
        "sun angles unchanged, satellite zenith in [0,90]. A case = one pass; non-trivial = distinct pass with unflagged lines")
ASSUME = ["solar position reference: Astronomical Almanac low-precision formulas (0.01 degree 1950-2050), no refraction",
          "satellite position for the geometric zenith: pyorbital's propagation of the same element set (the zenith angle itself is computed "
          "by the harness from ECEF vectors)",
          "'absent' TLE data = no TLE file for the spacecraft in the configured directory; an unset TLE directory raises RuntimeError (configuration error)"]
TB = ["coqc 8.16.1 kernel; Reals axioms; Flocq's Zfloor", "translator/gen.py (Gen_Angles: get_angles / get_sat_angles traced on a stub reader with recording stand-ins for astronomy and orbit)",
      "correspondence check_fold (the rational mirror proved equal to the real-valued model, C15_executable_mirror) evaluated in Coq",
      "astronomy (pyorbital.astronomy) and orbit are oracles of the model; validated numerically by (B) and (C)"]


# ---------------------------------------------------------------- independent solar position
def sun_position(ms, lon, lat):
    """Zenith and azimuth (degrees, from north clockwise) of the sun; ms since 1970 (array), lon/lat degrees (arrays)."""
    d = ms / 86400000.0 - 10957.5                     # days from J2000.0 (2000-01-01 12:00 UT)
    g = np.deg2rad((357.528 + 0.9856003 * d) % 360)
    L = (280.460 + 0.9856474 * d) % 360
    lam = np.deg2rad(L + 1.915 * np.sin(g) + 0.020 * np.sin(2 * g))
    eps = np.deg2rad(23.439 - 0.0000004 * d)
    ra = np.arctan2(np.cos(eps) * np.sin(lam), np.cos(lam))
    dec = np.arcsin(np.sin(eps) * np.sin(lam))
    gmst = (18.697374558 + 24.06570982441908 * d) % 24           # hours
    H = np.deg2rad(gmst * 15.0 + lon) - ra
    phi = np.deg2rad(lat)
    cz = np.sin(phi) * np.sin(dec) + np.cos(phi) * np.cos(dec) * np.cos(H)
    zen = np.rad2deg(np.arccos(np.clip(cz, -1, 1)))
    az = np.rad2deg(np.arctan2(-np.cos(dec) * np.sin(H), np.sin(dec) * np.cos(phi) - np.cos(dec) * np.sin(phi) * np.cos(H)))
    return zen, az


def direction(zen, az):
    z, a = np.deg2rad(zen), np.deg2rad(az)
    return np.stack([np.sin(z) * np.sin(a), np.sin(z) * np.cos(a), np.cos(z)], axis=-1)


def angle_between(z1, a1, z2, a2):
    c = np.sum(direction(z1, a1) * direction(z2, a2), axis=-1)
    return np.rad2deg(np.arccos(np.clip(c, -1, 1)))


# ---------------------------------------------------------------- geometric satellite zenith
A_WGS, F_WGS = 6378.137, 1 / 298.257223563


def ecef(lon, lat, alt):
    lam, phi = np.deg2rad(lon), np.deg2rad(lat)
    e2 = F_WGS * (2 - F_WGS)
    N = A_WGS / np.sqrt(1 - e2 * np.sin(phi) ** 2)
    return np.stack([(N + alt) * np.cos(phi) * np.cos(lam), (N + alt) * np.cos(phi) * np.sin(lam), (N * (1 - e2) + alt) * np.sin(phi)], axis=-1)


def geometric_zenith(reader, times_ms, lons, lats):
    from pyorbital.orbital import Orbital
    # element set chosen here by brute force (nearest epoch to the first line), not by the reader
    tle_path = __import__("os").path.join(reader.tle_dir, reader.tle_name % {"satname": reader.spacecraft_name})
    tle1, tle2 = impl.nearest_tle(tle_path, int(times_ms[0]))
    orb = Orbital(reader.spacecrafts_orbital[reader.spacecraft_id], line1=tle1, line2=tle2)
    t = np.array(times_ms, dtype="datetime64[ms]")
    slon, slat, salt = orb.get_lonlatalt(t)
    S = ecef(np.asarray(slon), np.asarray(slat), np.asarray(salt))[:, None, :]
    P = ecef(lons, lats, 0.0)
    lam, phi = np.deg2rad(lons), np.deg2rad(lats)
    n = np.stack([np.cos(phi) * np.cos(lam), np.cos(phi) * np.sin(lam), np.sin(phi)], axis=-1)
    v = S - P
    c = np.sum(v * n, axis=-1) / np.linalg.norm(v, axis=-1)
    return np.rad2deg(np.arccos(np.clip(c, -1, 1)))


# ---------------------------------------------------------------- exact folding oracle
def fold_q(x):
    r = x % 360
    return r - 360 if r > 180 else r


def relaz_q(a, b):
    r = abs(a - b) % 360
    return 360 - r if r > 180 else r


def part_a(res, rng, tier, seed):
    from pygac.utils import centered_modulus, get_absolute_azimuth_angle_diff
    coq_fold, coq_rel = [], []
    vals = [Fraction(k, 2) for k in range(-1440, 1441)] + [Fraction(rng.randrange(-10 ** 7, 10 ** 7), 1024) for _ in range(400)]
    arr = np.array([float(v) for v in vals])
    got = centered_modulus(arr.copy(), 360.0)
    for v, g in zip(vals, got):
        if len(coq_fold) < 1500 and not np.isnan(g):
            coq_fold.append("(%s, %s)" % (common.qlit(v), common.qlit(Fraction(float(g)))))
        if Fraction(float(g)) != fold_q(v) or not (-180 < g <= 180):
            res.violations.append(("centered_modulus does not fold into (-180, 180] by whole turns", dict(value=float(v), returned=float(g), expected=float(fold_q(v)))))
            break
    a = np.array([float(vals[rng.randrange(len(vals))]) for _ in range(3000)] + [350.0, -180.0, 180.0, 0.0])
    b = np.array([float(vals[rng.randrange(len(vals))]) for _ in range(3000)] + [-170.0, 180.0, -180.0, 360.0])
    got = get_absolute_azimuth_angle_diff(a.copy(), b.copy())
    for x, y, g in zip(a, b, got):
        if len(coq_rel) < 1000 and not np.isnan(g):
            coq_rel.append("(%s, %s, %s)" % (common.qlit(Fraction(float(x))), common.qlit(Fraction(float(y))), common.qlit(Fraction(float(g)))))
        e = relaz_q(Fraction(x), Fraction(y))
        if Fraction(float(g)) != e:
            res.violations.append(("get_absolute_azimuth_angle_diff is not |a-b| folded into [0, 180]", dict(a=float(x), b=float(y), returned=float(g), expected=float(e))))
            break
    res.add_case(("fold", len(vals)), True, dict(values=len(vals), pairs=len(a)))
    cases = ["([%s], [%s])" % ("; ".join(coq_fold[i:i + 250]), "; ".join(coq_rel[i:i + 250])) for i in range(0, max(len(coq_fold), len(coq_rel)), 250)]
    failing, _ = common.coq_eval("c15", "From PV Require Import M_Angles.", "check_fold", cases, shard=1,
                                 ctype="list (Q * Q) * list (Q * Q * Q)")
    res.notes["coq_fold_values"] = len(coq_fold) + len(coq_rel)
    for kind, idx, msg in failing:
        res.no_input.append("corr_C15: " + (msg[-300:] if kind == "error" else "the folding model (cmodQ / relazQ) and pygac.utils disagree in block %d" % idx))


def check_common(res, ctx, r, ang, lons, lats, mask, times_ms, tle_state):
    names = ["sat_azi", "sat_zenith", "sun_azi", "sun_zenith", "rel_azi"]
    ok = True
    for nm, a in zip(names, ang):
        if a.shape != lons.shape:
            res.violations.append(("angle array %s does not have the shape of the coordinates" % nm, dict(ctx, shape=list(a.shape), coordinates=list(lons.shape))))
            return False
    sat_azi, sat_zen, sun_azi, sun_zen, rel = ang
    good = ~mask[:, None] & ~np.isnan(lons) & ~np.isnan(lats)
    if mask.any() and not all(np.isnan(a[mask]).all() for a in ang):
        res.violations.append(("angles of a flagged line are not NaN", ctx))
        ok = False
    for nm, a in (("sat_azi", sat_azi), ("sun_azi", sun_azi)):
        v = a[good]
        if v.size and not (np.all(v > -180) and np.all(v <= 180)):
            res.violations.append(("azimuth %s outside (-180, 180]" % nm, dict(ctx, min=float(np.nanmin(v)), max=float(np.nanmax(v)))))
            ok = False
    v = rel[good]
    if v.size and not (np.all(v >= 0) and np.all(v <= 180)):
        res.violations.append(("relative azimuth outside [0, 180]", dict(ctx, min=float(v.min()), max=float(v.max()))))
        ok = False
    d = np.abs(sun_azi - sat_azi)
    exp_rel = np.where(d > 180, 360 - d, d)
    bad = good & ~np.isnan(exp_rel) & (np.abs(rel - exp_rel) > 1e-6)
    if bad.any():
        i, j = np.argwhere(bad)[0]
        res.violations.append(("relative azimuth is not the folded absolute difference of the returned sun and satellite azimuths",
                               dict(ctx, line_index=int(i), column=int(j), sun_azi=float(sun_azi[i, j]), sat_azi=float(sat_azi[i, j]),
                                    rel_azi=float(rel[i, j]), expected=float(exp_rel[i, j]))))
        ok = False
    # the sun
    tt = np.array(times_ms, dtype=float)[:, None] * np.ones_like(lons)
    zen_ref, az_ref = sun_position(tt, lons, lats)
    dz = np.abs(sun_zen - zen_ref)
    dd = angle_between(sun_zen, sun_azi, zen_ref, az_ref)
    worst = np.where(good, np.maximum(dz, dd), 0.0)
    res.notes["worst_sun_deg"] = max(res.notes.get("worst_sun_deg", 0.0), float(worst.max()) if worst.max() <= 0.1 else 0.0)
    if worst.max() > 0.1:
        i, j = np.unravel_index(np.argmax(worst), worst.shape)
        res.violations.append(("sun zenith/azimuth differ from the sun's position at the pixel's time and location by more than 0.1 degree",
                               dict(ctx, line_index=int(i), column=int(j), time=str(tg.dt_of(int(times_ms[i]))), lon=float(lons[i, j]), lat=float(lats[i, j]),
                                    returned=[float(sun_zen[i, j]), float(sun_azi[i, j])], sun=[float(zen_ref[i, j]), float(az_ref[i, j])],
                                    off_deg=float(worst.max()), pixels_off=int((worst > 0.1).sum()))))
        ok = False
    v = sat_zen[good]
    if v.size and not (np.all(v >= -1e-9) and np.all(v <= 180)):
        res.violations.append(("satellite zenith outside [0, 180]", dict(ctx, min=float(v.min()), max=float(v.max()))))
        ok = False
    return ok


def globe_tiepoints(rng, kind, n):
    def ll(i):
        if kind == "pole":
            la = [89.5 - abs(k - 25) * 0.3 - 0.01 * i for k in range(51)]
            lo = [((-170 + 6.9 * k) + 180) % 360 - 180 for k in range(51)]
        elif kind == "dateline":
            la = [rng_lat0 + 0.03 * i - 0.01 * k for k in range(51)]
            lo = [((170 + 0.45 * k + 0.01 * i) + 180) % 360 - 180 for k in range(51)]
        else:
            la = [rng_lat0 + 0.03 * i - 0.02 * k for k in range(51)]
            lo = [((rng_lon0 + 0.5 * k) + 180) % 360 - 180 for k in range(51)]
        return la, lo
    rng_lat0 = rng.uniform(-80, 80)
    rng_lon0 = rng.uniform(-180, 150)
    return ll


def part_b(res, rng, tier, seed, d):
    tle_dir, tle_name = impl.make_tle_dir(d)
    reps = 1 if tier == "quick" else 6
    for _ in range(reps):
        for fmt, sc in (("gac_klm", "noaa16"), ("lac_klm", "noaa16"), ("gac_pod", "noaa14"), ("lac_pod", "noaa14")):
            for kind in ("anywhere", "pole", "dateline"):
                for interp in (True, False):
                    n = rng.choice([1, 3, 12])
                    start = datetime.datetime(2001, 1, 1) + datetime.timedelta(seconds=rng.randrange(0, 5 * 365 * 86400))
                    flagged = [rng.random() < 0.2 for _ in range(n)]
                    lines = l1b.default_lines(fmt, n, start, latlon=globe_tiepoints(rng, kind, n), qual=[(1 << 31) if f else 0 for f in flagged])
                    ctx = dict(fmt=fmt, kind=kind, interpolate=interp, lines=n, start=str(start), seed=seed)
                    try:
                        with warnings.catch_warnings():
                            warnings.simplefilter("ignore")
                            r = impl.open_reader(fmt, l1b.build_file(fmt, sc, start, lines), tle_dir=tle_dir, tle_name=tle_name, tle_thresh=40000,
                                                 interpolate_coords=interp, adjust_clock_drift=False)
                            ang = r.get_angles()
                            lons, lats = r.get_lonlat()
                            times_ms = tg.to_ms_array(np.array(r.get_times()))
                            mask = np.array(r.mask)
                    except Exception as e:  # noqa
                        import traceback
                        res.violations.append(("get_angles raised %r" % (e,), dict(ctx, traceback=traceback.format_exc()[-500:])))
                        continue
                    res.traces += 1
                    check_common(res, ctx, r, ang, lons, lats, mask, times_ms, "available")
                    res.add_case((fmt, kind, interp, n, str(start)), not mask.all(), dict(ctx, flagged=int(mask.sum())))


def part_c(res, rng, tier, seed, d):
    tle_dir, tle_name = impl.make_tle_dir(d)
    plans = [("gac_klm", "noaa16"), ("lac_klm", "noaa16"), ("gac_pod", "noaa14")] * (1 if tier == "quick" else 5)
    long_done = False
    for fmt, sc in plans:
        res_, width = l1b.FMT[fmt]["res"], l1b.FMT[fmt]["width"]
        n = rng.choice([12, 40])
        if fmt == "gac_klm" and not long_done:
            n = 2300            # a pass of more than 2048 lines (about 19 minutes of GAC)
            long_done = True
        t0 = tg.ms_of(datetime.datetime(2001, 3, 4)) + rng.randrange(0, 300 * 86400) * 1000
        period_us = 500000.0 if res_ == "gac" else 1e6 / 6
        if fmt == "lac_klm" or rng.random() < 0.3:
            # start where the sub-satellite track crosses the date line
            with warnings.catch_warnings():
                warnings.simplefilter("ignore")
                probe0 = impl.open_reader(fmt, l1b.build_file(fmt, sc, tg.dt_of(t0), l1b.default_lines(fmt, 2, tg.dt_of(t0))), tle_dir=tle_dir,
                                          tle_name=tle_name, tle_thresh=40000)
                cand = [t0 * 1000 + k * 20 * 10 ** 6 for k in range(0, 600)]
                clon, clat = truth_positions(probe0, cand, [1023.5])
                k = int(np.argmax(np.abs(clon[:, 0]) - 0.2 * np.abs(clat[:, 0]) / 90.0))
                fine = [cand[k] - 25 * 10 ** 6 + j * 100000 for j in range(500)]
                flon, _ = truth_positions(probe0, fine, [1023.5])
            jumps = np.flatnonzero(np.abs(np.diff(flon[:, 0])) > 180)
            cross = fine[int(jumps[0])] if len(jumps) else cand[k]
            if len(jumps):
                # bisect to the millisecond: one scan line is then taken exactly when the nadir is on the date line, so that its
                # two central pixels lie on either side of it
                lo_t, hi_t = fine[int(jumps[0])], fine[int(jumps[0]) + 1]
                s_lo = np.sign(flon[int(jumps[0]), 0])
                with warnings.catch_warnings():
                    warnings.simplefilter("ignore")
                    for _ in range(9):
                        mid_t = (lo_t + hi_t) // 2
                        mlon, _ = truth_positions(probe0, [mid_t], [1023.5])
                        if np.sign(mlon[0, 0]) == s_lo:
                            lo_t = mid_t
                        else:
                            hi_t = mid_t
                cross = (lo_t + hi_t) // 2
            half = n // 2
            t0 = int(round(cross / 1000.0 - half * period_us / 1000.0))
        start = tg.dt_of(t0)
        times_us = [t0 * 1000 + int(round(i * period_us)) for i in range(n)]
        tie_pos = [23.5 + 40 * k for k in range(51)] if res_ == "gac" else [24.0 + 40 * k for k in range(51)]
        ctx = dict(fmt=fmt, lines=n, start=str(start), seed=seed, orbit="TLE noaa16")
        # an element set several days old (inside the default limit of 7 days): only the nearest genuine set, dated back
        aged_dir = None
        try:
            with warnings.catch_warnings():
                warnings.simplefilter("ignore")
                probe1 = impl.open_reader(fmt, l1b.build_file(fmt, sc, tg.dt_of(t0), l1b.default_lines(fmt, 2, tg.dt_of(t0))), tle_dir=tle_dir,
                                          tle_name=tle_name, tle_thresh=40000)
                l1, l2 = probe1.get_tle_lines()
            age = rng.choice([3.5, 4.5, 5.5, 6.5]) * rng.choice([-1, 1])
            ep = tg.dt_of(t0) - datetime.timedelta(days=age)
            epoch = "%02d%012.8f" % (ep.year % 100, (ep - datetime.datetime(ep.year, 1, 1)).total_seconds() / 86400.0 + 1)
            body = (l1[:18] + epoch + l1[32:]).rstrip("\n")[:68]
            l1b_ = body + str((sum(int(ch) for ch in body if ch.isdigit()) + body.count("-")) % 10)
            aged_dir = __import__("os").path.join(d, "aged_%d" % rng.randrange(10 ** 9))
            __import__("os").makedirs(aged_dir)
            for name in ("noaa16", "noaa14"):
                open(__import__("os").path.join(aged_dir, "TLE_%s.txt" % name), "w").write(l1b_.rstrip("\n") + "\n" + l2.rstrip("\n") + "\n")
        except Exception:  # noqa
            aged_dir = None
        states = [("available", dict(tle_dir=tle_dir, tle_name=tle_name, tle_thresh=40000))]
        fallback_ang = None
        for tle_state, kw in states + [(
                              "too old", dict(tle_dir=tle_dir, tle_name=tle_name, tle_thresh=1e-6)),
                              # a limit of 0 days: every element set is older than the limit (same fallback as above)
                              ("too old (limit 0)", dict(tle_dir=tle_dir, tle_name=tle_name, tle_thresh=0)),
                              ("absent", dict(tle_dir=d, tle_name="no_such_%(satname)s.txt"))]:
            ctx2 = dict(ctx, tle=tle_state)
            try:
                with warnings.catch_warnings():
                    warnings.simplefilter("ignore")
                    probe = impl.open_reader(fmt, l1b.build_file(fmt, sc, start, l1b.default_lines(fmt, 2, start)), tle_dir=tle_dir,
                                             tle_name=tle_name, tle_thresh=40000)
                    tlon, tlat = truth_positions(probe, times_us, tie_pos)
                    lines = l1b.default_lines(fmt, n, start, latlon=lambda i: (list(tlat[i]), list(tlon[i])))
                    if l1b.FMT[fmt]["family"] == "klm":
                        # KLM records carry the spacecraft altitude (0.1 km); as in archived files the word is missing (0) on some lines
                        for i, ln in enumerate(lines):
                            ln.setdefault("extra", {})["spacecraft_altitude_above_reference_ellipsoid"] = 0 if i % 7 == 3 else 8540 + (i % 40)
                    r = impl.open_reader(fmt, l1b.build_file(fmt, sc, start, lines), adjust_clock_drift=False, **kw)
                    ang = r.get_angles()
                    ang_again = r.get_angles()
                    lons, lats = r.get_lonlat()
                    times_ms = tg.to_ms_array(np.array(r.get_times()))
                    mask = np.array(r.mask)
            except Exception as e:  # noqa
                import traceback
                res.violations.append(("get_angles raised %r with TLE data %s (angles must still be returned)" % (e, tle_state) if tle_state in ("too old", "too old (limit 0)", "absent")
                                       else "get_angles raised %r (TLE data %s)" % (e, tle_state), dict(ctx2, traceback=traceback.format_exc()[-400:])))
                continue
            res.traces += 1
            if tle_state == "too old":
                fallback_ang = ang
            elif tle_state == "too old (limit 0)" and fallback_ang is not None and not all(impl.nan_eq(a, b) for a, b in zip(ang, fallback_ang)):
                k = next(i for i, (a, b) in enumerate(zip(ang, fallback_ang)) if not impl.nan_eq(a, b))
                res.violations.append(("with a limit of 0 days the angles are not those of the TLE-free fallback (an element set older than the limit was used)",
                                       dict(ctx2, array=["sat_azi", "sat_zenith", "sun_azi", "sun_zenith", "rel_azi"][k],
                                            max_difference=float(np.nanmax(np.abs(ang[k] - fallback_ang[k]))))))
            check_common(res, ctx2, r, ang, lons, lats, mask, times_ms, tle_state)
            if not all(impl.nan_eq(a, b) for a, b in zip(ang, ang_again)):
                k = next(i for i, (a, b) in enumerate(zip(ang, ang_again)) if not impl.nan_eq(a, b))
                res.violations.append(("a second get_angles() on the same reader returns different angles (TLE data %s)" % tle_state,
                                       dict(ctx2, array=["sat_azi", "sat_zenith", "sun_azi", "sun_zenith", "rel_azi"][k],
                                            max_difference=float(np.nanmax(np.abs(ang[k] - ang_again[k]))))))
            sat_zen = ang[1]
            if tle_state.startswith("available"):
                zen_ref = geometric_zenith(probe, times_ms, lons, lats)
                dz = np.abs(sat_zen - zen_ref)
                res.notes["worst_sat_zenith_deg"] = max(res.notes.get("worst_sat_zenith_deg", 0.0), float(np.nanmax(dz)) if np.nanmax(dz) <= 0.5 else 0.0)
                nad = width // 2 if res_ == "gac" else None
                if np.nanmax(dz) > 0.5:
                    i, j = np.unravel_index(np.nanargmax(dz), dz.shape)
                    res.violations.append(("satellite zenith differs from the scan geometry (zenith angle of the satellite seen from the pixel) by more than 0.5 degree",
                                           dict(ctx2, line_index=int(i), column=int(j), returned=float(sat_zen[i, j]), geometric=float(zen_ref[i, j]))))
                else:
                    nadir = float(np.nanmin(sat_zen, axis=1).max())
                    edge = float(min(np.nanmin(sat_zen[:, 0]), np.nanmin(sat_zen[:, -1])))
                    edge_max = float(max(np.nanmax(sat_zen[:, 0]), np.nanmax(sat_zen[:, -1])))
                    if nadir > 0.5 or not (66.0 <= edge and edge_max <= 70.5):
                        res.violations.append(("satellite zenith is not about 0 at nadir rising to about 68 degrees at the swath edge",
                                               dict(ctx2, nadir=nadir, edge=[edge, edge_max])))
            elif "days old" in tle_state:
                pass     # the dated-back element set is not consistent with the geolocation: only shapes, ranges and the sun are checked
            else:
                v = sat_zen[~np.isnan(sat_zen)]
                if v.size and not (np.all(v >= -1e-6) and np.all(v <= 90.0 + 1e-6)):
                    res.violations.append(("fallback satellite zenith outside [0, 90]", dict(ctx2, min=float(v.min()), max=float(v.max()))))
                else:
                    nadir = float(np.nanmin(sat_zen, axis=1).max())
                    edge = float(min(np.nanmin(sat_zen[:, 0]), np.nanmin(sat_zen[:, -1])))
                    if nadir > 1.0 or edge < 60.0:
                        res.violations.append(("approximate (no-TLE) satellite zenith is not about 0 at nadir rising towards the swath edge",
                                               dict(ctx2, nadir=nadir, edge=edge, nadir_lon=float(lons[0, lons.shape[1] // 2]))))
            if tle_state == "absent":
                # the same fallback on tie-point-only coordinates: zenith about 0 at the centre tie point, symmetric edges
                try:
                    with warnings.catch_warnings():
                        warnings.simplefilter("ignore")
                        r3 = impl.open_reader(fmt, l1b.build_file(fmt, sc, start, lines), adjust_clock_drift=False, interpolate_coords=False, **kw)
                        sz3 = r3.get_angles()[1]
                    ok3 = ~np.all(np.isnan(sz3), axis=1)
                    nad3 = float(np.nanmax(np.nanmin(sz3[ok3], axis=1)))
                    asym = float(np.nanmax(np.abs(sz3[ok3][:, 0] - sz3[ok3][:, -1])))
                    if sz3.shape[1] != 51 or nad3 > 1.0 or asym > 1.0 or int(np.nanargmin(sz3[ok3][0])) != 25:
                        res.violations.append(("approximate (no-TLE) satellite zenith on tie-point-only coordinates is not about 0 at the centre tie point with symmetric edges",
                                               dict(ctx2, nadir=nad3, edge_asymmetry=asym, minimum_at_tie_point=int(np.nanargmin(sz3[ok3][0])))))
                except Exception as e:  # noqa
                    res.violations.append(("get_angles raised %r on tie-point-only coordinates without TLE data" % (e,), ctx2))
            res.add_case((fmt, n, str(start), tle_state), True, ctx2)


def run(res, tier, seed):
    import l1b as _l1b
    _l1b.AUTO_NOISE = 7919 * seed + 13      # random bytes in every record field the spec writer does not set
    rng = common.rng_for(seed, PROP)
    part_a(res, rng, tier, seed)
    with common.scratch_dir() as d:
        part_b(res, rng, tier, seed, d)
        part_c(res, rng, tier, seed, d)
    res.violations = res.violations[:6]
