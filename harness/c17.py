"""C17 -- the TLE nearest the pass start is used, and never one older than the limit."""
import datetime
import os
from fractions import Fraction

import numpy as np

import common
import impl
import l1b
import timesgen as tg

PROP = "C17"
RULE = ("generated chronologically ordered TLE files (1..400 sets; gaps of hours to years; duplicated epochs; epochs in both "
        "centuries around the 1950 pivot; sets on days 365 / 366 / 001 around the end of leap and common years; dyadic day fractions for exact boundaries and random 8-digit fractions), each set "
        "tagged with its index; passes of 1 .. 13000 lines whose first line lies before / inside / at exact midpoints (+-5 ms) / after the epochs; thresholds "
        "0.5, 1, 3, 7, 30 days incl. the exact edge; a case = (file, pass start, threshold); non-trivial = distinct case "
        "where the file has >= 2 sets")
ASSUME = ["float64 decoding of the epoch field is within 1 ms of the exact decimal (property's own tolerance): boundary "
          "queries keep 5 ms distance unless the epoch fraction is dyadic (exact in binary and in ms)",
          "numpy.searchsorted(side=left) = number of elements < s on a sorted array (as modelled)"]
TB = ["coqc 8.16.1 kernel", "correspondence check_tle / check_epochs evaluated in Coq", "harness TLE file writer"]

EPOCH0 = datetime.datetime(1970, 1, 1)


def epoch_exact_ms(e):
    """e = YYDDDdddddddd integer (1e-8 day units) -> exact epoch in ms (Fraction)."""
    yyddd, frac = divmod(e, 10 ** 8)
    yy, ddd = divmod(yyddd, 1000)
    year = 1900 + yy if e > 50000 * 10 ** 8 else 2000 + yy
    days = (datetime.date(year, 1, 1) - datetime.date(1970, 1, 1)).days + ddd - 1
    return days * 86400000 + Fraction(86400000 * frac, 10 ** 8)


def fmt_epoch(e):
    yyddd, frac = divmod(e, 10 ** 8)
    return "%05d.%08d" % (yyddd, frac)


def make_file(path, epochs):
    with open(path, "w") as f:
        for i, e in enumerate(epochs):
            # fixed-column layout: the international designator (columns 10-17) is optional, the drag terms may be signed
            desig = ("00055A  ", "        ", "98030BCD", "00055A  ")[(i * 7 + len(epochs)) % 4]
            ndot = (" .00000000", "-.00000602", " .00001234")[(i + len(epochs)) % 3]
            f.write("1 26536U %s %s %s  00000-0  00000-0 0 %5d\n" % (desig, fmt_epoch(e), ndot, i))
            f.write("2 26536  98.0000 %08d 0010000 000.0000 000.0000 14.10000000%5d\n" % (i, i))


def gen_epochs(rng, n, style):
    yy = rng.choice([57, 78, 99, 0, 1, 20, 49, 50, 53, 56]) if style != "pivot" else 49
    e = []
    day = Fraction(rng.randrange(1, 300))
    if style == "yearend":  # sets on the last days of a (leap or common) year and the first of the next: days 365, 366, 001
        yy = rng.choice([60, 80, 96, 0, 4, 8, 12, 20, 48, 99, 1, 19]) if n != 13 else 99    # (n = 13: the archive runs from 1999 into 2000)
        day = Fraction(rng.choice([360, 362, 363]))
    year = 1900 + yy if yy >= 50 else 2000 + yy
    cur = datetime.datetime(year, 1, 1) + datetime.timedelta(days=int(day))
    t = Fraction((cur - EPOCH0).days)       # days since 1970, exact
    out = []
    for i in range(n):
        step = rng.choice([0, Fraction(1, 4), Fraction(1, 2), 1, 2, 3, 10, 40, 400]) if style == "dyadic" else \
            rng.choice([Fraction(1, 4), Fraction(1, 2), Fraction(3, 4), 1]) if style == "yearend" else \
            rng.choice([0, Fraction(rng.randrange(1, 10 ** 8), 10 ** 8) * rng.choice([1, 3, 9]), rng.randrange(1, 30)])
        if i:
            t += step
        d = EPOCH0 + datetime.timedelta(days=int(t // 1))
        if not (1950 <= d.year <= 2049):
            break
        doy = (d.date() - datetime.date(d.year, 1, 1)).days + 1
        frac = int((t - t // 1) * 10 ** 8)
        out.append(((d.year % 100) * 1000 + doy) * 10 ** 8 + frac)
    return out


def run(res, tier, seed):
    rng = common.rng_for(seed, PROP)
    cases, meta = [], []
    ep_cases = []
    nfiles = 14 if tier == "quick" else 80
    with common.scratch_dir() as d:
        for fi in range(nfiles):
            style = rng.choice(["dyadic", "random", "random", "pivot"]) if fi % 5 else "yearend"
            n = rng.choice([1, 2, 3, 5, 20, 120, 400]) if style != "yearend" else (13 if fi == 0 else rng.choice([12, 20]))
            eps = gen_epochs(rng, n, style)
            if not eps:
                continue
            # three paths only: each is rewritten with the next file (an archive that is updated between passes of one process)
            path = os.path.join(d, "TLE_sat%d.txt" % (fi % 3))
            make_file(path, eps)
            exact = [epoch_exact_ms(e) for e in eps]
            r = impl.reader_class("gac_klm")(tle_dir=d, tle_name="TLE_%(satname)s.txt")
            r.spacecraft_name = "sat%d" % (fi % 3)
            # decoding
            dec = r.tle2datetime64(np.array([float(fmt_epoch(e)) for e in eps]))
            dec = [int(x) for x in dec.astype("datetime64[ms]").astype("int64")]
            for e, g, x in zip(eps, dec, exact):
                if abs(g - x) > 1:
                    res.violations.append(("TLE epoch decoded more than 1 ms off", dict(field=fmt_epoch(e), got=str(tg.dt_of(g)), exact_ms=float(x))))
            ep_cases.append("(%s, %s)" % (common.zpack(eps), common.zpack(dec)))
            # queries
            qs = []
            lo, hi = int(exact[0]), int(exact[-1])
            qs += [lo - rng.randrange(1, 40 * 86400000), hi + rng.randrange(1, 40 * 86400000), lo, hi]
            for _ in range(6 if tier == "quick" else 20):
                i = rng.randrange(len(exact))
                qs.append(int(exact[i]) + rng.choice([-1, 1]) * rng.randrange(0, 5 * 86400000))
                if i + 1 < len(exact) and exact[i + 1] != exact[i]:
                    mid = (exact[i] + exact[i + 1]) / 2
                    qs += [int(mid) + 5, int(mid) - 5]
                    if style == "dyadic" and mid.denominator == 1:
                        qs.append(int(mid))
            for s in qs:
                for th in ([7, rng.choice([Fraction(1, 2), 1, 3, 30, 0, 0])] if tier == "quick" else [0, Fraction(1, 2), 1, 3, 7, 30]):
                    ss = [s]
                    # exact threshold edge for dyadic files
                    if style == "dyadic":
                        j = rng.randrange(len(exact))
                        if exact[j].denominator == 1:
                            ss.append(int(exact[j] + th * 86400000))
                    for sq in ss:
                        r.tle_lines = None
                        r.tle_thresh = float(th)
                        # the pass: 1 .. 13000 lines starting at sq (the FIRST line's time is the query time)
                        L = rng.choice([1, 2, 1200, 13000])
                        r._times_as_np_datetime64 = (np.int64(sq) + 500 * np.arange(L, dtype=np.int64)).astype("datetime64[ms]")
                        try:
                            l1, l2 = r.get_tle_lines()
                            i1, i2 = int(l1.split()[-1]), int(l2.split()[3])
                            got = (2 * i1, 2 * i2 + 1)
                            sel = i1
                        except IndexError as e:
                            if type(e).__name__ != "NoTLEData":
                                res.violations.append(("get_tle_lines raised %r" % (e,), dict(file_sets=len(eps), start=str(tg.dt_of(sq)))))
                                continue
                            got, sel = None, None
                            # asking again must give the same answer (no stale selection cached by the failed attempt)
                            try:
                                again = r.get_tle_lines()
                                res.violations.append(("second request after NoTLEData returned an element set older than the limit",
                                                       dict(file_sets=len(eps), start=str(tg.dt_of(sq)), thresh_days=float(th), lines=[x[:40] for x in again])))
                            except IndexError:
                                pass
                        except Exception as e:  # noqa
                            res.violations.append(("get_tle_lines raised %r instead of selecting an element set or reporting NoTLEData" % (e,),
                                                   dict(file_sets=len(eps), start=str(tg.dt_of(sq)), thresh_days=float(th),
                                                        nearest_epoch_days_away=min(abs(sq - x) for x in exact) / 86400000.0)))
                            continue
                        dist = [abs(sq - x) for x in exact]
                        dmin = min(dist)
                        ctx = dict(sets=len(eps), style=style, start=str(tg.dt_of(sq)), thresh_days=float(th), selected=sel,
                                   nearest=dist.index(dmin), epochs=[fmt_epoch(e) for e in eps[max(0, dist.index(dmin) - 1):dist.index(dmin) + 2]])
                        if got is None:
                            if dmin <= th * 86400000 - 2:
                                res.violations.append(("pass reported without TLE data although the nearest epoch is within the limit", ctx))
                        else:
                            if got[0] + 1 != got[1] or got[0] % 2:
                                res.violations.append(("the two lines are not from the same element set", dict(ctx, lines=got)))
                            if dist[sel] > dmin + 2:
                                res.violations.append(("selected element set is not the nearest", ctx))
                            if dist[sel] > th * 86400000 + 2:
                                res.violations.append(("element set older than the limit was used", ctx))
                        res.add_case((fi, sq, float(th)), len(eps) >= 2, dict(sets=len(eps), start=str(tg.dt_of(sq)), thresh_days=float(th), selected=sel))
                        th_f = Fraction(th)
                        near_tie = sorted(dist)[:2]
                        ambiguous = (len(near_tie) == 2 and abs(near_tie[0] - near_tie[1]) <= 3 and style != "dyadic") or \
                            (abs(dmin - th_f * 86400000) <= 3 and style != "dyadic")
                        if not ambiguous:
                            g = "None" if got is None else "(Some (%d%%nat, %d%%nat))" % got
                            cases.append("(%s, %d, %d, %d, %s)" % (common.zpack(eps), sq, th_f.numerator, th_f.denominator, g))
                            meta.append(ctx)
            res.traces += 1
    failing, logs = common.coq_eval("c17_sel", "From PV Require Import M_Tle.", "check_tle", cases, shard=150,
                                    ctype="list Z * Z * Z * Z * option (nat * nat)")
    res.notes["coq_cases"] = len(cases)
    for kind, idx, msg in failing:
        if kind == "error":
            res.no_input.append("correspondence corr_C17 could not be evaluated: " + msg[-300:])
        else:
            res.no_input.append("corr_C17: model and implementation select differently: %s" % (meta[idx],))
    failing, logs = common.coq_eval("c17_ep", "From PV Require Import M_Tle.", "check_epochs", ep_cases, shard=50, ctype="list Z * list Z")
    for kind, idx, msg in failing:
        res.no_input.append("corr_C17/epochs: " + (msg[-300:] if kind == "error" else "epoch decoding differs by more than 1 ms in file %d" % idx))
    res.violations = res.violations[:5]
