"""C10 -- exactly one reader accepts a file, chosen by its data-set name alone."""
import datetime
import gzip
import io
import os
import pathlib

import common
import impl
import l1b

PROP = "C10"
RULE = ("(a) name level: all transfer-mode x platform-code combinations incl. near misses (wrong case, 5-letter modes, "
        "unknown ids, broken separators) handed to the four classes' _validate_header; (b) file level: spec-written files "
        "of the four formats with the name in the header (ASCII and EBCDIC cp500), only in the file name, or both, and with every "
        "other header field set to random bytes (POD start-time day bits 0..511); supplied "
        "as path, PathLike, open binary file (buffered, unbuffered, spooled temporary file), BytesIO at positions 0 and p>0, gzip-compressed; archive headers; (c) histories: "
        "random permutations of the candidate list and random sequences of selections; (d) faults: random bytes, empty and "
        "1-byte files, truncation at every structural boundary and at random offsets, gzip truncated at random offsets "
        "and with flipped bytes. A case = one selection; non-trivial = distinct (input, container, history position)")
ASSUME = ["Unicode \\w / \\d and the utf-8(ignore)/cp500 decoders are exercised on ASCII and EBCDIC names only",
          "gzip / zlib as in the Python standard library"]
TB = ["coqc 8.16.1 kernel", "translator/gen.py (pattern string, accepted lists via AST of the four _validate_header, MRO lists)",
      "correspondence check_accept / check_history evaluated in Coq"]

CLS = ["GACKLMReader", "LACKLMReader", "GACPODReader", "LACPODReader"]
POD_IDS = ["TN", "NA", "NB", "NC", "ND", "NE", "NF", "NG", "NH", "NI", "NJ"]
KLM_IDS = ["NK", "NL", "NM", "NN", "NP", "M1", "M2", "M3"]


def expected_class(name):
    """The property's own mapping, on a well-formed 42-character data-set name."""
    parts = name.split(".")
    if len(parts) < 8:
        return None
    mode, pid = parts[1], parts[2]
    res = "GAC" if mode == "GHRR" else ("LAC" if mode in ("LHRR", "HRPT", "FRAC") else None)
    fam = "POD" if pid in POD_IDS else ("KLM" if pid in KLM_IDS else None)
    if res is None or fam is None:
        return None
    return res + fam + "Reader"


def wellformed(name):
    import re
    return re.fullmatch(r"[A-Za-z0-9_]{3}\.[A-Za-z0-9_]{4}\.[A-Za-z0-9_]{2}\.D\d{5}\.S\d{4}\.E\d{4}\.B\d{7}\.[A-Za-z0-9_]{2}", name) is not None


def make_file(fmt, name, header_name=None, n=3, archive=False):
    """A small valid file of format fmt whose header carries header_name (bytes) -- default: name in ASCII."""
    fam = l1b.FMT[fmt]["family"]
    start = datetime.datetime(2003, 4, 5, 6, 7, 8) if fam == "klm" else datetime.datetime(1996, 4, 5, 6, 7, 8)
    sc = "noaa17" if fam == "klm" else "noaa14"
    lines = l1b.default_lines(fmt, n, start)
    hn = name.encode("ascii") if header_name is None else header_name
    return l1b.build_file(fmt, sc, start, lines, name=hn, archive=archive)


def scramble_header(fmt, data, rng):
    """Every header field except the data-set name gets random bytes (POD: the year bits of the start time, which select
    the header layout and thereby where the name is stored, are kept; its day-of-year bits take any 9-bit value)."""
    fam = l1b.FMT[fmt]["family"]
    lay = "klm_header" if fam == "klm" else "pod_header%d" % l1b.pod_header_epoch(datetime.date(1996, 4, 5))
    b = bytearray(data)
    for name, leaf in l1b.LEAVES[lay].items():
        if name == "data_set_name":
            continue
        off, w, st, cnt = leaf["off"], leaf["width"], leaf["stride"], leaf["count"]
        for k in range(cnt):
            if name == "start_time" and k == 0 and fam == "pod":
                yr = (b[off] << 8 | b[off + 1]) >> 9
                b[off:off + 2] = ((yr << 9) | rng.choice([0, 1, 366, 367, 400, 511, rng.randrange(512)])).to_bytes(2, "big")
                continue
            for j in range(w):
                b[off + k * st + j] = rng.getrandbits(8)
    return bytes(b)


def select(filename, fileobj=None):
    import pygac
    try:
        return pygac.get_reader_class(filename, fileobj=fileobj).__name__
    except ValueError:
        return None


def run(res, tier, seed):
    rng = common.rng_for(seed, PROP)
    import pygac
    from pygac import runner
    classes = {c.__name__: c for c in runner._reader_classes}
    if sorted(classes) != sorted(CLS):
        res.violations.append(("candidate list does not hold the four reader classes", dict(got=sorted(classes))))
        return
    original_order = list(runner._reader_classes)
    # ---------- (a) name level ----------
    modes = ["GHRR", "LHRR", "HRPT", "FRAC", "ghrr", "GHRX", "LHR_", "GAC_", "HRPTX", "GHR"]
    ids = POD_IDS + KLM_IDS + ["NO", "M4", "nj", "N1", "XX", "M0", "NJX", "N"]
    names = []
    for m in modes:
        for p in ids:
            names.append("NSS.%s.%s.D96144.S2000.E2148.B0720102.GC" % (m, p))
    names += ["NSS.GHRR.NJ?D96144.S2000.E2148.B0720102.GC", "NSS.GHRR.NJ.D9614.S2000.E2148.B0720102.GC", "NSS.GHRR.NJ.D96144.S2000.E2148.B072010.GC",
              "NSSXGHRR.NJ.D96144.S2000.E2148.B0720102.GC", "NSS.GHRR.NJ.D96144.S2000.E2148.B0720102.GCtrailing", " NSS.GHRR.NJ.D96144.S2000.E2148.B0720102.GC",
              "NSS.GHRR.NJ.D96144.S2000.E2148.B0720102.G", "", "NSS.GHRR.NJ.DABCDE.S2000.E2148.B0720102.GC", "N_S.G_RR.NJ.D96144.S2000.E2148.B0720102.__"]
    acc_cases = []
    for nm in names:
        got = []
        for cn in CLS:
            try:
                classes[cn]._validate_header({"data_set_name": nm.encode("ascii")})
                got.append(True)
            except ValueError:
                got.append(False)
            except Exception as e:  # noqa
                res.violations.append(("_validate_header raised %r" % (e,), dict(name=nm, reader=cn)))
                got.append(False)
        if sum(got) > 1:
            res.violations.append(("more than one reader accepts a data-set name", dict(name=nm, accepting=[c for c, g in zip(CLS, got) if g])))
        exp = expected_class(nm) if wellformed(nm[:42]) else None
        acc = [c for c, g in zip(CLS, got) if g]
        if (acc[0] if acc else None) != exp:
            res.violations.append(("reader accepting a name is not the one its transfer mode / platform code select", dict(name=nm, accepting=acc, expected=exp)))
        acc_cases.append("(%s, (%s, %s, %s, %s))" % ((common.slit(nm),) + tuple(common.blit(g) for g in got)))
        res.add_case(("name", nm), True, dict(name=nm, accepting=acc))
    # ---------- (b)+(c) files, containers, histories ----------
    hist_cases = []
    with common.scratch_dir() as d:
        files = []
        for fmt in ("gac_klm", "lac_klm", "gac_pod", "lac_pod"):
            fam = l1b.FMT[fmt]["family"]
            idl = KLM_IDS if fam == "klm" else POD_IDS
            ml = ["GHRR"] if l1b.FMT[fmt]["res"] == "gac" else ["LHRR", "HRPT", "FRAC"]
            for m in ml:
                for p in (idl if tier == "thorough" else rng.sample(idl, 3)):
                    nm = "NSS.%s.%s.D03095.S0607.E0609.B0000000.WI" % (m, p)
                    files.append((fmt, nm, "ascii"))
            files.append((fmt, "NSS.%s.%s.D03095.S0607.E0609.B0000000.WI" % (ml[0], idl[0]), "ebcdic"))
            # readable EBCDIC header name, stored under a file name that carries the name of the OTHER resolution of the family
            files.append((fmt, "NSS.%s.%s.D03095.S0607.E0609.B0000000.WI" % (ml[-1], idl[2]), "ebcdic-conflict"))
            if fam == "pod":
                files.append((fmt, "NSS.%s.%s.D03095.S0607.E0609.B0000000.WI" % (rng.choice(ml), rng.choice(idl)), "blank-tbm"))
            if fam == "pod":       # the 44-byte name field padded with non-ASCII bytes behind the 42-character name
                files.append((fmt, "NSS.%s.%s.D03095.S0607.E0609.B0000000.WI" % (ml[-1], idl[1]), "highpad"))
            files.append((fmt, "NSS.%s.%s.D03095.S0607.E0609.B0000000.WI" % (ml[-1], idl[-1]), "filename-only"))
            for _ in range(2 if tier == "quick" else 8):   # the name alone decides: every other header field random
                files.append((fmt, "NSS.%s.%s.D03095.S0607.E0609.B0000000.WI" % (rng.choice(ml), rng.choice(idl)), "otherfields"))
            files.append((fmt, "NSS.%s.%s.D03095.S0607.E0609.B0000000.WI" % (ml[0], "XX"), "ascii"))        # unknown platform
            files.append((fmt, "NSS.%s.%s.D03095.S0607.E0609.B0000000.WI" % ("XXXX", idl[0]), "ascii"))    # unknown mode
        blobs = []
        for fmt, nm, enc in files:
            if enc == "ebcdic":
                data = make_file(fmt, nm, header_name=nm.encode("cp500"))
                fname = "somefile"
            elif enc == "ebcdic-conflict":
                data = make_file(fmt, nm, header_name=nm.encode("cp500"))
                other_mode = "LHRR" if ".GHRR." in nm else "GHRR"
                fname = "/data/" + nm.replace(nm.split(".")[1], other_mode, 1)
            elif enc == "highpad":
                data = make_file(fmt, nm, header_name=nm.encode("ascii") + rng.choice([b"\x80\x80", b"\xff\xff", b" \xe9"]))
                fname = "somefile"
            elif enc == "filename-only":
                data = make_file(fmt, nm, header_name=b"\x00" * 42)
                fname = nm
            elif enc == "otherfields":
                data = scramble_header(fmt, make_file(fmt, nm), rng)
                fname = "somefile"
            elif enc == "blank-tbm":   # POD behind a TBM archive header whose own name field is blank (42 NUL + 2 spaces)
                data = l1b.make_tbm_header(blank_name=True) + make_file(fmt, nm, header_name=(nm.encode("cp500") if rng.random() < 0.3 else None))
                fname = rng.choice(["somefile", "upload_0001.l1b"])
            else:
                data = make_file(fmt, nm, archive=rng.random() < 0.5)     # with / without the ARS / TBM archive header
                fname = rng.choice(["somefile", nm, "/data/" + nm + ".gz"])
            exp = expected_class(nm)
            if exp is not None and exp != {"gac_klm": "GACKLMReader", "lac_klm": "LACKLMReader", "gac_pod": "GACPODReader", "lac_pod": "LACPODReader"}[fmt]:
                exp = exp   # name selects a reader of another format: the name decides (header layout differs -> may be rejected)
            blobs.append((fmt, nm, enc, fname, data, exp))
        nsel = 60 if tier == "quick" else 400
        order0 = [CLS.index(c.__name__) for c in runner._reader_classes]
        hist_files, hist_got = [], []
        perm = list(original_order)
        rng.shuffle(perm)
        runner._reader_classes[:] = perm
        order0 = [CLS.index(c.__name__) for c in runner._reader_classes]
        for k in range(nsel):
            fmt, nm, enc, fname, data, exp = rng.choice(blobs)
            container = rng.choice(["bytesio", "bytesio-pos", "path", "pathlike", "openfile", "gzip-bytesio", "gzip-path", "openfile-raw", "spooled"])
            ctx = dict(format_written=fmt, name=nm, encoding=enc, filename=fname, container=container, position_in_history=k, seed=seed)
            # which classes accept, asked individually (fresh BytesIO each): the input to the selector model
            row = []
            for cn in CLS:
                try:
                    row.append(bool(classes[cn].can_read(fname, fileobj=io.BytesIO(data))))
                except Exception as e:  # noqa
                    res.violations.append(("can_read raised %r" % (e,), dict(ctx, reader=cn)))
                    row.append(False)
            if sum(row) > 1 and not (enc == "filename-only"):
                res.violations.append(("more than one reader accepts a file", dict(ctx, accepting=[c for c, g in zip(CLS, row) if g])))
            pos = None
            try:
                if container == "bytesio":
                    fo = io.BytesIO(data)
                    got = select(fname, fo)
                    pos = (fo.tell(), 0)
                elif container == "bytesio-pos":
                    fo = io.BytesIO(data)
                    p0 = rng.randrange(1, len(data))
                    fo.seek(p0)
                    got = select(fname, fo)
                    pos = (fo.tell(), p0)
                elif container == "spooled":       # another kind of binary file object (not a buffered reader)
                    import tempfile
                    with tempfile.SpooledTemporaryFile(max_size=rng.choice([100, 10 ** 8])) as fo:
                        fo.write(data)
                        fo.seek(0)
                        got = select(fname, fo)
                        pos = (fo.tell(), 0)
                elif container in ("path", "pathlike", "openfile", "openfile-raw", "gzip-path"):
                    # half of the anonymous files are written to ONE path that is rewritten again and again: the selection
                    # follows what the file holds now, not what was found under that path before
                    base = os.path.basename(fname) if fname != "somefile" else ("incoming.l1b" if rng.random() < 0.5 else "somefile_%d" % k)
                    path = os.path.join(d, base)
                    with open(path, "wb") as f:
                        f.write(gzip.compress(data) if container == "gzip-path" else data)
                    if container in ("openfile", "openfile-raw"):
                        with open(path, "rb", **({"buffering": 0} if container == "openfile-raw" else {})) as fo:
                            got = select(path, fo)
                            pos = (fo.tell(), 0)
                    else:
                        got = select(pathlib.Path(path) if container == "pathlike" else path)
                    os.remove(path)
                else:
                    fo = io.BytesIO(gzip.compress(data))
                    got = select(fname, fo)
                    pos = (fo.tell(), 0)
            except Exception as e:  # noqa
                res.violations.append(("get_reader_class raised %r (only ValueError is allowed)" % (e,), ctx))
                continue
            if pos is not None and pos[0] != pos[1]:
                res.violations.append(("file object not left at its original position", dict(ctx, before=pos[1], after=pos[0])))
            want = {"gac_klm": "GACKLMReader", "lac_klm": "LACKLMReader", "gac_pod": "GACPODReader", "lac_pod": "LACPODReader"}[fmt] \
                if exp is not None else None
            if got != want:
                res.violations.append(("selected reader is not the one the data-set name selects (independent of history and container)",
                                       dict(ctx, selected=got, expected=want, candidate_order=[c.__name__ for c in runner._reader_classes])))
            hist_files.append(row)
            hist_got.append(None if got is None else CLS.index(got))
            res.add_case((nm, enc, container, k), True, dict(name=nm, encoding=enc, container=container, selected=got))
        final = [CLS.index(c.__name__) for c in runner._reader_classes]
        hist_cases.append("(%s, [%s], [%s], %s)" % ("[%s]" % "; ".join("%d%%nat" % x for x in order0),
                                                     "; ".join("[%s]" % "; ".join(common.blit(b) for b in row) for row in hist_files),
                                                     "; ".join("None" if g is None else "(Some %d%%nat)" % g for g in hist_got),
                                                     "[%s]" % "; ".join("%d%%nat" % x for x in final)))
        res.traces += 1
        # ---------- (d) faults ----------
        base = make_file("gac_klm", "NSS.GHRR.NL.D03095.S0607.E0609.B0000000.WI")
        basep = make_file("gac_pod", "NSS.GHRR.NJ.D96095.S0607.E0609.B0000000.WI")
        arsd = l1b.make_ars_header("NSS.GHRR.NL.D03095.S0607.E0609.B0000000.WI") + base
        gz = gzip.compress(base)
        faults = [("empty", b""), ("one-byte", b"\x00"), ("random", bytes(rng.getrandbits(8) for _ in range(5000)))]
        for cut in [1, 30, 74, 84, 121, 122, 123, 146, 188, 423, 424, 425, 511, 512, 513, 936, 1000, 4607, 4608]:
            faults += [("klm-cut-%d" % cut, base[:cut]), ("pod-cut-%d" % cut, basep[:cut]), ("ars-cut-%d" % cut, arsd[:cut])]
        for _ in range(20 if tier == "quick" else 300):
            c = rng.randrange(len(gz))
            faults.append(("gzip-cut-%d" % c, gz[:c]))
            b = bytearray(gz)
            i = rng.randrange(len(b))
            b[i] ^= rng.randrange(1, 256)
            faults.append(("gzip-flip-%d" % i, bytes(b)))
        # short gzip members (shorter than a header) whose trailer -- CRC or length -- is wrong, and intact ones
        import struct as _struct
        for payload in (b"NSS.GHRR.NK" * 3, b"x" * 10, base[:200]):
            raw = gzip.compress(payload)
            faults += [("gzip-short-badcrc-%d" % len(payload), raw[:-8] + _struct.pack("<I", 12345) + raw[-4:]),
                       ("gzip-short-badlen-%d" % len(payload), raw[:-4] + _struct.pack("<I", 7)),
                       ("gzip-short-intact-%d" % len(payload), raw)]
        # a gzip container of two members: the first intact and shorter than a header, the second with damaged deflate data
        for cut in (64, 100, 400):
            second = bytearray(gzip.compress(base[cut:cut + 3000]))
            second[12] ^= 0x07          # invalid block type / broken code lengths in the deflate stream
            second[20] ^= 0xFF
            faults.append(("gzip-two-members-second-damaged-%d" % cut, gzip.compress(base[:cut]) + bytes(second)))
        for label, blob in faults:
            fo = io.BytesIO(blob)
            p0 = rng.choice([0, 0, min(len(blob), 3)])
            fo.seek(p0)
            ctx = dict(fault=label, size=len(blob), seed=seed)
            try:
                pygac.get_reader_class("somefile", fileobj=fo)
                outcome = "accepted"
            except ValueError:
                outcome = "ValueError"
            except Exception as e:  # noqa
                res.violations.append(("damaged input rejected with %s instead of ValueError" % type(e).__name__, dict(ctx, error=repr(e)[:200])))
                continue
            if fo.tell() != p0:
                res.violations.append(("file object not left at its original position", dict(ctx, before=p0, after=fo.tell())))
            res.add_case(("fault", label), True, dict(fault=label, outcome=outcome))
    runner._reader_classes[:] = original_order
    # ---------- Coq ----------
    fn = "(check_accept gac_transfer_modes lac_transfer_modes pod_platform_ids klm_platform_ids)"
    failing, logs = common.coq_eval("c10_acc", "From PV Require Import M_Select Gen_Consts.", fn, acc_cases, shard=120,
                                    ctype="string * (bool * bool * bool * bool)")
    for kind, idx, msg in failing:
        res.no_input.append("corr_C10/names: " + (msg[-300:] if kind == "error" else "model and _validate_header disagree on %r" % names[idx]))
    failing, logs = common.coq_eval("c10_hist", "From PV Require Import M_Select.", "check_history", hist_cases, shard=5,
                                    ctype="list nat * list (list bool) * list (option nat) * list nat")
    for kind, idx, msg in failing:
        res.no_input.append("corr_C10/history: " + (msg[-300:] if kind == "error" else "move-to-front model and get_reader_class disagree on the selection history"))
    res.violations = res.violations[:5]


def known(res):
    """F-C10-1 (D6): a well-formed POD file whose FILE NAME carries a KLM data-set name is accepted by the POD reader
    (header name) and by the KLM reader (header unreadable at the KLM offsets -> file-name fallback)."""
    from pygac import runner
    for f in common.known_findings(PROP):
        if f["status"] != "open":
            continue
        data = make_file("gac_pod", "NSS.GHRR.NJ.D96095.S0607.E0609.B0000000.WI")
        fname = "NSS.GHRR.NL.D96095.S0607.E0609.B0000000.WI"
        acc = [c.__name__ for c in runner._reader_classes if c.can_read(fname, fileobj=io.BytesIO(data))]
        if len(acc) > 1:
            res.known.append("%s (witness replayed: accepted by %s)" % (f["line"], acc))
