"""Framework shared by all property checks: translator, Coq build, assumption scan, in-Coq evaluation of
the models on harness-written cases, evidence, known findings, violation reports."""
import contextlib
import fcntl
import glob
import hashlib
import io
import json
import os
import random
import re
import shutil
import subprocess
import sys
import tempfile
import time
import warnings

VERIF = os.path.dirname(os.path.dirname(os.path.abspath(__file__)))
REPO = os.environ.get("VERIF_REPO", "/repo")
COQ = os.path.join(VERIF, "coq")
PY = "/venv/bin/python"
ENV = dict(os.environ, PYTHONPATH=REPO, PYTHONHASHSEED="0", VERIF_REPO=REPO)

ALLOWED_AXIOMS = {
    # standard-library axioms (named in DESIGN.md section 5); nothing else is tolerated
    "ClassicalDedekindReals.sig_forall_dec", "ClassicalDedekindReals.sig_not_dec",
    "FunctionalExtensionality.functional_extensionality_dep", "Classical_Prop.classic",
}
ALLOWED_AXIOM_PREFIXES = ("PrimInt63.", "Uint63.", "PrimFloat.", "FloatAxioms.", "Uint63Axioms.", "FloatOps.",
                          "CarryType.", "PrimString.")
FORBIDDEN = re.compile(r"\b(Admitted|admit|Axiom|Axioms|Parameter|Parameters|Conjecture|Conjectures|"
                       r"Admit Obligations|bypass_check|Unset Guard Checking|Unset Positivity Checking|"
                       r"Unset Universe Checking|type-in-type|impredicative-set|native_compute)\b")


class MachineryError(Exception):
    """The verification machinery itself failed (exit 2), e.g. the translator met an unknown shape."""


def sh(cmd, timeout, cwd=None, env=None):
    p = subprocess.run(cmd, cwd=cwd, env=env or ENV, stdout=subprocess.PIPE, stderr=subprocess.STDOUT,
                       timeout=timeout, text=True)
    return p.returncode, p.stdout


@contextlib.contextmanager
def build_lock():
    os.makedirs(os.path.join(COQ, "_cases"), exist_ok=True)
    with open(os.path.join(COQ, ".lock"), "w") as f:
        fcntl.flock(f, fcntl.LOCK_EX)
        try:
            yield
        finally:
            fcntl.flock(f, fcntl.LOCK_UN)


# ------------------------------------------------------------------------------------------------
# translator + build
# ------------------------------------------------------------------------------------------------

_gen_cache = {}


def run_translator():
    """Regenerate coq/Gen/*.v (and Spec from the frozen spec) from the current /repo working tree."""
    jpath = os.path.join(COQ, "Gen", "gen.json")
    rc, out = sh([PY, os.path.join(VERIF, "translator", "gen.py"), os.path.join(COQ, "Gen"), "--json", jpath], 300)
    out = "\n".join(l for l in out.splitlines() if "conda" not in l.lower() and "numba" not in l.lower())
    rc2, out2 = sh([PY, os.path.join(VERIF, "translator", "spec2coq.py")], 120)
    if rc2 != 0:
        raise MachineryError("spec2coq failed:\n" + out2)
    if rc not in (0, 3):
        return False, out
    _gen_cache["json"] = json.load(open(jpath))
    _gen_cache["failed_parts"] = re.findall(r"TRANSLATOR-PART-FAILED (\w+)", out)
    return True, out


def gen_json():
    if "json" not in _gen_cache:
        _gen_cache["json"] = json.load(open(os.path.join(COQ, "Gen", "gen.json")))
    return _gen_cache["json"]


def coq_files():
    fs = []
    for d in ("Lib", "Spec", "Gen", "Model", "Proofs", "Props"):
        fs += sorted(glob.glob(os.path.join(COQ, d, "*.v")))
    return [os.path.relpath(f, COQ) for f in fs]


def write_makefile():
    proj = "-R . PV\n-arg -w -arg -notation-overridden,-deprecated-hint-without-locality," \
           "-deprecated-instance-without-locality,-ambiguous-paths,-deprecated-syntactic-definition\n" \
           + "\n".join(coq_files()) + "\n"
    p = os.path.join(COQ, "_CoqProject")
    if not os.path.exists(p) or open(p).read() != proj or not os.path.exists(os.path.join(COQ, "Makefile")):
        open(p, "w").write(proj)
        rc, out = sh(["coq_makefile", "-f", "_CoqProject", "-o", "Makefile"], 120, cwd=COQ)
        if rc != 0:
            raise MachineryError("coq_makefile failed:\n" + out)


def make(targets, timeout=3000, jobs=16):
    """Full .vo build of the given targets. Returns (ok, log)."""
    write_makefile()
    rc, out = sh(["timeout", str(timeout), "make", "-j%d" % jobs] + list(targets), timeout + 30, cwd=COQ)
    return rc == 0, out


def guard_grep():
    """No Admitted/admit/Axiom/... anywhere in the development (comments are stripped first)."""
    bad = []
    for f in coq_files():
        txt = open(os.path.join(COQ, f)).read()
        txt = strip_comments(txt)
        for m in FORBIDDEN.finditer(txt):
            bad.append("%s: %s" % (f, m.group(0)))
    return bad


def strip_comments(txt):
    out, depth, i = [], 0, 0
    while i < len(txt):
        if txt.startswith("(*", i):
            depth += 1
            i += 2
        elif txt.startswith("*)", i) and depth:
            depth -= 1
            i += 2
        else:
            if not depth:
                out.append(txt[i])
            i += 1
    return "".join(out)


def theorems_in(props_file):
    txt = strip_comments(open(os.path.join(COQ, props_file)).read())
    return re.findall(r"^\s*(?:Theorem|Example)\s+([A-Za-z0-9_']+)", txt, re.M)


def print_assumptions(props_file, timeout=900):
    """Re-run coqc on the Props file (it ends with Print Assumptions commands) and parse them.
    Returns dict theorem -> list of axioms ([] = closed under the global context)."""
    rc, out = sh(["timeout", str(timeout), "coqc", "-R", ".", "PV", "-w", "none", props_file], timeout + 30, cwd=COQ)
    if rc != 0:
        return None, out
    res = {}
    # Coq prints either "Closed under the global context" or "Axioms:\n name : type ..." per command, in order
    blocks = re.split(r"(?=Closed under the global context|Axioms:)", out)
    blocks = [b for b in blocks if b.startswith("Closed under") or b.startswith("Axioms:")]
    txt = strip_comments(open(os.path.join(COQ, props_file)).read())
    names = re.findall(r"Print Assumptions\s+([A-Za-z0-9_'.]+)\s*\.", txt)
    if len(names) != len(blocks):
        raise MachineryError("cannot match Print Assumptions output (%d commands, %d blocks)" % (len(names), len(blocks)))
    for n, b in zip(names, blocks):
        if b.startswith("Closed"):
            res[n] = []
        else:
            axs = re.findall(r"^([A-Za-z_][A-Za-z0-9_.']*)\s*:", b[len("Axioms:"):], re.M)
            res[n] = axs
    return res, out


def axioms_allowed(axs):
    bad = []
    for a in axs:
        if a in ALLOWED_AXIOMS or a.startswith(ALLOWED_AXIOM_PREFIXES):
            continue
        bad.append(a)
    return bad


# ------------------------------------------------------------------------------------------------
# in-Coq evaluation
# ------------------------------------------------------------------------------------------------

def zlit(n):
    n = int(n)
    return "(%d)" % n if n < 0 else str(n)


def zlist(xs):
    return "[" + "; ".join(zlit(x) for x in xs) + "]"


def zpack(xs, signed=False):
    """Long integer list as one big literal, unpacked in Coq by CaseLib.unpack (fast to elaborate)."""
    xs = [int(x) for x in xs]
    if not xs:
        return "(@nil Z)"
    bias = 0
    if signed or min(xs) < 0:
        bias = 1 << max(1, max(abs(x) for x in xs).bit_length())
    w = max(1, max(x + bias for x in xs).bit_length())
    big = 0
    for i, x in enumerate(xs):
        big |= (x + bias) << (w * i)
    return "(unpack %d %s %d %s)" % (w, hex(bias), len(xs), hex(big))


def npack(xs):
    xs = [int(x) for x in xs]
    if not xs:
        return "(@nil nat)"
    w = max(1, max(xs).bit_length())
    big = 0
    for i, x in enumerate(xs):
        big |= x << (w * i)
    return "(unpack_nat %d %d %s)" % (w, len(xs), hex(big))


def blit(b):
    return "true" if b else "false"


def qlit(fr):
    from fractions import Fraction
    fr = Fraction(fr)
    return "(%s # %d)" % (zlit(fr.numerator), fr.denominator)


def slit(s):
    return '"' + s.replace('"', '""') + '"'


def optlit(x, f):
    return "None" if x is None else "(Some %s)" % f(x)


def flit(x):
    """Python float -> Coq primitive float literal (hex, exact)."""
    import math
    if x != x:
        return "nan"
    if x == math.inf:
        return "infinity"
    if x == -math.inf:
        return "neg_infinity"
    h = float(x).hex()
    return "(%s)%%float" % h if not h.startswith("-") else "(%s)%%float" % h


def coq_eval(tag, imports, check_fn, cases, shard=400, timeout=600, preamble="", ctype=None):
    """Evaluate `check_fn case` (a Coq bool) for every case term inside Coq with vm_compute.

    Returns the list of indices where the model's verdict is false, plus the raw logs.  The case terms
    contain both the input and what the implementation returned: the comparison is done inside Coq, so
    nothing but a list of failing indices has to be parsed."""
    d = os.path.join(COQ, "_cases")
    os.makedirs(d, exist_ok=True)
    _t0 = time.time()
    # make sure every imported module of the development is compiled against the current sources
    mods = set(re.findall(r"\b([A-Z][A-Za-z0-9_]*)\b", " ".join(re.findall(r"From PV Require Import ([^.]*)\.", imports + " From PV Require Import CaseLib."))))
    targets = [f[:-2] + ".vo" for f in coq_files() if os.path.basename(f)[:-2] in mods]
    if targets:
        with build_lock():
            okb, log = make(targets)
        if not okb:
            return [("error", 0, "building %s failed: %s" % (targets, log[-1500:]))], [log]
    for f in glob.glob(os.path.join(d, "%s_*" % tag)):
        os.remove(f)
    files = []
    for k in range(0, len(cases), shard):
        name = "%s_%03d" % (tag, k // shard)
        body = "From Coq Require Import String ZArith QArith List Bool.\nImport ListNotations.\nFrom PV Require Import CaseLib.\n" + imports + "\n"
        body += "Open Scope Z_scope.\nOpen Scope string_scope.\n" + preamble + "\n"
        chunk = cases[k:k + shard]
        for j, c in enumerate(chunk):
            body += "Definition c%d%s := %s.\n" % (j, (" : " + ctype) if ctype else "", c)
        body += "Definition verdicts : list bool := [%s].\n" % "; ".join("%s c%d" % (check_fn, j) for j in range(len(chunk)))
        body += "Fixpoint bad (i : nat) (l : list bool) : list nat := match l with [] => [] | b :: r => " \
                "if b then bad (S i) r else i :: bad (S i) r end.\n"
        body += "Eval vm_compute in (bad 0 verdicts).\n"
        open(os.path.join(d, name + ".v"), "w").write(body)
        files.append((name, k))
    procs = []
    failing, logs = [], []
    maxpar = 8
    pending = list(files)
    running = []
    while pending or running:
        while pending and len(running) < maxpar:
            name, k = pending.pop(0)
            p = subprocess.Popen("ulimit -s unlimited 2>/dev/null; exec timeout %d coqc -R . PV -w none _cases/%s.v" % (timeout, name),
                                 shell=True, cwd=COQ, env=ENV, stdout=subprocess.PIPE, stderr=subprocess.STDOUT, text=True)
            running.append((p, name, k))
        p, name, k = running.pop(0)
        out, _ = p.communicate()
        if p.returncode != 0:
            logs.append("coqc failed on %s:\n%s" % (name, out[-3000:]))
            failing.append(("error", k, out[-2000:]))
            continue
        flat = " ".join(out.split())
        m = re.search(r"= \[(.*?)\] : list nat", flat)
        if not m:
            logs.append("cannot parse output of %s: %s" % (name, out[-500:]))
            failing.append(("error", k, out[-500:]))
            continue
        idx = [int(x.strip().replace("%nat", "")) for x in m.group(1).split(";") if x.strip()]
        for i in idx:
            failing.append(("mismatch", k + i, ""))
    for f in glob.glob(os.path.join(d, "%s_*" % tag)):
        if not f.endswith(".v"):
            os.remove(f)
    COQ_EVAL_SECONDS[tag] = round(time.time() - _t0, 1)
    return failing, logs


COQ_EVAL_SECONDS = {}


# ------------------------------------------------------------------------------------------------
# known findings, evidence, reporting
# ------------------------------------------------------------------------------------------------

def known_findings(prop):
    p = os.path.join(VERIF, "known_findings.json")
    if not os.path.exists(p):
        return []
    return [e for e in json.load(open(p))["findings"] if e["property"] == prop]


class Result:
    def __init__(self, prop, tier, seed):
        self.prop, self.tier, self.seed = prop, tier, seed
        self.t0 = time.time()
        self.violations = []      # (what, replay dict)
        self.known = []
        self.obligations = 0
        self.discharged = 0
        self.axioms = {}
        self.evaluations = 0
        self.nontrivial = set()
        self.samples = []
        self.notes = {}
        self.checker_cmd = ""
        self.traces = 0
        self.no_input = []        # broken theorem / correspondence without a failing input

    def add_case(self, key, nontrivial=True, sample=None):
        self.evaluations += 1
        if nontrivial:
            self.nontrivial.add(key)
        if sample is not None and len(self.samples) < 6:
            self.samples.append(sample)


def write_replay(prop, seed, payload):
    d = os.path.join(VERIF, "replays", prop)
    os.makedirs(d, exist_ok=True)
    k = len(os.listdir(d))
    path = os.path.join(d, "%s-%d-%d.json" % (prop, seed, k))
    with open(path, "w") as f:
        json.dump(payload, f, indent=1, default=str)
    return path


def finish(res, rule, assumptions, trusted_base, level="proof", extra=None):
    """Write evidence, print VIOLATION / KNOWN-FINDING lines, return exit code."""
    lines = []
    for what, replay in res.violations:
        path = write_replay(res.prop, res.seed, dict(property=res.prop, what=what, tier=res.tier, seed=res.seed, replay=replay,
                                                    replay_cmd="%s vf.py replay %s <this file>" % (PY, res.prop)))
        lines.append("VIOLATION property=%s replay=%s" % (res.prop, path))
    if not res.violations:
        for what in res.no_input:
            path = write_replay(res.prop, res.seed, dict(property=res.prop, broken=what, tier=res.tier, seed=res.seed,
                                                        replay_cmd="%s vf.py replay %s <this file>" % (PY, res.prop),
                                                        note="no failing input found by the search; the property is no longer shown to hold"))
            lines.append("VIOLATION property=%s replay=%s no-failing-input-found" % (res.prop, path))
    for k in res.known:
        print("KNOWN-FINDING: property=%s %s" % (res.prop, k))
    cov = dict(obligations=res.obligations, discharged=res.discharged,
               checker_cmd=res.checker_cmd or "make -C /verif/coq Props/%s.vo && coqc Props/%s.v (Print Assumptions)" % (res.prop, res.prop),
               trusted_base=trusted_base + ["axioms reported by Print Assumptions in this run: " + json.dumps(res.axioms)],
               evaluations=res.evaluations, distinct_nontrivial=len(res.nontrivial), rule=rule,
               samples=res.samples or ["(no cases generated)"], traces_validated_against_impl=res.traces)
    if res.discharged == 0:
        # schema: a proof-level record needs discharged >= 1; a broken build is reported through the generic keys
        del cov["discharged"]
        cov["discharged_none"] = True
    cov.update(res.notes)
    cov["seconds_coq_eval"] = dict(COQ_EVAL_SECONDS)
    if extra:
        cov.update(extra)
    ev = dict(property_id=res.prop, tier=res.tier, seed=res.seed, level=level, coverage=cov,
              assumptions=assumptions, wall_s=round(time.time() - res.t0, 2), violations=len(lines))
    os.makedirs(os.path.join(VERIF, "evidence"), exist_ok=True)
    with open(os.path.join(VERIF, "evidence", "%s.json" % res.prop), "w") as f:
        json.dump(ev, f, indent=1, default=str)
    for l in lines:
        print(l)
    print("%s %s tier=%s seed=%d obligations=%d/%d cases=%d nontrivial=%d wall=%.1fs" % (
        res.prop, "FAIL" if lines else "ok", res.tier, res.seed, res.discharged, res.obligations, res.evaluations,
        len(res.nontrivial), time.time() - res.t0))
    return 1 if lines else 0


def proof_stage(res, prop, extra_targets=()):
    """Regenerate Gen/*, build Props/<prop>.vo, scan assumptions.  Returns list of broken-obligation strings."""
    broken = []
    with build_lock():
        ok, out = run_translator()
        if not ok:
            broken.append("translator: " + out.strip().splitlines()[-1] if out.strip() else "translator failed")
            res.notes["translator_log"] = out[-2000:]
        if _gen_cache.get("failed_parts"):
            res.notes["translator_parts_not_translated"] = [l for l in out.splitlines() if l.startswith("TRANSLATOR-PART-FAILED")]
        pf = "Props/%s.v" % prop
        names = theorems_in(pf)
        res.obligations = len(names)
        bad = guard_grep()
        if bad:
            raise MachineryError("forbidden constructs in the Coq development: %s" % bad)
        okb, log = make(["Props/%s.vo" % prop] + list(extra_targets))
        res.checker_cmd = "cd /verif/coq && make -j16 Props/%s.vo  (full .vo build, coqc 8.16.1) && coqc -R . PV Props/%s.v (Print Assumptions)" % (prop, prop)
        if not okb:
            m = re.findall(r'File "\./([^"]+)", line (\d+)[^\n]*\n(?:Error|.*\nError)[^\n]*(?:\n[^\n]*){0,6}', log)
            where = re.findall(r'File "\./([^"]+)", line (\d+)', log)
            res.notes["build_log_tail"] = log[-3000:]
            broken.append("proof obligation no longer checks: %s (see build_log_tail)" % (
                ", ".join("%s:%s" % w for w in where[-3:]) or "make failed"))
            res.discharged = 0
            return broken
        axs, raw = print_assumptions(pf)
        if axs is None:
            broken.append("Print Assumptions run failed for %s" % pf)
            res.notes["build_log_tail"] = raw[-3000:]
            return broken
        res.axioms = axs
        for n, a in axs.items():
            badax = axioms_allowed(a)
            if badax:
                raise MachineryError("theorem %s depends on non-whitelisted axioms %s" % (n, badax))
        res.discharged = len(names)
        if res.tier == "thorough":
            # independent re-check of the compiled files (and everything they depend on) with coqchk
            budget = int(os.environ.get("VERIF_COQCHK_SECONDS", "600"))
            if budget <= 0:
                res.notes["coqchk"] = "skipped (VERIF_COQCHK_SECONDS=%d); the coqc kernel check stands" % budget
                return broken
            try:
                rc, out = sh(["timeout", "-k", "10", str(budget), "coqchk", "-silent", "-o", "-R", ".", "PV", "PV.Props.%s" % prop], budget + 60, cwd=COQ)
            except subprocess.TimeoutExpired:
                rc, out = 124, ""
            summary = out[out.find("CONTEXT SUMMARY"):] if "CONTEXT SUMMARY" in out else out[-1500:]
            res.checker_cmd += " && coqchk -silent -o -R . PV PV.Props.%s" % prop
            if rc == 124:
                # coqchk has no VM: the reflective (vm_compute-sized) proofs can take it very long; not a verdict either way
                res.notes["coqchk"] = "not completed within %d s (coqchk re-checks vm_compute casts by plain conversion); the coqc kernel check stands" % budget
            else:
                res.notes["coqchk"] = summary[-2500:]
                if rc != 0 or "CONTEXT SUMMARY" not in out:
                    broken.append("coqchk rejected Props/%s.vo or one of its dependencies" % prop)
                for bad in ("type-in-type: <none>", "unsafe (co)fixpoints: <none>", "positivity is assumed: <none>"):
                    if "CONTEXT SUMMARY" in out and bad not in " ".join(summary.split()):
                        raise MachineryError("coqchk reports a disabled kernel check: " + summary[-600:])
    return broken


def quiet_import():
    """Import pygac quietly; returns nothing. Silences warnings and logging noise."""
    import logging
    warnings.filterwarnings("ignore")
    logging.disable(logging.CRITICAL)


@contextlib.contextmanager
def scratch_dir():
    d = tempfile.mkdtemp(prefix="pv_", dir=os.environ.get("VERIF_SCRATCH", "/tmp"))
    try:
        yield d
    finally:
        shutil.rmtree(d, ignore_errors=True)


def rng_for(seed, prop):
    return random.Random("%s-%d" % (prop, seed))
