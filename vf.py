#!/venv/bin/python
"""Entry point of the pygac verification machinery.

  /venv/bin/python vf.py setup                      build the whole Coq development from /repo's working tree
  /venv/bin/python vf.py check <Cxx> [--tier quick|thorough] [--seed N]
  /venv/bin/python vf.py replay <Cxx> <replay.json>

exit 0: property held on everything explored; exit 1 + "VIOLATION property=<id> replay=<path>" otherwise;
exit 2: the machinery itself failed (never reported as a pass).
"""
import importlib
import json
import os
import sys
import traceback

HERE = os.path.dirname(os.path.abspath(__file__))
os.environ.setdefault("VERIF_REPO", "/repo")
if os.environ.get("PYTHONHASHSEED") != "0" or os.path.realpath(sys.executable) != os.path.realpath("/venv/bin/python") \
        or os.environ.get("PYTHONPATH", "").split(":")[0] != os.environ["VERIF_REPO"]:
    env = dict(os.environ, PYTHONHASHSEED="0", PYTHONPATH=os.environ["VERIF_REPO"], PYTHONWARNINGS="ignore")
    os.execve("/venv/bin/python", ["/venv/bin/python"] + sys.argv, env)

sys.path.insert(0, os.path.join(HERE, "harness"))
os.chdir(HERE)
import common  # noqa: E402


def cmd_setup():
    with common.build_lock():
        ok, out = common.run_translator()
        print(out)
        if not ok:
            print("setup: translator refused the current tree (checks will report it)")
        common.write_makefile()
        okb, log = common.make([f[:-2] + ".vo" for f in common.coq_files()], timeout=3400)
        print(log[-4000:])
        if not okb:
            print("setup: full build failed (individual checks will report the broken obligation)")
    return 0


def cmd_check(prop, tier, seed):
    mod = importlib.import_module(prop.lower())
    res = common.Result(prop, tier, seed)
    try:
        import time as _t
        _t0 = _t.time()
        broken = common.proof_stage(res, prop, getattr(mod, "EXTRA_TARGETS", ()))
        res.notes["seconds_proof_stage"] = round(_t.time() - _t0, 1)
        for b in broken:
            res.no_input.append(b)
        skip_corr = bool(broken) and not getattr(mod, "RUN_WHEN_BROKEN", True)
        if not skip_corr:
            try:
                mod.run(res, tier, seed)
            except common.MachineryError:
                raise
            except Exception as e:  # noqa
                # the harness could not drive the implementation to the end: the correspondence is not established
                res.no_input.append("correspondence of %s aborted: %r\n%s" % (prop, e, traceback.format_exc()[-1500:]))
        if hasattr(mod, "known"):
            mod.known(res)
        return common.finish(res, mod.RULE, mod.ASSUME, mod.TB + getattr(mod, "TB_EXTRA", []))
    except common.MachineryError as e:
        print("MACHINERY-ERROR %s: %s" % (prop, e))
        return 2
    except Exception:
        traceback.print_exc()
        print("MACHINERY-ERROR %s: unexpected exception in the check" % prop)
        return 2


def cmd_replay(prop, path):
    """Every random choice of a check derives from (property, seed): a replay re-runs the check of the recorded tier and seed
    against the current tree and reports whether the recorded violation occurs again (exit 1) or not (exit 0)."""
    payload = json.load(open(path))
    mod = importlib.import_module(prop.lower())
    if hasattr(mod, "replay"):
        return mod.replay(payload)
    what = payload.get("what") or payload.get("broken") or ""
    tier, seed = payload.get("tier", "quick"), int(payload.get("seed", (payload.get("replay") or {}).get("seed", 0) if isinstance(payload.get("replay"), dict) else 0))
    print("replaying %s tier=%s seed=%d: %s" % (prop, tier, seed, what[:200]))
    print(json.dumps(payload.get("replay"), indent=1, default=str)[:3000])
    before = set(os.listdir(os.path.join(HERE, "replays", prop))) if os.path.isdir(os.path.join(HERE, "replays", prop)) else set()
    rc = cmd_check(prop, tier, seed)
    again = False
    d = os.path.join(HERE, "replays", prop)
    for f in sorted(set(os.listdir(d)) - before) if os.path.isdir(d) else []:
        p2 = json.load(open(os.path.join(d, f)))
        if (p2.get("what") or p2.get("broken") or "")[:80] == what[:80]:
            again = True
    print("REPLAY %s: the recorded violation %s" % (prop, "occurs again" if again else "does not occur on the current tree"))
    return 1 if again else (rc if rc == 2 else 0)


def main(argv):
    if len(argv) < 2:
        print(__doc__)
        return 2
    if argv[1] == "setup":
        return cmd_setup()
    if argv[1] == "check":
        prop = argv[2]
        tier = os.environ.get("VERIF_TIER", "quick")
        seed = int(os.environ.get("VERIF_SEED", "0"))
        if "--tier" in argv:
            tier = argv[argv.index("--tier") + 1]
        if "--seed" in argv:
            seed = int(argv[argv.index("--seed") + 1])
        return cmd_check(prop, tier, seed)
    if argv[1] == "replay":
        return cmd_replay(argv[2], argv[3])
    print(__doc__)
    return 2


if __name__ == "__main__":
    sys.exit(main(sys.argv))
