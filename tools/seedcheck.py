#!/venv/bin/python
"""Confirm a seeded change and run our checks against it.

  seedcheck.py confirm <prop> <seed_src_dir> <name>   # verify tests pass / demo fails with patch / passes without; store under seeded/
  seedcheck.py run <name> [prop ...]                   # apply seeded/<name>/patch.diff to /repo, run vf.py check, undo

`confirm` works in a scratch worktree of /repo under /tmp that is removed afterwards.
"""
import json
import os
import shutil
import subprocess
import sys
import time

VERIF = os.path.dirname(os.path.dirname(os.path.abspath(__file__)))
REPO = "/repo"


def sh(cmd, cwd=None, env=None, timeout=1800):
    p = subprocess.run(cmd, shell=True, cwd=cwd, env=env, stdout=subprocess.PIPE, stderr=subprocess.STDOUT, text=True,
                       timeout=timeout)
    return p.returncode, p.stdout


def confirm(prop, src, name):
    wt = "/tmp/seedwt_%s" % name
    sh("git -C %s worktree remove --force %s" % (REPO, wt))
    rc, out = sh("git -C %s worktree add -q --detach %s HEAD" % (REPO, wt))
    assert rc == 0, out
    try:
        shutil.copy(os.path.join(REPO, "pygac", "version.py"), os.path.join(wt, "pygac", "version.py"))
        env = dict(os.environ, PYTHONPATH=wt, PYTHONHASHSEED="0")
        demo = os.path.join(src, "demo.py")
        patch = os.path.join(src, "patch.diff")
        rc0, out0 = sh("/venv/bin/python %s" % demo, cwd=wt, env=env)
        rc, out = sh("git apply %s" % patch, cwd=wt)
        assert rc == 0, "patch does not apply: " + out
        rct, outt = sh("/venv/bin/python -m pytest -q -p no:cacheprovider --timeout=900 pygac/tests 2>&1 | tail -3", cwd=wt, env=env)
        rc1, out1 = sh("/venv/bin/python %s" % demo, cwd=wt, env=env)
        sh("git checkout -- .", cwd=wt)
        tests_ok = "88 passed" in outt and "failed" not in outt
        ok = (rc0 == 0) and (rc1 != 0) and tests_ok
        print("demo without patch: rc=%d; with patch: rc=%d; tests: %s" % (rc0, rc1, outt.strip().splitlines()[-1]))
        if not ok:
            print("NOT CONFIRMED"); print(out0[-500:]); print(out1[-800:])
            return 1
        dst = os.path.join(VERIF, "seeded", name)
        os.makedirs(dst, exist_ok=True)
        shutil.copy(patch, os.path.join(dst, "patch.diff"))
        shutil.copy(demo, os.path.join(dst, "demo.py"))
        notes = open(os.path.join(src, "notes.md")).read() if os.path.exists(os.path.join(src, "notes.md")) else ""
        meta = dict(property=prop, name=name, needs_to_manifest=notes,
                    confirmed=dict(base_commit=sh("git -C %s rev-parse HEAD" % REPO)[1].strip(),
                                   tests_with_patch=outt.strip().splitlines()[-1], demo_rc_without_patch=rc0,
                                   demo_rc_with_patch=rc1, demo_output_with_patch=out1[-600:],
                                   ran=["git apply patch.diff (scratch worktree)", "pytest pygac/tests", "python demo.py (with / without patch)"]),
                    detected_by={})
        json.dump(meta, open(os.path.join(dst, "meta.json"), "w"), indent=1)
        print("CONFIRMED -> %s" % dst)
        return 0
    finally:
        sh("git -C %s worktree remove --force %s" % (REPO, wt))
        shutil.rmtree(wt, ignore_errors=True)


def run(name, props):
    """Runs the checks against a scratch worktree of /repo's HEAD carrying the seeded patch (VERIF_REPO); /repo is not touched."""
    dst = os.path.join(VERIF, "seeded", name)
    meta = json.load(open(os.path.join(dst, "meta.json")))
    props = props or [meta["property"]]
    wt = "/tmp/seedrun_%s" % name
    sh("git -C %s worktree remove --force %s" % (REPO, wt))
    shutil.rmtree(wt, ignore_errors=True)
    rc, out = sh("git -C %s worktree add -q --detach %s HEAD" % (REPO, wt))
    assert rc == 0, out
    try:
        shutil.copy(os.path.join(REPO, "pygac", "version.py"), os.path.join(wt, "pygac", "version.py"))
        rc, out = sh("git apply %s" % os.path.join(dst, "patch.diff"), cwd=wt)
        assert rc == 0, out
        env = dict(os.environ, VERIF_REPO=wt)
        env.pop("PYTHONPATH", None)
        for p in props:
            t = time.time()
            rc, out = sh("/venv/bin/python vf.py check %s --tier quick" % p, cwd=VERIF, env=env)
            lines = [l for l in out.splitlines() if l.startswith(("VIOLATION", "KNOWN", "MACHINERY", p))]
            detected = rc == 1 and any(l.startswith("VIOLATION") for l in lines)
            first = next((l for l in lines if l.startswith("VIOLATION")), "")
            what = ""
            if first and "replay=" in first:
                path = first.split("replay=")[1].split()[0]
                try:
                    what = json.load(open(path)).get("what") or json.load(open(path)).get("broken") or ""
                except Exception:
                    pass
            meta["detected_by"][p] = dict(detected=detected, exit=rc, line=first, what=what[:300], wall_s=round(time.time() - t, 1))
            print(name, p, "DETECTED" if detected else "MISSED (rc=%d)" % rc, first, "|", what[:200])
    finally:
        sh("git -C %s worktree remove --force %s" % (REPO, wt))
        shutil.rmtree(wt, ignore_errors=True)
    json.dump(meta, open(os.path.join(dst, "meta.json"), "w"), indent=1)


if __name__ == "__main__":
    if sys.argv[1] == "confirm":
        sys.exit(confirm(sys.argv[2], sys.argv[3], sys.argv[4]))
    elif sys.argv[1] == "run":
        run(sys.argv[2], sys.argv[3:])
