#!/bin/bash
# thorough tier of every claimed check (seed from VERIF_SEED, default 0); one line per check
cd "$(dirname "$0")/.."
/venv/bin/python vf.py setup > /dev/null 2>&1
for p in ${PROPS:-$(/venv/bin/python -c "import json; print(' '.join(c['property_id'] for c in json.load(open('MANIFEST.json'))['checks']))")}; do
  s=$(date +%s)
  out=$(/venv/bin/python vf.py check $p --tier thorough 2>&1 | grep -v -i -e conda -e numba | grep -e "^VIOLATION" -e "^MACHINERY" -e "^$p " | tail -3 | tr '\n' ' ')
  echo "$out ($(( $(date +%s) - s )) s)" | cut -c1-300
done
