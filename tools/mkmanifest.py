#!/venv/bin/python
"""Regenerate MANIFEST.json from the per-property metadata in tools/claims.json."""
import json
import os

HERE = os.path.dirname(os.path.abspath(__file__))
ROOT = os.path.dirname(HERE)
claims = json.load(open(os.path.join(HERE, "claims.json")))
props = [json.loads(l)["id"] for l in open(os.path.join(ROOT, "properties.jsonl"))]

checks = []
na = []
for pid in props:
    c = claims.get(pid)
    if c is None or c.get("not_applicable"):
        na.append(dict(property_id=pid, reason=(c or {}).get("not_applicable", "check not built yet (work in progress)")))
        continue
    checks.append(dict(
        property_id=pid,
        quick_cmd="/venv/bin/python vf.py check %s --tier quick" % pid,
        thorough_cmd="/venv/bin/python vf.py check %s --tier thorough" % pid,
        evidence_file="/verif/evidence/%s.json" % pid,
        replay_cmd_template="/venv/bin/python vf.py replay %s {path}" % pid,
        engine="coq-proof+correspondence",
        level_claimed=dict(category="proof", text=c["text"], design_ref=c.get("design_ref", "DESIGN.md section 6, " + pid)),
        level_note=c["note"],
        technique=c["technique"]))

man = dict(
    version=1,
    setup_cmd="/venv/bin/python vf.py setup",
    hooks=dict(guard="PYGAC_VERIF", enable="none needed: all observation points are public accessors, module globals or "
               "library functions wrapped from the harness process; no hook commits exist",
               baseline_off_cmd="cd /repo && /venv/bin/python -m pytest -ra -q -p no:cacheprovider --timeout=900 "
               "--continue-on-collection-errors", source_commits=[], add_only=True),
    engines=[dict(name="coq-proof+correspondence", path="/verif/vf.py", serves_properties=[c["property_id"] for c in checks],
                  kind_free_text="Coq 8.16.1 theorems over Gallina models (coq/Props), models tied to /repo by a translator "
                  "(coq/Gen regenerated every run) and by a correspondence check that evaluates the models inside Coq "
                  "(vm_compute) on the inputs the real pygac code was run on; Python oracles search for failing inputs")],
    checks=checks,
    notes="See DESIGN.md. Every check rebuilds coq/Gen from /repo's working tree, re-checks the property's theorems "
          "(full .vo build + Print Assumptions), then runs the real readers on spec-written files and compares with the model.",
    not_applicable=na)
json.dump(man, open(os.path.join(ROOT, "MANIFEST.json"), "w"), indent=1)
print("claimed:", [c["property_id"] for c in checks], "not claimed:", [n["property_id"] for n in na])
