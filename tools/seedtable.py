#!/venv/bin/python
"""Print the markdown table of seeded changes and the checks that caught them (from seeded/*/meta.json)."""
import glob
import json
import os

VERIF = os.path.dirname(os.path.dirname(os.path.abspath(__file__)))
rows = []
for f in sorted(glob.glob(os.path.join(VERIF, "seeded", "*", "meta.json"))):
    m = json.load(open(f))
    first = (m.get("needs_to_manifest") or "").strip().splitlines()
    title = first[0].lstrip("# ").strip() if first else ""
    title = title.split(":", 1)[-1].split(" - ", 1)[-1].strip() if (":" in title or " - " in title) else title
    det = []
    for p, d in sorted(m.get("detected_by", {}).items()):
        how = "concrete input" if d.get("detected") and "no-failing-input-found" not in d.get("line", "") else (
            "broken obligation (no input found)" if d.get("detected") else ("MISSED" if p == m["property"] else "no alarm (other property)"))
        det.append("%s: %s — %s" % (p, how, (d.get("what") or "")[:90].replace("|", "/")))
    if m.get("out_of_scope"):
        det = ["no alarm, correctly: " + m["out_of_scope"][:260]]
    rows.append("| %s | %s | %s |" % (m["name"], title[:110].replace("|", "/"), "; ".join(det) or "not run"))
print("| seed | change | detected by |\n|---|---|---|\n" + "\n".join(rows))
