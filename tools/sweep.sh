#!/bin/bash
# run every claimed check with several seeds; print one line per run
cd "$(dirname "$0")/.."
/venv/bin/python vf.py setup > /dev/null 2>&1
for p in $(/venv/bin/python -c "import json; print(' '.join(c['property_id'] for c in json.load(open('MANIFEST.json'))['checks']))"); do
  for s in ${SEEDS:-1 2 3 4 5}; do
    out=$(/venv/bin/python vf.py check $p --seed $s 2>&1 | grep -v -i -e conda -e numba | tail -1)
    echo "$out" | cut -c1-160
  done
done
