#!/bin/bash
# run every stored seed against the check of its own property (scratch worktree, /repo untouched); one line per seed
cd "$(dirname "$0")/.."
/venv/bin/python vf.py setup > /dev/null 2>&1
for d in seeded/*/; do
  n=$(basename "$d")
  /venv/bin/python tools/seedcheck.py run "$n" 2>&1 | grep -v -i -e conda -e numba | tail -1 | cut -c1-220
done
