#!/bin/bash
# apply a behaviour-preserving refactoring (benign/<name>/patch.diff) to a scratch worktree of /repo and run every check: no alarm expected
cd "$(dirname "$0")/.."
name=$1; shift
wt=/tmp/benignrun_$name
git -C /repo worktree remove --force $wt 2>/dev/null; rm -rf $wt
git -C /repo worktree add -q --detach $wt HEAD && cp /repo/pygac/version.py $wt/pygac/version.py
(cd $wt && git apply /verif/benign/$name/patch.diff) || { echo "patch does not apply"; exit 1; }
for p in ${@:-C01 C02 C03 C04 C05 C06 C07 C08 C09 C10 C11 C12 C13 C14 C15 C16 C17 C18 C19 C20}; do
  out=$(VERIF_REPO=$wt /venv/bin/python vf.py check $p 2>&1 | grep -v -i -e conda -e numba | grep -e "^VIOLATION" -e "^MACHINERY" -e "^$p " | tr '\n' ' ')
  echo "$name $out" | cut -c1-260
done
git -C /repo worktree remove --force $wt; rm -rf $wt
