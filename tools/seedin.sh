#!/bin/bash
# confirm a seed delivered by a sub-agent in /tmp/seed_<Cxx><suffix>/_seed, store it as seeded/<Cxx>-<suffix>, remove the worktree, run its check
cd "$(dirname "$0")/.."
p=$1; sfx=${2:-c}
/venv/bin/python tools/seedcheck.py confirm $p /tmp/seed_${p}${sfx}/_seed ${p}-${sfx} 2>&1 | tail -2
git -C /repo worktree remove --force /tmp/seed_${p}${sfx} 2>/dev/null; rm -rf /tmp/seed_${p}${sfx}
[ -d seeded/${p}-${sfx} ] && /venv/bin/python tools/seedcheck.py run ${p}-${sfx} 2>&1 | tail -1 | cut -c1-260
