#!/bin/bash
# confirm a seed delivered by a sub-agent in /tmp/seed_<Cxx>c/_seed, store it as seeded/<Cxx>-c, remove the worktree, run its check
cd "$(dirname "$0")/.."
p=$1
/venv/bin/python tools/seedcheck.py confirm $p /tmp/seed_${p}c/_seed ${p}-c 2>&1 | tail -2
git -C /repo worktree remove --force /tmp/seed_${p}c 2>/dev/null; rm -rf /tmp/seed_${p}c
[ -d seeded/${p}-c ] && /venv/bin/python tools/seedcheck.py run ${p}-c 2>&1 | tail -1 | cut -c1-260
